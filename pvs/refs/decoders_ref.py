# Reference forms (never imported, only parsed) of the CTC prefix-search helpers, transcribed from the
# prefix-search equations (Graves 2006; Hannun 2014; the blog post cited in the decoder's docstring).
# log semiring: (+) = np.logaddexp, (x) = +.  Parameters are compared BY POSITION.


def logprobs_max_deviation(log_probs):
    # max_t | sum_c exp(x[t, c]) - 1 |
    return np.max(np.abs(np.sum(np.exp(log_probs), axis=1) - 1))


def compute_Pb(self, Pb_old, Pnb_old, P_blank):
    # Pb'(l) = (Pb(l) (+) Pnb(l)) (x) P(blank)
    return np.logaddexp(Pb_old, Pnb_old) + P_blank


def compute_Pnb(self, Pnb_old, Pb_old, Pc, last_chars):
    # extension by c:  Pnb'(l+c) = Pb(l) (x) P(c)  (+)  Pnb(l) (x) P(c) (x) [c != last(l)]
    # same prefix   :  Pnb'(l)   = Pnb(l) (x) P(last(l))
    return np.concatenate([
        np.logaddexp(np.add.outer(Pb_old, Pc),
                     np.add.outer(Pnb_old, Pc) + get_continuation_mask(Pb_old.shape[0], Pc.shape[0], last_chars, one=0.0, zero=-np.inf)),
        (Pnb_old + Pc[last_chars])[:, np.newaxis]], axis=1)


def get_continuation_mask(nb_prefixes, nb_chars, last_chars, one=1.0, zero=0.0):
    delta = np.full((nb_prefixes, nb_chars), one)
    delta[(np.arange(delta.shape[0]), last_chars)] = zero
    return delta


def compute_Plm(self, Plm_old, lm_preds):
    # Plm'(l+c) = Plm(l) (x) P_lm(c | l) (x) bonus ; Plm'(l) = Plm(l)
    return np.concatenate([Plm_old[:, np.newaxis] + lm_preds + self._insertion_bonus, Plm_old[:, np.newaxis]], axis=1)


def adjust_for_prefix_joining(P_visual, A_prev, last_chars):
    # a prefix p already in the beam that is also reachable as j + last(p): move (not copy) that mass
    for p_ind, prefix in enumerate(A_prev):
        if prefix == EMPTY_PREFIX:
            continue
        if len(find_matching(A_prev, prefix[:-1])) == 0:
            continue
        assert len(find_matching(A_prev, prefix[:-1])) == 1
        P_visual[p_ind, -1] = np.logaddexp(P_visual[p_ind, -1], P_visual[find_matching(A_prev, prefix[:-1])[0], last_chars[p_ind]])
        P_visual[find_matching(A_prev, prefix[:-1])[0], last_chars[p_ind]] = -np.inf


def update_lm_things(lm, h_prev, lm_preds, best_inds_l, blank_ind):
    if not lm:
        return h_prev, lm_preds
    h_new = h_prev[best_inds_l[0]]
    lm_preds_new = lm_preds[best_inds_l[0]]
    if get_new_prefixes_positions(best_inds_l, blank_ind):
        lm_preds_new[get_new_prefixes_positions(best_inds_l, blank_ind)] = lm.log_probs(lm.advance_h0(
            best_inds_l[1][get_new_prefixes_positions(best_inds_l, blank_ind)],
            h_prev[best_inds_l[0][get_new_prefixes_positions(best_inds_l, blank_ind)]]))
        h_new[get_new_prefixes_positions(best_inds_l, blank_ind)] = lm.advance_h0(
            best_inds_l[1][get_new_prefixes_positions(best_inds_l, blank_ind)],
            h_prev[best_inds_l[0][get_new_prefixes_positions(best_inds_l, blank_ind)]])
    return h_new, lm_preds_new


def find_new_prefixes(prev_l_last, best_inds, A_prev, blank_ind):
    new_l_last = np.ones((len(best_inds[0]),)) * -1
    A_new = [None] * len(best_inds[0])
    for i in get_new_prefixes_positions(best_inds, blank_ind):
        new_l_last[i] = best_inds[1][i]
        A_new[i] = A_prev[best_inds[0][i]][:] + [best_inds[1][i]]
    for i in get_old_prefixes_positions(best_inds, blank_ind):
        new_l_last[i] = prev_l_last[best_inds[0][i]]
        A_new[i] = A_prev[best_inds[0][i]]
    return A_new, new_l_last


def get_new_prefixes_positions(best_inds, blank_ind):
    return [i for i, c_ind in enumerate(best_inds[1]) if c_ind != blank_ind]


def get_old_prefixes_positions(best_inds, blank_ind):
    return [i for i, c_ind in enumerate(best_inds[1]) if c_ind == blank_ind]


def top_k(a, k, reverse=False):
    flat = a.ravel()
    if len(flat) <= k:
        return np.arange(len(a))
    if reverse:
        top_k_inds = np.argpartition(flat, len(flat) - k)[-k:]
    else:
        top_k_inds = np.argpartition(flat, k)[:k]
    return np.unravel_index(top_k_inds, a.shape)


def get_reduced_Pc(self, Pc, selected_chars):
    return np.concatenate([Pc[selected_chars], np.asarray([self.LOG_ZERO_PROBABILITY])])


def find_matching(elems, pattern):
    return [i for i, p in enumerate(elems) if p == pattern]


def __call__(self, logits, model_eos=False, max_unnormalization=1e-5, return_h=False, init_h=None):
    # frame-synchronous prefix beam search; blank is the last symbol
    if logprobs_max_deviation(logits) > max_unnormalization:
        raise ValueError('Expected properly normalized logits')
    beam = [EMPTY_PREFIX]
    if self._lm:
        if init_h is None:
            lm_h = self._lm.initial_h(1)
        else:
            lm_h = init_h
        lm_preds = self._lm.log_probs(lm_h)
    else:
        lm_h = None
        lm_preds = 0
    pb = np.asarray([0.0])                              # empty prefix: all mass "ends in blank"
    pnb = np.asarray([self.LOG_ZERO_PROBABILITY])
    if self._lm:
        lm_P = np.asarray([0.0])
    else:
        lm_P = None
    last = np.zeros(pb.shape, dtype=np.int32)
    for t, Pc in enumerate(logits):
        blank = Pc[-1]
        sel = self.select_relevant_logits(Pc[:-1])[0]
        if sel.shape[0] == 0:                           # nothing but blank is plausible: Pb' = (Pb (+) Pnb) (x) blank, Pnb' = 0
            pb = self.compute_Pb(pb, pnb, blank)
            pnb[...] = self.LOG_ZERO_PROBABILITY
            continue
        red = self.get_reduced_Pc(Pc, sel)
        red_last = self.get_reduced_last_chars(last, sel, red.shape[0] - 1)
        tot_nb = self.compute_Pnb(pnb, pb, red, red_last)
        adjust_for_prefix_joining(tot_nb, beam, red_last)
        tot_b = self.compute_Pb(pb, pnb, blank)
        vis = tot_nb.copy()
        vis[:, -1] = np.logaddexp(tot_b, vis[:, -1])    # the unextended prefix: blank-ending (+) repeat-ending
        sel = np.concatenate([sel, np.asarray([-2, self._blank_ind])])
        if self._lm:
            lm_tot = self.compute_Plm(lm_P, lm_preds)[:, sel]
            tot = vis + lm_tot * self._lm_scale
        else:
            tot = vis
        best = top_k(tot, k=min(self._k, np.sum(np.isfinite(tot))), reverse=True)
        pb = tot_b[best[0]]
        pb[best[1] != tot.shape[1] - 1] = self.LOG_ZERO_PROBABILITY
        pnb = tot_nb[best]
        if self._lm:
            lm_P = lm_tot[best]
        best = best[0], np.asarray([sel[x] for x in best[1]])
        beam, last = find_new_prefixes(last, best, beam, self._blank_ind)
        lm_h, lm_preds = update_lm_things(self._lm, lm_h, lm_preds, best, self._blank_ind)
    if model_eos:
        lm_P += self._lm.eos_scores(lm_h)
    if return_h:
        return build_boh([self.symbol_separator.join(self._letters[i] for i in prefix) for prefix in beam],
                         np.logaddexp(pb, pnb), lm_P, lm_weight=self._lm_scale), lm_h[[np.argmax(np.logaddexp(pb, pnb) + lm_P * self._lm_scale)]]
    else:
        return build_boh([self.symbol_separator.join(self._letters[i] for i in prefix) for prefix in beam],
                         np.logaddexp(pb, pnb), lm_P, lm_weight=self._lm_scale)
