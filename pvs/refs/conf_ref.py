# Reference forms for confidences (never imported, only parsed).
# reference for pero_ocr.core.confidence_estimation:get_letter_confidence
def get_letter_confidence(logits: np.ndarray, alignment: typing.List[int], blank_ind: int) -> typing.List[float]:
    """Function which estimates confidence of characters as the maximal log-prob aligned to them.

    Args:
        logits: numpy array of (unnormalized) log-probabilities of symbols, organized as (time, symbol).
        alignment: a list of symbols assigned to indivudual time frames
        blank_symbol: index of CTC blank in logits, also its representation in alignment

    Returns:
        A list of log probabilities corresponding to non-blank symbols in the alignment.

    Raises:
        Only implicitly.
    """

    log_probs = normalize_logits(logits)
    per_frame_log_probs = pick_elements(log_probs, alignment)
    matched_symbols = squeeze(alignment)
    per_letter_probs = group_elements_by_symbols(per_frame_log_probs, alignment)
    per_letter_probs = [probs for probs, symbol in zip(per_letter_probs, matched_symbols) if symbol != blank_ind]

    return [max(probs) for probs in per_letter_probs]


# reference for pero_ocr.core.confidence_estimation:normalize_logits
def normalize_logits(logits):
    return logits - logsumexp(logits, axis=1)[:, np.newaxis]


# reference for pero_ocr.core.confidence_estimation:pick_elements
def pick_elements(elems, inds):
    return elems[np.arange(elems.shape[0]), inds]


# reference for pero_ocr.core.confidence_estimation:group_elements_by_symbols
def group_elements_by_symbols(elems, symbols):
    grouped = []

    symbol = None
    for e, s in zip(elems, symbols):
        if symbol is None:
            symbol = s
            group = []
        elif s != symbol:
            grouped.append(group)
            group = []
            symbol = s

        group.append(e)
    grouped.append(group)

    return grouped


# reference for pero_ocr.core.confidence_estimation:squeeze
def squeeze(sequence):
    result = []
    last_symbol = None

    for c in sequence:
        if c == last_symbol:
            continue

        last_symbol = c
        result.append(c)

    return result


# reference for pero_ocr.core.confidence_estimation:get_line_confidence
def get_line_confidence(line, labels, aligned_letters=None, log_probs=None):
    # There is the same number of outputs as labels (probably transformer model was used) --> each letter has only one
    # possible frame in logits and thus it is not needed to align them
    if line.logits.shape[0] == len(labels):
        return get_line_confidence_transformer(line, labels)

    if log_probs is None:
        log_probs = line.get_full_logprobs()

    if aligned_letters is None:
        aligned_letters = align_text(-log_probs, labels, log_probs.shape[1] - 1)
    alignment = np.concatenate([aligned_letters, [1000]])

    probs = np.exp(log_probs)
    last_border = 0
    confidences = np.zeros(len(labels))
    for i, label in enumerate(labels):
        label_prob = probs[alignment[i], label]
        next_border = (alignment[i] + 1 + alignment[i+1]) // 2
        pos_probs = probs[last_border: next_border]
        masked_probs = np.copy(pos_probs)
        masked_probs[:, label] = 0
        if i > 0:
            masked_probs[:, labels[i-1]] = 0
        if i + 1 < len(labels):
            masked_probs[:, labels[i+1]] = 0
        other_prob = masked_probs[:, :-1].max()
        confidences[i] = max(0, label_prob - other_prob)
        last_border = next_border

    #confidences = confidences / 2 + 0.5
    return confidences


# reference for pero_ocr.core.confidence_estimation:get_line_confidence_transformer
def get_line_confidence_transformer(line, labels):
    probs = np.exp(line.get_full_logprobs())
    confidences = probs[np.arange(len(labels)), labels]
    return confidences


# reference for pero_ocr.document_ocr.page_parser:line_confident_enough
def line_confident_enough(logits, confidence_threshold):
    log_probs = logits - np.logaddexp.reduce(logits, axis=1)[:, np.newaxis]
    best_probs = np.max(log_probs, axis=-1)
    worst_best_prob = np.exp(np.min(best_probs))

    return worst_best_prob > confidence_threshold


# reference for pero_ocr.document_ocr.page_parser:PageParser.compute_line_confidence
def compute_line_confidence(line, threshold=None):
    logits = line.get_dense_logits()
    log_probs = logits - np.logaddexp.reduce(logits, axis=1)[:, np.newaxis]
    best_ids = np.argmax(log_probs, axis=-1)
    best_probs = np.exp(np.max(log_probs, axis=-1))
    worst_best_prob = get_prob(best_ids, best_probs)
    # print(worst_best_prob, np.sum(np.exp(best_probs) < threshold), best_probs.shape, np.nonzero(np.exp(best_probs) < threshold))
    # for i in np.nonzero(np.exp(best_probs) < threshold)[0]:
    #     print(best_probs[i-1:i+2], best_ids[i-1:i+2])

    return worst_best_prob


# reference for pero_ocr.document_ocr.page_parser:get_prob
def get_prob(best_ids, best_probs):
    last_id = -1
    last_prob = 1
    worst_prob = 1
    for id, prob in zip(best_ids, best_probs):
        if id != last_id:
            worst_prob = min(worst_prob, last_prob)
            last_prob = prob
            last_id = id
        else:
            last_prob = max(prob, last_prob)

    worst_prob = min(worst_prob, last_prob)
    return worst_prob


# reference for pero_ocr.decoding.bag_of_hypotheses:BagOfHypotheses.total_scores
def total_scores(self):
    try:
        return [hyp.vis_sc + self.lm_weight * hyp.lm_sc for hyp in self._hyps]
    except TypeError:
        return [hyp.vis_sc for hyp in self._hyps]


# reference for pero_ocr.decoding.bag_of_hypotheses:BagOfHypotheses.posteriors
def posteriors(self):
    total_scores = self.total_scores()
    total_prob = logsumexp(total_scores)
    return [s - total_prob for s in total_scores]


# reference for pero_ocr.decoding.bag_of_hypotheses:BagOfHypotheses.confidence
def confidence(self):
    posteriors = self.posteriors()
    return math.exp(max(posteriors))


# reference for pero_ocr.decoding.bag_of_hypotheses:BagOfHypotheses.transcript_confidence
def transcript_confidence(self, transcript):
    posteriors = self.posteriors()

    for i, hyp in enumerate(self._hyps):
        if hyp.transcript == transcript:
            return math.exp(posteriors[i])

    return 0.0  # Transcript not found in the bag of hypotheses

