# Reference forms for engine merging (never imported, only parsed).
# reference for user_scripts.merge_ocr_results:get_confidences
def get_confidences(line):
    if line.transcription is not None and line.transcription != "":
        char_map = dict([(c, i) for i, c in enumerate(line.characters)])
        c_idx = np.asarray([char_map[c] for c in line.transcription])
        try:
            confidences = get_line_confidence(line, c_idx)
        except ValueError:
            print('ERROR: Known error in get_line_confidence() - Please, fix it. Logit slice has zero length.')
            confidences = np.ones(len(line.transcription)) * 0.5
        return confidences
    return np.asarray([])


# reference for user_scripts.merge_ocr_results:merge_layouts
def merge_layouts(page_layouts):
    merged_layout = page_layouts[0]
    all_lines = [layout.lines_iterator() for layout in page_layouts]

    for lines in zip(*all_lines):
        merged_line = lines[0]

        for line in lines:
            if line.id != merged_line.id:
                print(f'ERROR: Line ID is not matching for layout id {merged_layout.id}.')
                exit(-1)

        best_confidence = 0
        for line in lines:
            line_confidences = get_confidences(line)
            if line_confidences.size > 0:
                line_confidence = line_confidences.mean()
            else:
                line_confidence = -10

            if line_confidence > best_confidence:
                best_confidence = line_confidence
                merged_line.transcription = line.transcription
                merged_line.logits = line.logits
                merged_line.characters = line.characters
                merged_line.transcription_confidence = line_confidence

