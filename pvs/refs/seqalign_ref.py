# Reference forms of the Wagner-Fischer edit-distance variants (never imported, only parsed).
# Rolling row `dist` over the target; per source symbol: vertical (+del, same column, previous row),
# diagonal (+sub if different, column-1 of the previous row, read before any update of this row),
# then the horizontal relaxation (+ins, column-1 of the current row).  Row 0 is the insertion ramp.


# reference for pero_ocr.sequence_alignment:levenshtein_distance
def levenshtein_distance(source, target, sub_cost=1, ins_cost=1, del_cost=1):
    target = np.array(target)
    dist = np.arange(len(target) + 1) * ins_cost
    for s in source:
        dist[1:] = np.minimum(dist[1:] + del_cost, dist[:-1] + (target != s) * sub_cost)
        dist[0] += del_cost
        for ii in range(len(dist) - 1):
            if dist[ii + 1] > dist[ii] + ins_cost:
                dist[ii + 1] = dist[ii] + ins_cost
    return dist[-1]


# reference for pero_ocr.sequence_alignment:levenshtein_alignment
def levenshtein_alignment(source, target, sub_cost=1, ins_cost=1, del_cost=1, empty_symbol=None):
    target = np.array(target)
    backtrack = np.ones((len(source) + 1, len(target) + 1))      # +1: came from the row above (deletion of a source symbol)
    backtrack[0] = -1                                            # row 0 is reached by insertions only
    dist = np.arange(len(target) + 1) * ins_cost
    for ii, s in enumerate(source):
        cost4sub = dist[:-1] + (target != s) * sub_cost
        dist += del_cost
        where_sub = cost4sub < dist[1:]
        dist[1:][where_sub] = cost4sub[where_sub]
        backtrack[ii + 1, 1:][where_sub] = 0                     # 0: diagonal
        for jj in range(len(dist) - 1):
            if dist[jj + 1] > dist[jj] + ins_cost:
                dist[jj + 1] = dist[jj] + ins_cost
                backtrack[ii + 1, jj + 1] = -1                   # -1: horizontal (insertion of a target symbol)
    src_pos = len(source)
    tar_pos = len(target)
    alig = []
    while tar_pos > 0 or src_pos > 0:
        where = backtrack[src_pos, tar_pos]
        if where >= 0:
            src_pos -= 1
        if where <= 0:
            tar_pos -= 1
        alig.insert(0, (empty_symbol if where < 0 else source[src_pos],
                        empty_symbol if where > 0 else target[tar_pos]))
    return alig


# reference for pero_ocr.sequence_alignment:levenshtein_alignment_path
def levenshtein_alignment_path(source, target, sub_cost=1, ins_cost=1, del_cost=1, empty_symbol=None):
    target = np.array(target)
    backtrack = np.ones((len(source) + 1, len(target) + 1))
    backtrack[0] = -1
    dist = np.arange(len(target) + 1) * ins_cost
    for ii, s in enumerate(source):
        cost4sub = dist[:-1] + (target != s) * sub_cost
        dist += del_cost
        where_sub = cost4sub < dist[1:]
        dist[1:][where_sub] = cost4sub[where_sub]
        backtrack[ii + 1, 1:][where_sub] = 0
        for jj in range(len(dist) - 1):
            if dist[jj + 1] > dist[jj] + ins_cost:
                dist[jj + 1] = dist[jj] + ins_cost
                backtrack[ii + 1, jj + 1] = -1
    src_pos = len(source)
    tar_pos = len(target)
    align = []
    while tar_pos > 0 or src_pos > 0:
        where = backtrack[src_pos, tar_pos]
        if where >= 0:
            src_pos -= 1
        if where <= 0:
            tar_pos -= 1
        align.append(where)
    return list(reversed(align))


# reference for pero_ocr.sequence_alignment:edit_stats_for_alignment
def edit_stats_for_alignment(alig, empty_symbol=None):
    if len(alig) == 0:
        return 0, 0, 0, 0, 0
    alig = np.array(alig)
    ncor = np.sum(alig[:, 0] == alig[:, 1])
    ndel = np.sum(alig[:, 0] == np.array(empty_symbol))
    nphn = np.sum(alig[:, 1] != np.array(empty_symbol))
    nins = len(alig) - nphn
    nsub = nphn - ncor - ndel
    return nphn, ncor, nins, ndel, nsub


# reference for pero_ocr.sequence_alignment:levenshtein_distance_substring
def levenshtein_distance_substring(source, target, sub_cost=1, ins_cost=1, del_cost=1):
    # the shorter sequence is matched against any substring of the longer one:
    # column 0 stays free (free leading part), the extra last cell is the running minimum (free trailing part)
    if len(target) > len(source):
        target, source = source, target
    target = np.array(target)
    dist = np.ones((1 + len(target) + 1)) * float('inf')
    dist[:-1] = np.arange(len(target) + 1) * ins_cost
    if len(source) == 0:
        dist[-1] = dist[-2]
    for s in source:
        dist[1:-1] = np.minimum(dist[1:-1] + del_cost, dist[:-2] + (target != s) * sub_cost)
        for ii in range(len(dist) - 2):
            if dist[ii + 1] > dist[ii] + ins_cost:
                dist[ii + 1] = dist[ii] + ins_cost
        dist[-1] = np.minimum(dist[-1], dist[-2])
    return dist[-1]


# reference for pero_ocr.sequence_alignment:levenshtein_alignment_substring
def levenshtein_alignment_substring(source, target, sub_cost=1, ins_cost=1, del_cost=1, empty_symbol=None):
    swapped = False
    if len(target) > len(source):
        target, source = source, target
        swapped = True
    target = np.array(target)
    backtrack = np.ones((len(source) + 1, 1 + len(target) + 1))
    backtrack[0] = -1
    dist = np.ones((1 + len(target) + 1)) * float('inf')
    dist[:-1] = np.arange(len(target) + 1) * ins_cost
    for ii, s in enumerate(source):
        cost4sub = dist[:-2] + (target != s) * sub_cost
        dist[1:-1] += del_cost
        where_sub = cost4sub < dist[1:-1]
        dist[1:-1][where_sub] = cost4sub[where_sub]
        backtrack[ii + 1, 1:-1][where_sub] = 0
        for jj in range(len(dist) - 2):
            if dist[jj + 1] > dist[jj] + ins_cost:
                dist[jj + 1] = dist[jj] + ins_cost
                backtrack[ii + 1, jj + 1] = -1
        if dist[-1] == dist[-2]:
            backtrack[ii + 1, -1] = 0
        elif dist[-1] > dist[-2]:
            dist[-1] = dist[-2]
            backtrack[ii + 1, -1] = -1
        else:
            pass
    suffix_beginning = backtrack.shape[0]
    if np.any(backtrack[:, -1] > 0):
        suffix_beginning = np.where(backtrack[:, -1] < 1)[0][-1] + 1
    backtrack = backtrack[:suffix_beginning, :-1]
    src_pos = backtrack.shape[0] - 1
    tar_pos = len(target)
    alig = []
    for char in source[suffix_beginning - 1:]:
        alig.append((char, empty_symbol))
    while tar_pos > 0 or src_pos > 0:
        where = backtrack[src_pos, tar_pos]
        if where >= 0:
            src_pos -= 1
        if where <= 0:
            tar_pos -= 1
        alig.insert(0, (empty_symbol if where < 0 else source[src_pos],
                        empty_symbol if where > 0 else target[tar_pos]))
    if swapped:
        alig = [(pair[1], pair[0]) for pair in alig]
    return alig
