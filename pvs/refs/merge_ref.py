# Reference forms for stitching over-long lines (never imported, only parsed).
# reference for pero_ocr.ocr_engine.line_ocr_engine:merge_transcriptions_and_logits
def merge_transcriptions_and_logits(transcription_parts, logits_parts):
    logits_parts_shrinked = []
    for transcription, logits in zip(transcription_parts, logits_parts):
        logits_parts_shrinked.append(logits[:len(transcription)])

    result_transcription = transcription_parts[0]
    result_logits = logits_parts_shrinked[0]

    for transcription, logits in zip(transcription_parts[1:], logits_parts_shrinked[1:]):
        overlap = find_best_overlap(result_transcription, transcription)
        keep = len(result_transcription) - (overlap + 1) // 2
        result_transcription = result_transcription[:keep] + transcription[overlap // 2:]
        result_logits = np.concatenate([result_logits[:keep], logits[overlap // 2:]], axis=0)

    return result_transcription, result_logits


# reference for pero_ocr.ocr_engine.line_ocr_engine:find_best_overlap
def find_best_overlap(text1, text2):
    max_overlap = min(len(text1), len(text2))

    best_cer = 1
    best_overlap = 0

    for i in range(1, max_overlap+1):
        s1 = text1[-i:]
        s2 = text2[:i]
        cer = levenshtein_distance(list(s1), list(s2)) / len(s1)

        if cer < best_cer:
            best_cer = cer
            best_overlap = i

    return best_overlap

