"""References generated from the reviewed tree for functions in the dependency cones (tools/mkauto.py)."""


# reference for pero_ocr.core.arabic_helper:ArabicHelper._create_backward_mapping
def a000_ArabicHelper__create_backward_mapping(self):
    forward_mapping = self._reshaper.letters
    backward_mapping = {}

    for letter in forward_mapping:
        letter_options = forward_mapping[letter]
        for letter_option in letter_options:
            if len(letter_option) > 0:
                backward_mapping[letter_option] = letter

    self._add_ligatures(backward_mapping)

    return backward_mapping


# reference for pero_ocr.core.crop_engine:EngineLineCropper.reverse_xy_mapping
def a001_EngineLineCropper_reverse_xy_mapping(self, forward_mapping, shape):
    y_mapping = forward_mapping[:,:,1]
    y_mapping = np.clip(cv2.resize(y_mapping, (0,0), fx=4, fy=4, interpolation=cv2.INTER_LINEAR), 0, shape[0]-1)
    y_mapping = np.round(y_mapping).astype(int)
    ystart = np.round(np.amin(y_mapping)).astype(int)
    ystop = np.round(np.amax(y_mapping)).astype(int) + 1

    x_mapping = forward_mapping[:,:,0]
    x_mapping = np.clip(cv2.resize(x_mapping, (0,0), fx=4, fy=4, interpolation=cv2.INTER_LINEAR), 0, shape[1]-1)
    x_mapping = np.round(x_mapping).astype(int)
    xstart = np.round(np.amin(x_mapping)).astype(int)
    xstop = np.round(np.amax(x_mapping)).astype(int) + 1
    y_map = np.tile(np.arange(0, forward_mapping.shape[0]), (forward_mapping.shape[1], 1)).T.astype(np.float32)
    y_map = cv2.resize(y_map, (0,0), fx=4, fy=4, interpolation=cv2.INTER_LINEAR)
    x_map = np.tile(np.arange(0, forward_mapping.shape[1]), (forward_mapping.shape[0], 1)).astype(np.float32)
    x_map = cv2.resize(x_map, (0,0), fx=4, fy=4, interpolation=cv2.INTER_LINEAR)
    reverse_mapping = np.ones((ystop-ystart, xstop-xstart, 2), dtype=np.float32) * -1

    for sx, sy, dx, dy in zip(x_map.flatten(), y_map.flatten(), x_mapping.flatten(), y_mapping.flatten()):
        # print(dy, ystart, dx, xstart)
        reverse_mapping[dy-ystart, dx-xstart, 0] = sx
        reverse_mapping[dy-ystart, dx-xstart, 1] = sy
    return reverse_mapping, (ystart, xstart)


# reference for pero_ocr.core.layout:PageLayout.render_to_image
def a002_PageLayout_render_to_image(self, image, thickness: int = 2, circles: bool = True, render_order: bool = False):
    """Render layout into image.
    :param image: image to render layout into
    """
    for region_layout in self.regions:
        image = draw_lines(
            image,
            [line.baseline for line in region_layout.lines if line.baseline is not None], color=(0, 0, 255),
            circles=(circles, circles, False), thickness=thickness)
        image = draw_lines(
            image,
            [line.polygon for line in region_layout.lines if line.polygon is not None], color=(0, 255, 0),
            close=True, thickness=thickness)
        image = draw_lines(
            image,
            [region_layout.polygon], color=(255, 0, 0), circles=(circles, circles, circles), close=True,
            thickness=thickness)

    if render_order:
        font = cv2.FONT_HERSHEY_DUPLEX
        font_scale = 4
        font_thickness = 5

        for idx, region in enumerate(self.regions):
            min = region.polygon.min(axis=0)
            max = region.polygon.max(axis=0)

            text_w, text_h = cv2.getTextSize(f"{idx}", font, font_scale, font_thickness)[0]

            mid_coords = (int((min[0] + max[0]) // 2 - text_w // 2), int((min[1] + max[1]) // 2 + text_h // 2))

            cv2.putText(image, f"{idx}", mid_coords, font, font_scale,
                        (0, 0, 0), thickness=font_thickness, lineType=cv2.LINE_AA)

    return image


# reference for pero_ocr.core.layout:draw_lines
def a003_draw_lines(img, lines, color=(255, 0, 0), circles=(False, False, False), close=False, thickness=2):
    """Draw a line into image.
    :param img: input image
    :param lines: list of arrays of line coords
    :param color: RGB color of line
    :param circles: where to draw circles (start, mid steps, end)
    :param close: whether the rendered line should be a closed polygon
    """
    for line in lines:
        first = line[0]
        last = first
        if circles[0]:
            cv2.circle(img, (int(np.round(last[0])), int(np.round(last[1]))), 3, color, 4)
        for p in line[1:]:
            cv2.line(img, (int(np.round(last[0])), int(np.round(last[1]))), (int(np.round(p[0])), int(np.round(p[1]))),
                     color, thickness)
            if circles[1]:
                cv2.circle(img, (int(np.round(last[0])), int(np.round(last[1]))), 3, color, 4)
            last = p
        if circles[1]:
            cv2.circle(img, (int(np.round(line[-1][0])), int(np.round(line[-1][1]))), 3, color, 4)
        if close:
            cv2.line(img, (int(np.round(last[0])), int(np.round(last[1]))),
                     (int(np.round(first[0])), int(np.round(first[1]))), color, thickness)
    return img


# reference for pero_ocr.core.layout:guess_height_at_point
def a004_guess_height_at_point(text_line: TextLine, point):
    direction = text_line.baseline[0] - text_line.baseline[-1]
    direction = direction[::-1]
    direction[0] = -direction[0]
    cross_line = np.stack([point - direction * 10, point + direction * 10])

    cross_line = LineString(cross_line)
    polygon = Polygon(text_line.polygon)
    intersection = polygon.intersection(cross_line)

    if type(intersection) == LineString:
        intersection = np.asarray(intersection.coords.xy).T
    else:
        return None

    if len(intersection) == 0:
        return None

    if intersection[0][1] < intersection[1][1]:
        intersection_above = intersection[0]
        intersection_below = intersection[1]
    else:
        intersection_above = intersection[1]
        intersection_below = intersection[0]

    heights = [((point - intersection_above) ** 2).sum() ** 0.5, ((point - intersection_below) ** 2).sum() ** 0.5]
    return heights


# reference for pero_ocr.core.layout:guess_height_simple
def a005_guess_height_simple(text_line: TextLine):
    height = text_line.polygon[:, 1].max() - text_line.polygon[:, 1].min()
    return [height * 0.8, height * 0.2]


# reference for pero_ocr.core.layout:guess_line_heights_from_polygon
def a006_guess_line_heights_from_polygon(text_line: TextLine, use_center: bool = False, n: int = 10, interpolate=False):
    '''
    Guess line heights for line if missing (e.g. import from Transkribus).
    Heights are computed from polygon intersection with baseline normal in the middle of baseline.
    '''
    try:
        heights_up = []
        heights_down = []
        points = []

        if use_center:
            if text_line.baseline.shape[0] % 2 == 0:
                center = (text_line.baseline[text_line.baseline.shape[0]//2 - 1] + text_line.baseline[text_line.baseline.shape[0]//2]) / 2
            else:
                center = text_line.baseline[text_line.baseline.shape[0]//2]

            points = [center]
            n -= 1

        replace = len(text_line.baseline) < n

        if interpolate:
            points_per_segment = int(n / len(text_line.baseline))

            for start_point, end_point in zip(text_line.baseline[:-1], text_line.baseline[1:]):
                points.append(np.linspace(start_point, end_point, points_per_segment, endpoint=False))

            points.append(text_line.baseline[-1])

        else:
            points += text_line.baseline[np.random.choice(text_line.baseline.shape[0], n, replace=replace), :].tolist()

        for point in points:
            heights = guess_height_at_point(text_line, point)
            if heights is None:
                continue

            up, down = heights
            heights_up.append(up)
            heights_down.append(down)

        if len(heights_up) > 0:
            height_up = np.mean(heights_up)
            height_down = np.mean(heights_down)

        else:
            height_up, height_down = guess_height_simple(text_line)

    except:
        height_up, height_down = guess_height_simple(text_line)

    text_line.heights = [height_up, height_down]


# reference for pero_ocr.decoding.decoders:CTCPrefixLogRawNumpyDecoder.compute_Pb
def a007_CTCPrefixLogRawNumpyDecoder_compute_Pb(self, Pb_old, Pnb_old, P_blank):
    return np.logaddexp(Pb_old, Pnb_old) + P_blank  # (Pb_old + Pnb_old) * P_blank


# reference for pero_ocr.decoding.decoders:CTCPrefixLogRawNumpyDecoder.compute_Plm
def a008_CTCPrefixLogRawNumpyDecoder_compute_Plm(self, Plm_old, lm_preds):  # TODO can be cached too
    new = Plm_old[:, np.newaxis] + lm_preds + self._insertion_bonus
    return np.concatenate([new, Plm_old[:, np.newaxis]], axis=1)


# reference for pero_ocr.decoding.decoders:CTCPrefixLogRawNumpyDecoder.compute_Pnb
def a009_CTCPrefixLogRawNumpyDecoder_compute_Pnb(self, Pnb_old, Pb_old, Pc, last_chars):
    P_continued_letter = Pnb_old + Pc[last_chars]  # multiplication of probabilities

    P_letter_from_blank = np.add.outer(Pb_old, Pc)
    delta = get_continuation_mask(Pb_old.shape[0], Pc.shape[0], last_chars, one=0.0, zero=-np.inf)
    P_switching_letter = np.add.outer(Pnb_old, Pc) + delta  # delta does masking, so anything cancelled is -inf
    Pnb_new_prefixes = np.logaddexp(P_letter_from_blank, P_switching_letter)  # summation of probabilities

    return np.concatenate([Pnb_new_prefixes, P_continued_letter[:, np.newaxis]], axis=1)


# reference for pero_ocr.decoding.decoders:CTCPrefixLogRawNumpyDecoder.get_reduced_Pc
def a010_CTCPrefixLogRawNumpyDecoder_get_reduced_Pc(self, Pc, selected_chars):
    reduced_Pc = Pc[selected_chars]
    neginf = np.asarray([self.LOG_ZERO_PROBABILITY])
    return np.concatenate([reduced_Pc, neginf])


# reference for pero_ocr.decoding.decoders:adjust_for_prefix_joining
def a011_adjust_for_prefix_joining(P_visual, A_prev, last_chars):
    for p_ind, prefix in enumerate(A_prev):
        if prefix == EMPTY_PREFIX:
            continue

        joinable_prefix_inds = find_matching(A_prev, prefix[:-1])
        if len(joinable_prefix_inds) == 0:
            continue

        assert len(joinable_prefix_inds) == 1
        joinable_prefix_ind = joinable_prefix_inds[0]

        original_P = P_visual[p_ind, -1]
        joining_P = P_visual[joinable_prefix_ind, last_chars[p_ind]]
        resulting_P = np.logaddexp(original_P, joining_P)

        P_visual[p_ind, -1] = resulting_P
        P_visual[joinable_prefix_ind, last_chars[p_ind]] = -np.inf


# reference for pero_ocr.decoding.decoders:find_matching
def a012_find_matching(elems, pattern):
    return [i for i, p in enumerate(elems) if p == pattern]


# reference for pero_ocr.decoding.decoders:find_new_prefixes
def a013_find_new_prefixes(prev_l_last, best_inds, A_prev, blank_ind):
    new_l_last = np.ones((len(best_inds[0]),)) * -1
    A_new = [None] * len(best_inds[0])

    for i in get_new_prefixes_positions(best_inds, blank_ind):
        l_ind = best_inds[0][i]
        c_ind = best_inds[1][i]
        new_l_last[i] = c_ind
        A_new[i] = A_prev[l_ind][:] + [c_ind]

    for i in get_old_prefixes_positions(best_inds, blank_ind):
        l_ind = best_inds[0][i]
        new_l_last[i] = prev_l_last[l_ind]
        A_new[i] = A_prev[l_ind]

    return A_new, new_l_last


# reference for pero_ocr.decoding.decoders:get_continuation_mask
def a014_get_continuation_mask(nb_prefixes, nb_chars, last_chars, one=1.0, zero=0.0):
    delta = np.full((nb_prefixes, nb_chars), one)
    delta[(np.arange(delta.shape[0]), last_chars)] = zero
    return delta


# reference for pero_ocr.decoding.decoders:get_new_prefixes_positions
def a015_get_new_prefixes_positions(best_inds, blank_ind):
    return [i for i, c_ind in enumerate(best_inds[1]) if c_ind != blank_ind]


# reference for pero_ocr.decoding.decoders:get_old_prefixes_positions
def a016_get_old_prefixes_positions(best_inds, blank_ind):
    return [i for i, c_ind in enumerate(best_inds[1]) if c_ind == blank_ind]


# reference for pero_ocr.decoding.decoders:logprobs_max_deviation
def a017_logprobs_max_deviation(log_probs):
    probs = np.exp(log_probs)
    sums = np.sum(probs, axis=1)
    return np.max(np.abs(sums - 1))


# reference for pero_ocr.decoding.decoders:update_lm_things
def a018_update_lm_things(lm, h_prev, lm_preds, best_inds_l, blank_ind):
    if not lm:
        return h_prev, lm_preds

    h_new = h_prev[best_inds_l[0]]
    lm_preds_new = lm_preds[best_inds_l[0]]

    new_prefix_positions = get_new_prefixes_positions(best_inds_l, blank_ind)
    if new_prefix_positions:
        new_prefix_l_inds = best_inds_l[0][new_prefix_positions]
        new_prefix_c_inds = best_inds_l[1][new_prefix_positions]
        h_replacement = lm.advance_h0(new_prefix_c_inds, h_prev[new_prefix_l_inds])
        lm_preds_new[new_prefix_positions] = lm.log_probs(h_replacement)
        h_new[new_prefix_positions] = h_replacement

    return h_new, lm_preds_new


# reference for pero_ocr.decoding.decoding_itf:get_ocr_charset
def a019_get_ocr_charset(fn):
    with open(fn) as f:
        chars = json.load(f)['characters']

    return chars


# reference for pero_ocr.decoding.multisort:top_k
def a020_top_k(a, k, reverse=False):
    flat = a.ravel()

    if len(flat) <= k:
        return np.arange(len(a))

    if reverse:
        top_k_inds = np.argpartition(flat, len(flat)-k)[-k:]
    else:
        top_k_inds = np.argpartition(flat, k)[:k]

    return np.unravel_index(top_k_inds, a.shape)


# reference for pero_ocr.document_ocr.page_parser:LayoutPostprocessor.__init__
def a021_LayoutPostprocessor___init__(self, config, config_path=''):
    self.retrace_regions = config.getboolean('RETRACE_REGIONS')


# reference for pero_ocr.document_ocr.page_parser:LineFilter.__init__
def a022_LineFilter___init__(self, config, device, config_path):
    self.filter_directions = config.getboolean('FILTER_DIRECTIONS')
    self.filter_incomplete_pages = config.getboolean('FILTER_INCOMPLETE_PAGES')
    self.filter_pages_with_short_lines = config.getboolean('FILTER_PAGES_WITH_SHORT_LINES')
    self.length_threshold = config.getint('LENGTH_THRESHOLD')

    use_cpu = config.getboolean('USE_CPU')
    self.device = device if not use_cpu else torch.device("cpu")

    if self.filter_directions:
        self.engine = LineFilterEngine(
            model_path=compose_path(config['MODEL_PATH'], config_path),
            device=self.device
        )


# reference for pero_ocr.document_ocr.page_parser:LinePostprocessor.__init__
def a023_LinePostprocessor___init__(self, config, config_path=''):
    stretch_lines = config['STRETCH_LINES']
    if stretch_lines != 'max':
        stretch_lines = int(stretch_lines)
    self.engine = PostprocessingEngine(
        stretch_lines=stretch_lines,
        resample_lines=config.getboolean('RESAMPLE_LINES'),
        heights_from_regions=config.getboolean('HEIGHTS_FROM_REGIONS')
    )


# reference for pero_ocr.document_ocr.page_parser:PageDecoder.decoding_summary
def a024_PageDecoder_decoding_summary(self):
    if self.lines_examined == 0:
        return 'This PageDecoder has not processed a single line yet'

    if self.lines_decoded == 0:
        return f'Processed {self.lines_examined} lines, but none required actual decoding'

    decoded_pct = 100.0 * self.lines_decoded / self.lines_examined
    ms_per_line_decoded = 1000.0 * self.seconds_decoding / self.lines_decoded
    return f'Ran on {self.lines_examined}, decoded {self.lines_decoded} lines ({decoded_pct:.1f} %) in {self.seconds_decoding:.2f}s ({ms_per_line_decoded:.1f}ms per line)'


# reference for pero_ocr.document_ocr.page_parser:TextlineExtractorSimple.__init__
def a025_TextlineExtractorSimple___init__(self, config, config_path=''):
    adaptive_threshold = config.getint('ADAPTIVE_THRESHOLD')
    block_size = config.getint('BLOCK_SIZE')
    minimum_length = config.getint('MINIMUM_LENGTH')
    ignored_border_pixels = config.getint('IGNORED_BORDER_PIXELS')
    self.engine = EngineLineDetectorSimple(
        adaptive_threshold=adaptive_threshold,
        block_size=block_size,
        minimum_length=minimum_length,
        ignored_border_pixels=ignored_border_pixels
    )


# reference for pero_ocr.document_ocr.page_parser:WholePageRegion.__init__
def a026_WholePageRegion___init__(self, config, config_path=''):
    pass


# reference for pero_ocr.document_ocr.page_parser:get_default_device
def a027_get_default_device():
    return torch.device('cuda') if torch.cuda.is_available() else torch.device('cpu')


# reference for pero_ocr.error_summary:BoundaryErrorsSummary.__init__
def a028_BoundaryErrorsSummary___init__(self, boundary_alignment):
    if MatchTypes.I in boundary_alignment and MatchTypes.D in boundary_alignment:
        raise AssertionError('Got both insertion and deletion in the ending errors.')

    c = False
    pd = False
    pi = False
    md = False
    mi = False
    ps = False
    if len(boundary_alignment) == 0:
        c = True
    elif MatchTypes.S in boundary_alignment and MatchTypes.D in boundary_alignment:
        md = True
    elif MatchTypes.S in boundary_alignment and MatchTypes.I in boundary_alignment:
        mi = True
    elif MatchTypes.D in boundary_alignment:
        pd = True
    elif MatchTypes.I in boundary_alignment:
        pi = True
    elif MatchTypes.S in boundary_alignment:
        ps = True

    self.correct = c
    self.pure_deletions = pd
    self.mixed_deletions = md
    self.pure_insertions = pi
    self.mixed_insertions = mi
    self.pure_substitutions = ps


# reference for pero_ocr.error_summary:BoundaryErrorsSummary.empty_summary
def a029_BoundaryErrorsSummary_empty_summary():
    summary = BoundaryErrorsSummary.__new__(BoundaryErrorsSummary)
    summary.correct = 0
    summary.pure_deletions = 0
    summary.mixed_deletions = 0
    summary.pure_insertions = 0
    summary.mixed_insertions = 0
    summary.pure_substitutions = 0

    return summary


# reference for pero_ocr.error_summary:get_non_matching_prefix
def a030_get_non_matching_prefix(alignment_types):
    prefix = []

    for align_type in alignment_types:
        if align_type == MatchTypes.C:
            break

        prefix.append(align_type)

    return prefix


# reference for pero_ocr.error_summary:get_non_matching_suffix
def a031_get_non_matching_suffix(alignment_types):
    rev_suffix = get_non_matching_prefix(reversed(alignment_types))
    return list(reversed(rev_suffix))


# reference for pero_ocr.layout_engines.baseline_refiner:refine_baseline
def a032_refine_baseline(baseline, heights, detection_maps, downsample, crop_engine, detection_threshold=0.3):
    """
    Refines the input baseline using fitting 2nd order polynom to the baseline detection map.
    :param baseline: numpy array of input baseline coords
    :param heights: list of input line heights [ascender, descender]
    :param detection_maps: channel 0: ascender heights, channel 1: descender heights, channel 2: baseline detections,
    channel 3: baseline endpoints, channel 4: region detections
    :param downsample: ds factor
    :param crop_engine: EngineLineCropper() object
    :return: numpy array of refined baseline coords
    """

    try:  # multiple steps can fail unpredictably due to cropper or failed polynom fitting
        baseline = baseline.copy() / downsample
        tolerance = (heights[0] + heights[1]) / (2 * downsample)

        line_crop, line_mapping = crop_engine.crop(
                detection_maps[:, :, 2:3], baseline, [tolerance, tolerance], return_forward_mapping=True)
        line_crop[line_crop < detection_threshold] = 0
        indices = np.where(line_crop)

        bs_pos_in_line = int(np.round(line_crop.shape[0] * heights[0]/(heights[0] + heights[1])))
        weights_above = np.linspace(0, 1.0, bs_pos_in_line)
        weights_below = np.linspace(1.0, 0, line_crop.shape[0] - bs_pos_in_line)
        positional_weights = np.tile(np.concatenate((weights_above, weights_below))[:, np.newaxis], (1, line_crop.shape[1]))

        weights = (line_crop * positional_weights)[indices[0], indices[1]]
        line_interpf = np.poly1d(np.polyfit(indices[1], indices[0], 3, w=weights))

        line_x_indices = np.arange(0, line_crop.shape[1])
        line_y_indices = np.round(np.clip(line_interpf(line_x_indices), 0, line_crop.shape[0]-1)).astype(int)
        line_x_indices = np.round(line_x_indices)

        line_values = line_crop[line_y_indices, line_x_indices]
        line_x_indices = np.delete(line_x_indices, np.where(line_values < detection_threshold))

        min_x = np.maximum(np.amin(line_x_indices)-10, 0)
        max_x = np.minimum(np.amax(line_x_indices)+10, line_crop.shape[1]-1)

        line_length = line_mapping[bs_pos_in_line, np.clip(max_x, 0, line_mapping.shape[1]-1), 0] - line_mapping[bs_pos_in_line, np.clip(min_x, 0, line_mapping.shape[1]-1), 0]
        num_steps = np.minimum(
            10,
            int(np.round(np.maximum(
                2,
                line_length/(tolerance * 2)
            ))))

        new_x_indices = np.linspace(min_x, max_x, num_steps)
        new_y_indices = np.round(line_interpf(new_x_indices)).astype(int)
        new_x_indices = np.round(new_x_indices).astype(int)

        new_y_indices = np.clip(new_y_indices, 0, line_mapping.shape[0] - 1)
        new_x_indices = np.clip(new_x_indices, 0, line_mapping.shape[1] - 1)

        new_baseline_x = line_mapping[new_y_indices, new_x_indices, 0]
        new_baseline_y = line_mapping[new_y_indices, new_x_indices, 1]
        return np.stack([new_baseline_x, new_baseline_y], axis=1) * downsample

    except:
        print(f'Baseline refinement failed for baseline {baseline * downsample}')
        return baseline * downsample


# reference for pero_ocr.layout_engines.cnn_layout_engine:LineFilterEngine.__init__
def a033_LineFilterEngine___init__(self, model_path, device, downsample=4, max_mp=5):
    self.tiltnet = TorchOrientationNet(
        model_path,
        device=device,
        max_mp=max_mp
    )
    self.downsample = downsample


# reference for pero_ocr.layout_engines.line_in_region_detector:detect_lines_in_region
def a034_detect_lines_in_region(region, detection_maps, downsample, line_detection_threshold=0.2):
    """
    Detects straight textlines inside a single region.

    :param region: numpy array of polygon points
    :param detection_maps: channel 0: ascender heights, channel 1: descender heights, channel 2: baseline detections,
    channel 3: baseline endpoints, channel 4: region detections
    :return: list of baselines, list of heights, list of textline polygons
    """

    region_polygon = np.stack([
        np.clip(region[:, 0] / downsample, 1, detection_maps.shape[1] - 2),
        np.clip(region[:, 1] / downsample, 1, detection_maps.shape[0] - 2)],
        axis=1
    )
    region_bb_lt = np.round(np.amin(region_polygon, axis=0) - 1).astype(np.int32)
    region_bb_rb = np.round(np.amax(region_polygon, axis=0) + 1).astype(np.int32)
    region_maps = detection_maps[region_bb_lt[1]:region_bb_rb[1], region_bb_lt[0]:region_bb_rb[0]]

    region_polygon -= region_bb_lt[np.newaxis]

    polygon_mask = np.zeros(region_maps.shape[0:2], dtype=np.float32)

    cv2.fillPoly(polygon_mask, [np.round(region_polygon).astype(np.int32)], 1.0)
    region_maps = region_maps * polygon_mask[:, :, np.newaxis]

    contours, hierarchy = cv2.findContours((region_maps[:, :, 2] > line_detection_threshold).astype(np.uint8),
                                          cv2.RETR_TREE, cv2.CHAIN_APPROX_SIMPLE)

    cov_mat = np.zeros([2, 2])
    for contour in contours:
        contour = contour[:, 0]
        centralized = contour - contour.mean(axis=0)
        cov_mat += centralized.T.dot(centralized)
    eig_val, eig_vec = np.linalg.eig(cov_mat)
    direction = eig_vec[np.argmax(eig_val)]
    if direction[0] < 0:
        direction *= -1
    rad_angle = np.arctan2(direction[1], direction[0])

    T = cv2.getRotationMatrix2D(tuple(np.asarray(region_maps.shape[0:2]) * 0.5), -rad_angle / np.pi * 180, 1)
    T = np.concatenate((T, np.array([[0, 0, 1]])), axis=0)

    transformed_polygon = cv2.transform(region_polygon[np.newaxis], T[:2, :])
    transformed_polygon = transformed_polygon[0]

    polygon_lt = np.amin(transformed_polygon, axis=0)
    polygon_rb = np.amax(transformed_polygon, axis=0)

    M_trans = np.array([
        [1, 0, -polygon_lt[0]],
        [0, 1, -polygon_lt[1]],
        [0, 0, 1]
    ])
    T = np.dot(T, M_trans)
    output_size = tuple((polygon_rb - polygon_lt + 1).astype(int))

    region_map = cv2.warpAffine(region_maps[:, :, :3], T[:2, :], output_size)
    polygon_mask = cv2.warpAffine(polygon_mask, T[:2, :], output_size)

    region_map[:, :, 2][region_map[:, :, 2] < line_detection_threshold] = 0
    detection_projections = np.sum(region_map[:, :, 2], axis=1) / output_size[0]

    mean_height = np.average((region_map[:, :, 0] + region_map[:, :, 1])[polygon_mask > 0])
    baselines_y, baselines_y_float = find_peaks(detection_projections, min_distance=np.maximum(0.7*mean_height, 1))

    if baselines_y.shape[0] == 0:
        return [], [], []

    baselines_x0 = np.argmax(polygon_mask, axis=1)[baselines_y]  # first x of polygon mask
    baselines_x1 = (polygon_mask.shape[1] - np.argmax(polygon_mask[:, ::-1], axis=1))[baselines_y]  # last x of polygon mask

    baselines = np.stack((
        np.stack((baselines_x0, baselines_x1), axis=1),
        np.stack((baselines_y_float, baselines_y_float), axis=1)),
        axis=2
    )
    baselines = cv2.transform(baselines.astype(np.float32), np.linalg.inv(T)[:2, :])
    baselines = (baselines + region_bb_lt[np.newaxis] + 1) * downsample

    b_list = [b for b in baselines]

    h_list = []
    for by in baselines_y:
        asc_line = region_map[by, :, 0]
        asc = np.percentile(asc_line[region_map[by, :, 2] > line_detection_threshold], 70)
        des_line = region_map[by, :, 1]
        des = np.percentile(des_line[region_map[by, :, 2] > line_detection_threshold], 70)
        h_list.append([asc * downsample, des * downsample])

    t_list = [helpers.baseline_to_textline(b, h) for b, h in zip(b_list, h_list)]

    return b_list, h_list, t_list


# reference for pero_ocr.layout_engines.line_in_region_detector:find_peaks
def a035_find_peaks(array, min_distance=1, min_height=0.05):
    """
    Detects peaks in 1D array with subpixel precision.

    :param array: 1D numpy array of values
    :param min_distance: Minimum distance of individual peaks
    :param min_height: Minimum height of peaks to avoid noise
    :return: 1D array of integer peak positions, 1D array of float peak positions
    """
    # array = np.concatenate((array, [0]), axis=0)
    peaks, _ = signal.find_peaks(array, distance=min_distance, height=min_height)

    peaks_float = peaks.copy().astype(float)
    for i, x in enumerate(peaks):
        xs = np.clip(np.array(range(x - 2, x + 3)), 0, array.shape[0]-1)
        ys = array[xs]
        p = np.polyfit(xs, ys, 2)
        peaks_float[i] = -p[1] / (2 * p[0])

    return peaks, peaks_float


# reference for pero_ocr.layout_engines.line_postprocessing_engine:PostprocessingEngine.__init__
def a036_PostprocessingEngine___init__(self, stretch_lines, resample_lines, heights_from_regions):
    self.stretch_lines = stretch_lines
    self.resample_lines = resample_lines
    self.heights_from_regions = heights_from_regions


# reference for pero_ocr.layout_engines.naive_sorter:NaiveRegionSorter.__init__
def a037_NaiveRegionSorter___init__(self, config: SectionProxy, config_path=""):
    # minimal distance between clusters = page_width / width_denom
    self.width_denom = config.getint('ImageWidthDenominator', fallback=10)


# reference for pero_ocr.layout_engines.simple_baseline_engine:EngineLineDetectorSimple.__init__
def a038_EngineLineDetectorSimple___init__(self, adaptive_threshold=91, block_size=21,
             minimum_length=6, ignored_border_pixels=10):
    self.adaptive_threshold = adaptive_threshold
    self.block_size = block_size
    self.minimum_length = minimum_length
    self.ignored_border_pixels = ignored_border_pixels


# reference for pero_ocr.layout_engines.simple_baseline_engine:EngineLineDetectorSimple.detect_lines
def a039_EngineLineDetectorSimple_detect_lines(self, img, region):
    """Performs simple line extraction in single text region using thresholding,
    correlation and connected component analysis.
    :param img: input image array
    :param region: target region polygon
    """

    baselines_list = []
    heights_list = []

    x1 = np.clip(np.amin(region[:, 0].astype(np.int32)), 0, img.shape[1])
    x2 = np.clip(np.amax(region[:, 0].astype(np.int32)), 0, img.shape[1])
    y1 = np.clip(np.amin(region[:, 1].astype(np.int32)), 0, img.shape[0])
    y2 = np.clip(np.amax(region[:, 1].astype(np.int32)), 0, img.shape[0])

    if x1 == x2 or y1 == y2:
        return [], [], []

    column_width = x2 - x1
    column_height = y2 - y1

    img_mask = polygon2mask(img.shape[0:2], np.flip(region, axis=1))
    img_mask = img_mask[y1:y2, x1:x2]
    img_mask = binary_erosion(img_mask, structure=np.ones((1, 2 * self.ignored_border_pixels + 1)))

    img_crop = img[y1:y2, x1:x2, :]
    img_crop = img_crop.mean(axis=2).astype(np.uint8)
    img_crop = cv2.adaptiveThreshold(img_crop, 255, cv2.ADAPTIVE_THRESH_MEAN_C, cv2.THRESH_BINARY, self.block_size, self.adaptive_threshold) == 0

    img_crop = img_crop * img_mask

    img_crop_labeled, num_features = ndimage.measurements.label(img_crop)
    proj = np.sum(img_crop, axis=1)
    corr = np.correlate(proj, proj, mode='full')[proj.shape[0]:]
    corr_peaks = signal.find_peaks(corr, prominence=0, distance=1)[0]
    if len(corr_peaks) > 0:
        line_period = float(signal.find_peaks(corr, prominence=0, distance=1)[0][0])
    else:
        line_period = 1
    target_signal = - np.diff(proj)
    target_signal[target_signal < 0] = 0

    baseline_coords = signal.find_peaks(target_signal, distance=int(round(0.85*line_period)))[0]
    region = shapely.geometry.polygon.Polygon(region)
    used_inds = []

    for baseline_coord in baseline_coords[::-1]:
        valid_baseline = True
        matching_objects = np.unique(img_crop_labeled[baseline_coord-10, :])[1:]
        if len(matching_objects) > 0:
            for ind in matching_objects:
                if ind in used_inds:
                    valid_baseline = False
                used_inds.append(ind)

            for yb1 in range(baseline_coord, 0, -3):
                line_inds_to_check = img_crop_labeled[yb1, :]
                if not np.any(np.intersect1d(matching_objects, line_inds_to_check)):
                    break

            for yb2 in range(baseline_coord, column_height, 3):
                line_inds_to_check = img_crop_labeled[yb2, :]
                if not np.any(np.intersect1d(matching_objects, line_inds_to_check)):
                    break

            xb1, xb2 = 0, column_width

            if xb2 - xb1 < self.minimum_length:
                valid_baseline = False

            line = shapely.geometry.LineString([[x1+xb1, y1+baseline_coord],
                                                [x1+xb2, y1+baseline_coord]])
            intersection = region.intersection(line)
            if intersection.geom_type == 'LineString':
                if valid_baseline:
                    baselines_list.append(np.round(np.asarray(list(region.intersection(line).coords[:]))).astype(np.int16))
                    heights_list.append([baseline_coord-yb1, yb2-baseline_coord])

    textlines_list = [helpers.baseline_to_textline(baseline, heights) for baseline, heights in zip(baselines_list, heights_list)]

    return baselines_list, heights_list, textlines_list


# reference for pero_ocr.layout_engines.simple_region_engine:SimpleThresholdRegion.__init__
def a040_SimpleThresholdRegion___init__(self, config, config_path=''):
    pass


# reference for pero_ocr.layout_engines.smart_sorter:SmartRegionSorter.__init__
def a041_SmartRegionSorter___init__(self, config: SectionProxy, config_path=""):
    # if intersection of two regions is less than given parameter w.r.t. both regions, intersection doesn't count
    self.intersect_param = config.getfloat('FakeIntersectionParameter', fallback=0.1)


# reference for pero_ocr.layout_engines.torch_parsenet:TorchOrientationNet.__init__
def a042_TorchOrientationNet___init__(self, model_path, device, max_mp=5):
    super().__init__(model_path, device=device, max_mp=max_mp)


# reference for pero_ocr.layout_engines.torch_parsenet:TorchOrientationNet.get_maps
def a043_TorchOrientationNet_get_maps(self, img, downsample):
    '''
    OrientationNet CNN inference
    '''
    img = cv2.resize(img, (0, 0), fx=1/downsample, fy=1/downsample, interpolation=cv2.INTER_AREA)
    img = img / np.float32(256.)

    new_shape_x = int(np.ceil(img.shape[0] / 64) * 64)
    new_shape_y = int(np.ceil(img.shape[1] / 64) * 64)
    test_img_canvas = np.zeros((1, new_shape_x, new_shape_y, 3), dtype=np.float32)
    test_img_canvas[0, :img.shape[0], :img.shape[1], :] = img

    test_img_canvas = torch.from_numpy(test_img_canvas).to(self.device).float().permute(0, 3, 1, 2)
    out_map = self.net(test_img_canvas)
    out_map = out_map.permute(0, 2, 3, 1).cpu().numpy()

    out_map = out_map[0, :img.shape[0], :img.shape[1], :]

    return out_map


# reference for pero_ocr.ocr_engine.pytorch_ocr_engine:PytorchEngineLineOCR._load_exported_model
def a044_PytorchEngineLineOCR__load_exported_model(self):
    if self.device.type == "cpu":
        self.checkpoint += ".cpu"

    self.model = torch.jit.load(self.checkpoint, map_location=self.device)
    self.model = self.model.to(self.device)


# reference for pero_ocr.ocr_engine.pytorch_ocr_engine:PytorchEngineLineOCR.get_mean_embed_id
def a045_PytorchEngineLineOCR_get_mean_embed_id(self):
    return self.model.embeddings_layer.weight.shape[0] - 1


# reference for pero_ocr.ocr_engine.transformer:ConvolutionalEncoder.__init__
def a046_ConvolutionalEncoder___init__(self, in_height, in_channels, out_channels, conv_subsampling=(8, 8)):
    super().__init__()
    self.base_channels = 64
    self.conv_blocks = 4
    self.conv_subsampling = conv_subsampling
    self.layers_2d = 17
    self.dropout_rate = 0.0
    self.blocks_2d = VGG_conv_module(base_channels=self.base_channels, conv_blocks=self.conv_blocks,
                                     subsampling=self.conv_subsampling,
                                     in_channels=in_channels, layers_2d=self.layers_2d,
                                     dropout_rate=self.dropout_rate)

    aggregation_height = in_height // conv_subsampling[0]
    print('Aggregation height', aggregation_height)

    self.aggregation_conv = torch.nn.Sequential(
        torch.nn.Conv2d(self.blocks_2d.out_channels, out_channels, kernel_size=(aggregation_height, 1), stride=1,
                        padding=0),
        torch.nn.LeakyReLU()
    )
    self.in_channels = in_channels
    self.out_channels = out_channels


# reference for pero_ocr.ocr_engine.transformer:LineSelfAttentionEncoder.__init__
def a047_LineSelfAttentionEncoder___init__(self, dropout, max_seq_len=1000, dim_model=512, dim_ff=2048, nb_heads=8, nb_layers=2):
    super().__init__()
    self.dim_model = dim_model

    encoder_layer = torch.nn.TransformerEncoderLayer(self.dim_model, nb_heads, dim_feedforward=dim_ff,
                                                     dropout=dropout)
    self.trans_encoder = torch.nn.TransformerEncoder(encoder_layer, num_layers=nb_layers)
    self.pos_encoder = PositionalEncoding(self.dim_model, max_len=max_seq_len)

    self.input_norm = torch.nn.LayerNorm(dim_model, eps=1e-05)


# reference for pero_ocr.ocr_engine.transformer:VGG_conv_module.__init__
def a048_VGG_conv_module___init__(self, base_channels=16, conv_blocks=4, subsampling=(8, 4), in_channels=3, layers_2d=None, dropout_rate=0.0):
    super(VGG_conv_module, self).__init__()
    if layers_2d is None:
        layers_2d = 16

    if type(layers_2d) is int:
        import torchvision
        vgg = torchvision.models.vgg16(pretrained=True)
        layers_2d = list(vgg.features[:layers_2d])

    start_level = 0
    self.blocks_2d = []
    current_subsampling_h = 1
    current_subsampling_v = 1

    for layer in layers_2d:
        if type(layer) == torch.nn.modules.pooling.MaxPool2d:
            if subsampling[0] is None or current_subsampling_v < subsampling[0]:
                stride_v = 2
            else:
                stride_v = 1

            if current_subsampling_h < subsampling[1]:
                stride_h = 2
            else:
                stride_h = 1

            stride = (stride_v, stride_h)

            self.blocks_2d += [torch.nn.MaxPool2d(kernel_size=stride, stride=stride)]
            self.blocks_2d += [torch.nn.Dropout(p=dropout_rate, inplace=True)]
            current_subsampling_h *= stride[1]
            current_subsampling_v *= stride[0]
            start_level += 1
        else:
            self.blocks_2d.append(layer)
            if type(layer) == torch.nn.modules.conv.Conv2d:
                in_channels = layer.bias.shape[0]

    print('Pretrained layers')
    print(self.blocks_2d)

    out_channels = in_channels
    for i in range(start_level, conv_blocks):
        out_channels = base_channels*(2**i)
        if subsampling[0] is None or current_subsampling_v < subsampling[0]:
            stride_v = 2
        else:
            stride_v = 1

        if current_subsampling_h < subsampling[1]:
            stride_h = 2
        else:
            stride_h = 1

        stride = (stride_v, stride_h)

        current_subsampling_h *= stride[1]
        current_subsampling_v *= stride[0]

        self.blocks_2d += [
            create_vgg_block_2d(in_channels, out_channels, stride=stride, norm='none'),
            torch.nn.BatchNorm2d(out_channels),
            ]

        self.blocks_2d += [torch.nn.Dropout(p=dropout_rate, inplace=True)]
        in_channels = out_channels

    self.blocks_2d = torch.nn.Sequential(*self.blocks_2d)
    self.out_channels = out_channels


# reference for pero_ocr.utils:compose_path
def a049_compose_path(file_path, reference_path):
    if reference_path and not isabs(file_path):
        file_path = join(reference_path, file_path)
    return file_path


# reference for pero_ocr.utils:jit
def a050_jit(function):
    def wrapper(*args, **kwargs):
        return function(*args, **kwargs)
    return wrapper


# reference for user_scripts.parse_folder:LMDB_writer.__init__
def a051_LMDB_writer___init__(self, path):
    import lmdb
    gb100 = 100000000000
    self.env_out = lmdb.open(path, map_size=gb100)


# reference for user_scripts.parse_folder:get_device
def a052_get_device(device, gpu_index=None, logger=None):
    if gpu_index is None:
        if device == "gpu":
            safe_gpu.claim_gpus(logger=logger)
            torch_device = torch.device("cuda")
        else:
            torch_device = torch.device("cpu")
    else:
        torch_device = torch.device(f"cuda:{gpu_index}")

    return torch_device


# reference for user_scripts.parse_folder:parse_arguments
def a053_parse_arguments():
    parser = argparse.ArgumentParser()
    parser.add_argument('-c', '--config', required=True, help='Path to input config file.')
    parser.add_argument('-s', '--skip-processed', action='store_true', required=False,
                        help='If set, already processed files are skipped.')
    parser.add_argument('-i', '--input-image-path', help='')
    parser.add_argument('-x', '--input-xml-path', help='')
    parser.add_argument('--input-logit-path', help='')
    parser.add_argument('--output-xml-path', help='')
    parser.add_argument('--output-render-path', help='')
    parser.add_argument('--output-line-path', help='')
    parser.add_argument('--output-logit-path', help='')
    parser.add_argument('--output-alto-path', help='')
    parser.add_argument('--output-transcriptions-file-path', help='')
    parser.add_argument('--skipp-missing-xml', action='store_true', help='Skipp images which have missing xml.')

    parser.add_argument('--device', choices=["gpu", "cpu"], default="gpu")
    parser.add_argument('--gpu-id', type=int, default=None, help='If set, the computation runs of the specified GPU, otherwise safe-gpu is used to allocate first unused GPU.')

    parser.add_argument('--process-count', type=int, default=1, help='Number of parallel processes (this works mostly only for line cropping and it probably fails and crashes for most other uses cases).')
    args = parser.parse_args()
    return args


# reference for user_scripts.parse_folder:setup_logging
def a054_setup_logging(config):
    level = config.get('LOGGING_LEVEL', fallback='WARNING')
    level = logging.getLevelName(level)

    logging.basicConfig(format='[%(levelname)s] %(asctime)s - %(name)s - %(message)s', level=level)

    logger = logging.getLogger('pero_ocr')
    logger.setLevel(level)


# reference for pero_ocr.decoding.decoders:CTCPrefixLogRawNumpyDecoder.__call__
def a055_CTCPrefixLogRawNumpyDecoder___call__(self, logits, model_eos=False, max_unnormalization=1e-5, return_h=False, init_h=None):
    ''' inspired by https://medium.com/corti-ai/ctc-networks-and-language-models-prefix-beam-search-explained-c11d1ee23306
    '''
    if logprobs_max_deviation(logits) > max_unnormalization:
        raise ValueError('Expected properly normalized logits')

    prefixes = [EMPTY_PREFIX]

    if self._lm:
        if init_h is None:
            h_prev = self._lm.initial_h(1)
        else:
            h_prev = init_h
        lm_preds = self._lm.log_probs(h_prev)
    else:  # just to have them defined
        h_prev = None
        lm_preds = 0

    Pb = np.asarray([0.0])
    Pnb = np.asarray([self.LOG_ZERO_PROBABILITY])

    if self._lm:
        Plm = np.asarray([0.0])
    else:
        Plm = None

    last_chars = np.zeros(Pb.shape, dtype=np.int32)

    for t, Pc in enumerate(logits):
        P_blank = Pc[-1]

        selected_chars = self.select_relevant_logits(Pc[:-1])[0]
        if selected_chars.shape[0] == 0:
            Pb = self.compute_Pb(Pb, Pnb, P_blank)
            Pnb[...] = self.LOG_ZERO_PROBABILITY
            continue

        reduced_Pc = self.get_reduced_Pc(Pc, selected_chars)
        reduced_last_chars = self.get_reduced_last_chars(last_chars, selected_chars, reduced_Pc.shape[0]-1)

        total_Pnb = self.compute_Pnb(Pnb, Pb, reduced_Pc, reduced_last_chars)
        adjust_for_prefix_joining(total_Pnb, prefixes, reduced_last_chars)

        total_Pb = self.compute_Pb(Pb, Pnb, P_blank)

        visual_P = total_Pnb.copy()
        visual_P[:, -1] = np.logaddexp(total_Pb, visual_P[:, -1])

        randchar = np.asarray([-2, self._blank_ind])
        selected_chars = np.concatenate([selected_chars, randchar])
        if self._lm:
            total_Plm = self.compute_Plm(Plm, lm_preds)[:, selected_chars]
            total_P = visual_P + total_Plm * self._lm_scale
        else:
            total_P = visual_P

        best_inds = top_k(total_P, k=min([self._k, np.sum(np.isfinite(total_P))]), reverse=True)

        Pb = total_Pb[best_inds[0]]
        Pb[best_inds[1] != total_P.shape[1]-1] = self.LOG_ZERO_PROBABILITY
        Pnb = total_Pnb[best_inds]
        if self._lm:
            Plm = total_Plm[best_inds]

        best_inds = best_inds[0], np.asarray([selected_chars[x] for x in best_inds[1]])

        prefixes, last_chars = find_new_prefixes(last_chars, best_inds, prefixes, self._blank_ind)
        h_prev, lm_preds = update_lm_things(self._lm, h_prev, lm_preds, best_inds, self._blank_ind)

    if model_eos:
        eos_scores = self._lm.eos_scores(h_prev)
        Plm += eos_scores

    Pom = np.logaddexp(Pb, Pnb)
    bag_of_hypotheses = build_boh([self.symbol_separator.join(self._letters[i] for i in prefix) for prefix in prefixes], Pom, Plm, lm_weight=self._lm_scale)
    if return_h:
        idx_of_best = np.argmax(Pom + Plm*self._lm_scale)
        return bag_of_hypotheses, h_prev[[idx_of_best]]  # a single-item list is needed to keep shape
    else:
        return bag_of_hypotheses


# reference for pero_ocr.layout_engines.cnn_layout_engine:LineFilterEngine.predict_directions
def a056_LineFilterEngine_predict_directions(self, image):
    self.predictions = self.tiltnet.get_maps(image, self.downsample)


# reference for user_scripts.parse_folder:main
def a057_main():
    # initialize some parameters
    args = parse_arguments()
    config_path = args.config
    skip_already_processed_files = args.skip_processed

    if not os.path.isfile(config_path):
        print(f'ERROR: Config file does not exist: "{config_path}".')
        exit(-1)

    config = configparser.ConfigParser()
    config.read(config_path)

    if 'PARSE_FOLDER' not in config:
        config.add_section('PARSE_FOLDER')

    if args.input_image_path is not None:
        config['PARSE_FOLDER']['INPUT_IMAGE_PATH'] = args.input_image_path
    if args.input_xml_path is not None:
        config['PARSE_FOLDER']['INPUT_XML_PATH'] = args.input_xml_path
    if args.input_logit_path is not None:
        config['PARSE_FOLDER']['INPUT_LOGIT_PATH'] = args.input_logit_path
    if args.output_xml_path is not None:
        config['PARSE_FOLDER']['OUTPUT_XML_PATH'] = args.output_xml_path
    if args.output_render_path is not None:
        config['PARSE_FOLDER']['OUTPUT_RENDER_PATH'] = args.output_render_path
    if args.output_line_path is not None:
        config['PARSE_FOLDER']['OUTPUT_LINE_PATH'] = args.output_line_path
    if args.output_logit_path is not None:
        config['PARSE_FOLDER']['OUTPUT_LOGIT_PATH'] = args.output_logit_path
    if args.output_alto_path is not None:
        config['PARSE_FOLDER']['OUTPUT_ALTO_PATH'] = args.output_alto_path

    setup_logging(config['PARSE_FOLDER'])
    logger = logging.getLogger()

    device = get_device(args.device, args.gpu_id, logger)

    page_parser = PageParser(config, config_path=os.path.dirname(config_path), device=device)

    input_image_path = get_value_or_none(config, 'PARSE_FOLDER', 'INPUT_IMAGE_PATH')
    input_xml_path = get_value_or_none(config, 'PARSE_FOLDER', 'INPUT_XML_PATH')
    input_logit_path = get_value_or_none(config, 'PARSE_FOLDER', 'INPUT_LOGIT_PATH')

    output_render_path = get_value_or_none(config, 'PARSE_FOLDER', 'OUTPUT_RENDER_PATH')
    output_line_path = get_value_or_none(config, 'PARSE_FOLDER', 'OUTPUT_LINE_PATH')
    output_xml_path = get_value_or_none(config, 'PARSE_FOLDER', 'OUTPUT_XML_PATH')
    output_logit_path = get_value_or_none(config, 'PARSE_FOLDER', 'OUTPUT_LOGIT_PATH')
    output_alto_path = get_value_or_none(config, 'PARSE_FOLDER', 'OUTPUT_ALTO_PATH')

    if not page_parser.provides_ctc_logits and not input_logit_path and output_alto_path:
        logging.error(f'Cannot create ALTO with current PageParser (transformer outputs are incompatible)')
        sys.exit(2)

    if not page_parser.provides_ctc_logits and output_logit_path:
        logging.error(f'Cannot store logits with current PageParser (transformer outputs are incompatible)')
        sys.exit(2)

    if output_render_path is not None:
        create_dir_if_not_exists(output_render_path)
    if output_line_path is not None:
        create_dir_if_not_exists(output_line_path)
    if output_xml_path is not None:
        create_dir_if_not_exists(output_xml_path)
    if output_logit_path is not None:
        create_dir_if_not_exists(output_logit_path)
    if output_alto_path is not None:
        create_dir_if_not_exists(output_alto_path)

    if input_logit_path is not None and input_xml_path is None:
        input_logit_path = None
        logger.warning('Logit path specified and Page XML path not specified. Logits will be ignored.')

    if input_image_path is not None:
        logger.info(f'Reading images from {input_image_path}.')
        ignored_extensions = ['', '.xml', '.logits']
        images_to_process = [f for f in os.listdir(input_image_path) if
                             os.path.splitext(f)[1].lower() not in ignored_extensions]
        images_to_process = sorted(images_to_process)
        ids_to_process = [os.path.splitext(os.path.basename(file))[0] for file in images_to_process]
    elif input_xml_path is not None:
        logger.info(f'Reading page xml from {input_xml_path}')
        xml_to_process = [f for f in os.listdir(input_xml_path) if
                          os.path.splitext(f)[1] == '.xml']
        images_to_process = [None] * len(xml_to_process)
        ids_to_process = [os.path.splitext(os.path.basename(file))[0] for file in xml_to_process]
    else:
        raise Exception(
            f'Either INPUT_IMAGE_PATH or INPUT_XML_PATH has to be specified. Both are missing in {config_path}.')

    if skip_already_processed_files:
        # Files already processed are skipped. File is considered as already processed when file with appropriate
        # extension is found in all required output directories. If any of the output paths is set to 'None'
        # (i.e. the output is not required) than this directory is omitted.
        already_processed_files = load_already_processed_files([output_xml_path, output_logit_path, output_render_path, output_alto_path])
        if len(already_processed_files) > 0:
            logger.info(f"Already processed {len(already_processed_files)} file(s).")

            images_to_process = [image for id, image in zip(ids_to_process, images_to_process) if id not in already_processed_files]
            ids_to_process = [id for id in ids_to_process if id not in already_processed_files]

    if input_xml_path and args.skipp_missing_xml:
        filtered_ids_to_process = []
        filtered_images_to_process = []
        for file_id, image_file_name in zip(ids_to_process, images_to_process):
            file_path = os.path.join(input_xml_path, file_id + '.xml')
            if os.path.exists(file_path):
                filtered_ids_to_process.append(file_id)
                filtered_images_to_process.append(image_file_name)
        ids_to_process = filtered_ids_to_process
        images_to_process = filtered_images_to_process

    computator = Computator(page_parser, input_image_path, input_xml_path, input_logit_path, output_render_path,
                            output_logit_path, output_alto_path, output_xml_path, output_line_path)

    t_start = time.time()
    results = []
    if args.process_count > 1:
        with Pool(processes=args.process_count) as pool:
            tasks = []
            for index, (file_id, image_file_name) in enumerate(zip(ids_to_process, images_to_process)):
                tasks.append((image_file_name, file_id, index, len(ids_to_process)))
            results = pool.starmap(computator, tasks)
    else:
        for index, (file_id, image_file_name) in enumerate(zip(ids_to_process, images_to_process)):
            results.append(computator(image_file_name, file_id, index, len(ids_to_process)))

    if args.output_transcriptions_file_path is not None:
        with open(args.output_transcriptions_file_path, 'w') as f:
            for page_lines in results:
                print('\n'.join(page_lines), file=f)

    if page_parser.decoder:
        logger.info(page_parser.decoder.decoding_summary())
    if ids_to_process:
        logger.info(f'AVERAGE PROCESSING TIME {(time.time() - t_start) / len(ids_to_process)}')


# reference for pero_ocr.core.arabic_helper:ArabicHelper.__init__
def a058_ArabicHelper___init__(self):
    self._reshaper = arabic_reshaper.ArabicReshaper()
    self._backward_mapping = self._create_backward_mapping()
    self._arabic_chars_pattern = '^([\u0600-ۿ]|[ݐ-ݿ]|[ﭐ-﯁]|[ﯓ-﴿]|[ﵐ-ﶏ]|                                     [ﶒ-ﷇ]|[ﹰ-ﻼ]|[ﷰ-﷽])+$'
    self.LETTER = 0
    self.FORM = 1
    self.NOT_SUPPORTED = -1
    self.ISOLATED = 0
    self.INITIAL = 1
    self.MEDIAL = 2
    self.FINAL = 3
    self.forward_mapping = {}
    self.forward_mapping['ء'] = ['ﺀ', '', '', '']
    self.forward_mapping['آ'] = ['ﺁ', '', '', 'ﺂ']
    self.forward_mapping['أ'] = ['ﺃ', '', '', 'ﺄ']
    self.forward_mapping['ؤ'] = ['ﺅ', '', '', 'ﺆ']
    self.forward_mapping['إ'] = ['ﺇ', '', '', 'ﺈ']
    self.forward_mapping['ئ'] = ['ﺉ', 'ﺋ', 'ﺌ', 'ﺊ']
    self.forward_mapping['ا'] = ['ﺍ', '', '', 'ﺎ']
    self.forward_mapping['ب'] = ['ﺏ', 'ﺑ', 'ﺒ', 'ﺐ']
    self.forward_mapping['ة'] = ['ﺓ', '', '', 'ﺔ']
    self.forward_mapping['ت'] = ['ﺕ', 'ﺗ', 'ﺘ', 'ﺖ']
    self.forward_mapping['ث'] = ['ﺙ', 'ﺛ', 'ﺜ', 'ﺚ']
    self.forward_mapping['ج'] = ['ﺝ', 'ﺟ', 'ﺠ', 'ﺞ']
    self.forward_mapping['ح'] = ['ﺡ', 'ﺣ', 'ﺤ', 'ﺢ']
    self.forward_mapping['خ'] = ['ﺥ', 'ﺧ', 'ﺨ', 'ﺦ']
    self.forward_mapping['د'] = ['ﺩ', '', '', 'ﺪ']
    self.forward_mapping['ذ'] = ['ﺫ', '', '', 'ﺬ']
    self.forward_mapping['ر'] = ['ﺭ', '', '', 'ﺮ']
    self.forward_mapping['ز'] = ['ﺯ', '', '', 'ﺰ']
    self.forward_mapping['س'] = ['ﺱ', 'ﺳ', 'ﺴ', 'ﺲ']
    self.forward_mapping['ش'] = ['ﺵ', 'ﺷ', 'ﺸ', 'ﺶ']
    self.forward_mapping['ص'] = ['ﺹ', 'ﺻ', 'ﺼ', 'ﺺ']
    self.forward_mapping['ض'] = ['ﺽ', 'ﺿ', 'ﻀ', 'ﺾ']
    self.forward_mapping['ط'] = ['ﻁ', 'ﻃ', 'ﻄ', 'ﻂ']
    self.forward_mapping['ظ'] = ['ﻅ', 'ﻇ', 'ﻈ', 'ﻆ']
    self.forward_mapping['ع'] = ['ﻉ', 'ﻋ', 'ﻌ', 'ﻊ']
    self.forward_mapping['غ'] = ['ﻍ', 'ﻏ', 'ﻐ', 'ﻎ']
    self.forward_mapping['ـ'] = ['ـ', 'ـ', 'ـ', 'ـ']
    self.forward_mapping['ف'] = ['ﻑ', 'ﻓ', 'ﻔ', 'ﻒ']
    self.forward_mapping['ق'] = ['ﻕ', 'ﻗ', 'ﻘ', 'ﻖ']
    self.forward_mapping['ك'] = ['ﻙ', 'ﻛ', 'ﻜ', 'ﻚ']
    self.forward_mapping['ل'] = ['ﻝ', 'ﻟ', 'ﻠ', 'ﻞ']
    self.forward_mapping['م'] = ['ﻡ', 'ﻣ', 'ﻤ', 'ﻢ']
    self.forward_mapping['ن'] = ['ﻥ', 'ﻧ', 'ﻨ', 'ﻦ']
    self.forward_mapping['ه'] = ['ﻩ', 'ﻫ', 'ﻬ', 'ﻪ']
    self.forward_mapping['و'] = ['ﻭ', '', '', 'ﻮ']
    self.forward_mapping['ى'] = ['ﻯ', 'ﯨ', 'ﯩ', 'ﻰ']
    self.forward_mapping['ي'] = ['ﻱ', 'ﻳ', 'ﻴ', 'ﻲ']
    self.forward_mapping['ٱ'] = ['ﭐ', '', '', 'ﭑ']
    self.forward_mapping['ٷ'] = ['ﯝ', '', '', '']
    self.forward_mapping['ٹ'] = ['ﭦ', 'ﭨ', 'ﭩ', 'ﭧ']
    self.forward_mapping['ٺ'] = ['ﭞ', 'ﭠ', 'ﭡ', 'ﭟ']
    self.forward_mapping['ٻ'] = ['ﭒ', 'ﭔ', 'ﭕ', 'ﭓ']
    self.forward_mapping['پ'] = ['ﭖ', 'ﭘ', 'ﭙ', 'ﭗ']
    self.forward_mapping['ٿ'] = ['ﭢ', 'ﭤ', 'ﭥ', 'ﭣ']
    self.forward_mapping['ڀ'] = ['ﭚ', 'ﭜ', 'ﭝ', 'ﭛ']
    self.forward_mapping['ڃ'] = ['ﭶ', 'ﭸ', 'ﭹ', 'ﭷ']
    self.forward_mapping['ڄ'] = ['ﭲ', 'ﭴ', 'ﭵ', 'ﭳ']
    self.forward_mapping['چ'] = ['ﭺ', 'ﭼ', 'ﭽ', 'ﭻ']
    self.forward_mapping['ڇ'] = ['ﭾ', 'ﮀ', 'ﮁ', 'ﭿ']
    self.forward_mapping['ڈ'] = ['ﮈ', '', '', 'ﮉ']
    self.forward_mapping['ڌ'] = ['ﮄ', '', '', 'ﮅ']
    self.forward_mapping['ڍ'] = ['ﮂ', '', '', 'ﮃ']
    self.forward_mapping['ڎ'] = ['ﮆ', '', '', 'ﮇ']
    self.forward_mapping['ڑ'] = ['ﮌ', '', '', 'ﮍ']
    self.forward_mapping['ژ'] = ['ﮊ', '', '', 'ﮋ']
    self.forward_mapping['ڤ'] = ['ﭪ', 'ﭬ', 'ﭭ', 'ﭫ']
    self.forward_mapping['ڦ'] = ['ﭮ', 'ﭰ', 'ﭱ', 'ﭯ']
    self.forward_mapping['ک'] = ['ﮎ', 'ﮐ', 'ﮑ', 'ﮏ']
    self.forward_mapping['ڭ'] = ['ﯓ', 'ﯕ', 'ﯖ', 'ﯔ']
    self.forward_mapping['گ'] = ['ﮒ', 'ﮔ', 'ﮕ', 'ﮓ']
    self.forward_mapping['ڱ'] = ['ﮚ', 'ﮜ', 'ﮝ', 'ﮛ']
    self.forward_mapping['ڳ'] = ['ﮖ', 'ﮘ', 'ﮙ', 'ﮗ']
    self.forward_mapping['ں'] = ['ﮞ', '', '', 'ﮟ']
    self.forward_mapping['ڻ'] = ['ﮠ', 'ﮢ', 'ﮣ', 'ﮡ']
    self.forward_mapping['ھ'] = ['ﮪ', 'ﮬ', 'ﮭ', 'ﮫ']
    self.forward_mapping['ۀ'] = ['ﮤ', '', '', 'ﮥ']
    self.forward_mapping['ہ'] = ['ﮦ', 'ﮨ', 'ﮩ', 'ﮧ']
    self.forward_mapping['ۅ'] = ['ﯠ', '', '', 'ﯡ']
    self.forward_mapping['ۆ'] = ['ﯙ', '', '', 'ﯚ']
    self.forward_mapping['ۇ'] = ['ﯗ', '', '', 'ﯘ']
    self.forward_mapping['ۈ'] = ['ﯛ', '', '', 'ﯜ']
    self.forward_mapping['ۉ'] = ['ﯢ', '', '', 'ﯣ']
    self.forward_mapping['ۋ'] = ['ﯞ', '', '', 'ﯟ']
    self.forward_mapping['ی'] = ['ﯼ', 'ﯾ', 'ﯿ', 'ﯽ']
    self.forward_mapping['ې'] = ['ﯤ', 'ﯦ', 'ﯧ', 'ﯥ']
    self.forward_mapping['ے'] = ['ﮮ', '', '', 'ﮯ']
    self.forward_mapping['ۓ'] = ['ﮰ', '', '', 'ﮱ']
    self.forward_mapping['\u200d'] = ['\u200d', '\u200d', '\u200d', '\u200d']
    self.ligatures = ['لا', 'الله', 'لأ', 'لإ']
    self.arabic_delimiters = ['،', 'ً', 'ّ', '»']
    self.delimiters = [' ', ',', '-', '.', '"', ':']
