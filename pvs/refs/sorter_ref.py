# Reference forms for region sorting (never imported, only parsed).
# reference for pero_ocr.layout_engines.smart_sorter:Region.__init__
def sr_init(self, region: Union[RegionLayout, np.ndarray]):
    if isinstance(region, RegionLayout):
        self.id = region.id
        self.x_arr, self.y_arr = region.polygon.transpose((1, 0))
    elif isinstance(region, np.ndarray):
        assert len(region[0]) == len(region[1]), "Not equal number of coord pairs"
        self.id = "TEST"
        self.x_arr, self.y_arr = region
    else:
        raise Exception("Wrong Region parameter type.")

    self.x_min = self.x_arr.min()
    self.x_max = self.x_arr.max()
    self.y_min = self.y_arr.min()
    self.y_max = self.y_arr.max()


# reference for pero_ocr.layout_engines.smart_sorter:Region.intersect
def sr_intersect(self, regions: Union["Region", "CoupledRegions"], vertical: bool, intersect_param: float = 0.1) -> bool:
    """
    Return True if two regions intersect each other (sides are enough) horizontally or vertically
    """

    if vertical and self.x_min <= regions.x_max and regions.x_min <= self.x_max:
        intersection = np.min(np.abs((self.x_min - regions.x_max, regions.x_min - self.x_max)))

        if intersection / (self.x_max - self.x_min) > intersect_param and intersection / (regions.x_max - regions.x_min) > intersect_param:
            return True

    elif not vertical and self.y_min <= regions.y_max and regions.y_min <= self.y_max:
        intersection = np.min(np.abs((self.y_min - regions.y_max, regions.y_min - self.y_max)))

        if intersection / (self.y_max - self.y_min) > intersect_param and intersection / (regions.y_max - regions.y_min) > intersect_param:
            return True

    return False


# reference for pero_ocr.layout_engines.smart_sorter:Region.get_corners
def sr_corners(self):
    return self.x_min, self.y_min, self.x_max, self.y_max


# reference for pero_ocr.layout_engines.smart_sorter:CoupledRegions.__init__
def cr_init(self, regions=List[Union["CoupledRegions", Region]], parent: Optional["CoupledRegions"] = None, intersect_param=0.1):
    if isinstance(regions, PageLayout):
        self.region_list = []

        for region in regions.regions:
            self.region_list.append(Region(region))

    elif isinstance(regions, list):
        assert len(regions) > 0, "Given empty region list!"
        self.region_list: List[Union[CoupledRegions, Region]] = regions

    self.intersect_param = intersect_param
    self.parent: CoupledRegions = parent
    self.x_min, self.x_max, self.y_min, self.y_max = 1e5, 0, 1e5, 0

    # get min and max of all polygons
    for reg in self.region_list:
        l, t, r, b = reg.get_corners()
        self.update_corners(l, t, r, b)


# reference for pero_ocr.layout_engines.smart_sorter:CoupledRegions.__eq__
def cr_eq(self, other: Union["CoupledRegions", Region]):
    # might be compared with Region object, but single Region object is never in CoupledRegions object
    if not isinstance(other, CoupledRegions):
        return False

    if len(self.region_list) != len(other.region_list):
        return False

    # TODO: think about better method of comparing CoupledRegions for equality
    for region in self.region_list:
        if region not in other.region_list:
            return False

    return True


# reference for pero_ocr.layout_engines.smart_sorter:CoupledRegions.update_corners
def update_corners(self, l, t, r, b):
    if l < self.x_min:
        self.x_min = l
    if t < self.y_min:
        self.y_min = t
    if r > self.x_max:
        self.x_max = r
    if b > self.y_max:
        self.y_max = b


# reference for pero_ocr.layout_engines.smart_sorter:CoupledRegions.get_corners
def cr_corners(self):
    return self.x_min, self.y_min, self.x_max, self.y_max


# reference for pero_ocr.layout_engines.smart_sorter:CoupledRegions.add_regions
def add_regions(self, regions: Union["CoupledRegions", Region]):
    if isinstance(regions, Region):
        self.region_list.append(regions)

        l, t, r, b = regions.get_corners()
        self.update_corners(l, t, r, b)

    elif isinstance(regions, CoupledRegions):
        self.region_list.extend(regions.region_list)

        l, t, r, b = regions.get_corners()
        self.update_corners(l, t, r, b)


# reference for pero_ocr.layout_engines.smart_sorter:CoupledRegions.intersect
def cr_intersect(self, regions: Union[Region, "CoupledRegions"], vertical: bool, intersect_param: float = 0.1):
    """
    Return True if two polygons intersect each other (sides are enough) horizontally or vertically
    :param regions: list of Region or CoupledRegions
    :param vertical: True if we are coupling regions vertically (below or above each other)
    """

    if vertical and self.x_min <= regions.x_max and regions.x_min <= self.x_max:
        intersection = np.min(np.abs((self.x_min - regions.x_max, regions.x_min - self.x_max)))

        if intersection / (self.x_max - self.x_min) > intersect_param and intersection / (
                regions.x_max - regions.x_min) > intersect_param:
            return True

    elif not vertical and self.y_min <= regions.y_max and regions.y_min <= self.y_max:
        intersection = np.min(np.abs((self.y_min - regions.y_max, regions.y_min - self.y_max)))

        if intersection / (self.y_max - self.y_min) > intersect_param and intersection / (
                regions.y_max - regions.y_min) > intersect_param:
            return True

    return False


# reference for pero_ocr.layout_engines.smart_sorter:CoupledRegions.divide_and_order
def divide_and_order(self, vertical: bool = False):
    if len(self.region_list) == 1:
        return

    aligned = []
    non_aligned = deepcopy(self.region_list)

    # try to divide objects
    while len(non_aligned):
        coupled = non_aligned.pop(0) \
            if isinstance(non_aligned[0], CoupledRegions) \
            else CoupledRegions([non_aligned.pop(0)], self, self.intersect_param)

        changed = True

        while changed:
            changed = False

            # add intersection regions to coupled
            for idx, region in enumerate(non_aligned):
                if coupled.intersect(region, vertical):
                    non_aligned.pop(idx)
                    coupled.add_regions(region)

                    changed = True
                    break

        # store CoupledRegions object
        aligned.append(coupled)

    self.region_list = aligned

    # if parent already tried to decouple the same region and we both failed -> plan B
    if len(aligned) == 1 and self.parent is not None and self in self.parent.region_list:
        self.decouple()

    for idx, coupled in enumerate(self.region_list):
        if len(coupled.region_list) > 1:
            self.region_list[idx].divide_and_order(not vertical)
        # else:
        #     self.region_list[idx] = coupled.region_list[0]

    if vertical:
        self.region_list = sorted(self.region_list, key=lambda reg: reg.x_min)
    else:
        self.region_list = sorted(self.region_list, key=lambda reg: reg.y_min)


# reference for pero_ocr.layout_engines.smart_sorter:CoupledRegions.decouple
def decouple(self):
    """
    Decouple intersecting regions in self.region_list and store them there
    Fallback method when regions are intersecting horizontally and vertically
    Possibly could create hierarchy of CoupledRegions with Region objects as leaves
    """
    # TODO: sorting by minimum or maximum? => both and select the one with biggest difference
    regions = self.region_list[0].region_list

    x_sort = sorted(regions, key=lambda x: x.x_min)
    x_diffs = 0

    for l, r in pairwise(x_sort):
        x_diffs += np.abs(l.x_min - r.x_min)

    y_sort = sorted(regions, key=lambda x: x.y_min)
    y_diffs = 0

    for u, d in pairwise(y_sort):
        y_diffs += np.abs(u.y_min - d.y_min)

    # sort coupled components by axis with larger differences between min points
    # key = lambda x: x.x_min if x_diffs > y_diffs else lambda x: x.y_min
    if x_diffs > y_diffs:
        key = lambda r: r.x_min
    else:
        key = lambda r: r.y_min

    aligned = sorted(regions, key=key)

    # sort by x axis and compute local diffs, sort by y axis and compute local diffs
    # sort by axis with larger sum of local diffs
    self.region_list = [CoupledRegions([region], self, self.intersect_param) for region in aligned]


# reference for pero_ocr.layout_engines.smart_sorter:CoupledRegions.get_ordered_ids
def get_ordered_ids(self) -> List:
    """
    :return: list of IDs of regions in order
    """
    ids = []

    for regions in self.region_list:
        if isinstance(regions, Region):
            ids.append(regions.id)

        elif isinstance(regions, CoupledRegions):
            ids.extend(regions.get_ordered_ids())

    return ids


# reference for pero_ocr.layout_engines.smart_sorter:SmartRegionSorter.process_page
def smart_process_page(self, image, page_layout: PageLayout):
    regions = []

    if len(page_layout.regions) < 2:
        return page_layout

    rotation = SmartRegionSorter.get_rotation(max(*page_layout.regions, key=lambda reg: len(reg.lines)).lines)
    page_layout = SmartRegionSorter.rotate_page_layout(page_layout, -rotation)

    for region in page_layout.regions:
        regions.append(Region(region))

    regions = CoupledRegions(regions, intersect_param=self.intersect_param)
    regions.divide_and_order()

    # get ordered region IDs
    ordered_ids = regions.get_ordered_ids()

    # substitute every region with
    region_idxs = [next((idx for idx, region in enumerate(page_layout.regions) if region.id == region_id)) for region_id in ordered_ids]

    page_layout.regions = [page_layout.regions[idx] for idx in region_idxs]
    page_layout = SmartRegionSorter.rotate_page_layout(page_layout, rotation)

    return page_layout


# reference for pero_ocr.layout_engines.smart_sorter:SmartRegionSorter.rotate_page_layout
def rotate_page_layout(page: PageLayout, angle, origin=(0, 0)):
    if angle == 0:
        return page

    rot_matrix = cv2.getRotationMatrix2D(origin, angle, 1)

    for reg_idx, region in enumerate(page.regions):
        region.polygon = SmartRegionSorter.rotate_polygon(region.polygon, angle)
        # region.polygon = SmartRegionSorter.rotate_coords(region.polygon, rot_matrix)

        for line_idx, line in enumerate(region.lines):
            line.polygon = SmartRegionSorter.rotate_polygon(line.polygon, angle)
            # line.polygon = SmartRegionSorter.rotate_coords(line.polygon, rot_matrix)
            line.baseline = SmartRegionSorter.rotate_line(line.baseline, angle)
            # line.baseline = SmartRegionSorter.rotate_coords(line.baseline, rot_matrix)

    return page


# reference for pero_ocr.layout_engines.smart_sorter:SmartRegionSorter.rotate_polygon
def rotate_polygon(polygon, angle):
    line_poly = geometry.Polygon(polygon)
    line_poly = affinity.rotate(line_poly, angle, origin=(0, 0))
    return np.stack(line_poly.exterior.coords.xy, axis=1)


# reference for pero_ocr.layout_engines.smart_sorter:SmartRegionSorter.rotate_line
def rotate_line(baseline, angle):
    baseline_obj = geometry.LineString(baseline)
    baseline_obj = affinity.rotate(baseline_obj, angle, origin=(0, 0))
    return np.array(baseline_obj.coords)


# reference for pero_ocr.layout_engines.smart_sorter:SmartRegionSorter.get_rotation
def smart_get_rotation(lines):
    # TODO large duplication from layout_helpers.get_rotation()
    """Get mean baseline tilt as angle.
    :param baselines: list of baselines
    """
    lines_info = []

    if len(lines) == 0:
        return 0

    for line in lines:
        first_line_point = line.baseline[0].astype(np.float64)
        last_line_point = line.baseline[-1].astype(np.float64)

        if last_line_point[1] != first_line_point[1]:
            # rotation = math.degrees(
            #     math.atan((last_line_point[1] - first_line_point[1]) / (last_line_point[0] - first_line_point[0])))
            length = math.sqrt(
                math.pow(last_line_point[0] - first_line_point[0], 2)
                + math.pow(last_line_point[1] - first_line_point[1], 2))
            rotation = math.degrees(math.sin((last_line_point[1] - first_line_point[1]) / length))
            lines_info.append((length, rotation))
        else:
            lines_info.append((0, 0))

    lines_info = sorted(lines_info, key = lambda x: x[0], reverse = True)
    lines_info = lines_info[0: int(len(lines_info) / 2)]
    rotation_sum = sum(item[1] for item in lines_info)
    rotation = 0

    if len(lines_info) > 0:
        rotation = rotation_sum/len(lines_info)

    return rotation


# reference for pero_ocr.layout_engines.smart_sorter:pairwise
def pairwise(iterable):
    "s -> (s0,s1), (s1,s2), (s2, s3), ..."
    a, b = tee(iterable)
    next(b, None)
    return zip(a, b)


# reference for pero_ocr.layout_engines.naive_sorter:NaiveRegionSorter.process_page
def naive_process_page(self, image, page_layout: PageLayout):
    regions = []

    for region in page_layout.regions:
        regions.append(Region(region))

    eps = image.shape[1] // self.width_denom
    order = NaiveRegionSorter.sort_regions(regions, eps)

    page_layout.regions = [page_layout.regions[idx] for idx in order]

    return page_layout


# reference for pero_ocr.layout_engines.naive_sorter:NaiveRegionSorter.sort_regions
def sort_regions(regions: List[Region], eps: float):
    """

    :param regions: list of Region objects
    :param eps: maximal distance between points in cluster
    :return: sorted indices to regions array
    """
    if len(regions) == 0:
        return []

    x_points = np.array([region.y_min for region in regions])
    y_points = [region.y_min for region in regions]

    labels = DBSCAN(eps=eps, min_samples=1).fit_predict(x_points.reshape((-1, 1)))

    # indices are pointing to one point from each cluster
    clusters, cluster_idxs = np.unique(labels, return_index=True)
    sorted_cluster_idxs = sorted(clusters, key=lambda x: x_points[cluster_idxs[x]])

    order = []

    for cluster_id in sorted_cluster_idxs:
        point_idxs = np.argwhere(labels == cluster_id).reshape(-1)
        sorted_idxs = sorted(point_idxs, key=lambda x: y_points[x])

        order.extend(sorted_idxs)

    return order


# reference for pero_ocr.layout_engines.naive_sorter:Region.__init__
def nr_init(self, region_layout: RegionLayout):
    self.region_layout = region_layout
    self.x_arr, self.y_arr = region_layout.polygon.transpose((1, 0))


# reference for pero_ocr.layout_engines.naive_sorter:Region.y_min
def nr_y_min(self):
    return self.y_arr.min()


# reference for pero_ocr.layout_engines.naive_sorter:Region.x_min
def nr_x_min(self):
    return self.x_arr.min()

