# Reference forms for cached transformer decoding (never imported, only parsed).
# reference for pero_ocr.ocr_engine.transformer:CustomMultiheadAttention.infer
def mha_infer(self, query: Tensor, seq_len:int, key: Tensor, value: Tensor, need_weights: bool = True,
          return_attention=False)\
        -> Tuple[Tensor, Optional[Tensor]]:
    return self.cached_forward(
        query, seq_len, key, value, self.embed_dim, self.num_heads,
        self.in_proj_weight, self.in_proj_bias, self.out_proj.weight,
        self.out_proj.bias, need_weights=need_weights, return_attention=return_attention)


# reference for pero_ocr.ocr_engine.transformer:CustomMultiheadAttention.cached_forward
def cached_forward(self,
                   query,  # type: Tensor
                   seq_len,
                   key,  # type: Tensor
                   value,  # type: Tensor
                   embed_dim_to_check,  # type: int
                   num_heads,  # type: int
                   in_proj_weight,  # type: Tensor
                   in_proj_bias,  # type: Tensor
                   out_proj_weight,  # type: Tensor
                   out_proj_bias,  # type: Tensor
                   need_weights=True,  # type: bool
                   return_attention=False,  # type: bool
                   ):
    # type: (...) -> Tuple[Tensor, Optional[Tensor]]
    r"""
    Method which is used for inference and utilizes cache.

    Args:
        query, key, value: map a query and a set of key-value pairs to an output.
            See "Attention Is All You Need" for more details.
        embed_dim_to_check: total dimension of the model.
        num_heads: parallel attention heads.
        in_proj_weight, in_proj_bias: input projection weight and bias.
        bias_k, bias_v: bias of the key and value sequences to be added at dim=0.
        need_weights: output attn_output_weights.

    Shape:
        Inputs:
        - query: :math:`(L, N, E)` where L is the target sequence length, N is the batch size, E is
          the embedding dimension.
        - key: :math:`(S, N, E)`, where S is the source sequence length, N is the batch size, E is
          the embedding dimension.
        - value: :math:`(S, N, E)` where S is the source sequence length, N is the batch size, E is
          the embedding dimension.

        Outputs:
        - attn_output: :math:`(L, N, E)` where L is the target sequence length, N is the batch size,
          E is the embedding dimension.
        - attn_output_weights: :math:`(N, L, S)` where N is the batch size,
          L is the target sequence length, S is the source sequence length.
    """

    _, batch_size, embed_dim = query.size()
    assert embed_dim == embed_dim_to_check
    # allow MHA to have different sizes for the feature dimension
    assert key.size(0) == value.size(0) and key.size(1) == value.size(1)

    head_dim = embed_dim // num_heads
    assert head_dim * num_heads == embed_dim, "embed_dim must be divisible by num_heads"
    scaling = float(head_dim) ** -0.5

    _, batch_size, embedding_len = query.shape
    query = query[-1:]

    assert seq_len < self.max_seq_len, f"MHA: Sequence longer than {self.max_seq_len} logits"

    if self.linear_cache is None or seq_len == 1:
        # shape: [seq, batch, embedding_len * 3]
        self.linear_cache = torch.empty((self.max_seq_len, batch_size, embedding_len * 3), device=query.device)

        if not self.is_self_attention:
            # This is inline in_proj function with in_proj_weight and in_proj_bias
            _b = in_proj_bias
            _start = embed_dim
            _end = None
            _w = in_proj_weight[_start:, :]
            if _b is not None:
                _b = _b[_start:]

            self.linear_cache[:key.shape[0], :, embedding_len:] = F.linear(key, _w, _b)

    if self.is_self_attention:
        self.linear_cache[seq_len - 1] = F.linear(query, in_proj_weight, in_proj_bias)
        q = self.linear_cache[seq_len - 1:seq_len, :, :embedding_len]
        k, v = self.linear_cache[:seq_len, :, embedding_len:].chunk(2, axis=-1)

    else:
        # encoder-decoder attention
        # This is inline in_proj function with in_proj_weight and in_proj_bias
        _b = in_proj_bias
        _start = 0
        _end = embed_dim
        _w = in_proj_weight[_start:_end, :]
        if _b is not None:
            _b = _b[_start:_end]

        q = F.linear(query, _w, _b)
        self.linear_cache[seq_len - 1:seq_len, :, :embedding_len] = q

        k, v = self.linear_cache[:key.shape[0], :, embedding_len:].chunk(2, dim=-1)

    q = q * scaling

    q = q.contiguous().view(-1, batch_size * num_heads, head_dim).transpose(0, 1)
    k = k.contiguous().view(-1, batch_size * num_heads, head_dim).transpose(0, 1)
    v = v.contiguous().view(-1, batch_size * num_heads, head_dim).transpose(0, 1)

    src_len = k.size(1)

    attn_output_weights = torch.bmm(q, k.transpose(1, 2))
    assert list(attn_output_weights.size()) == [batch_size * num_heads, 1, src_len]

    attn_output_weights = F.softmax(
        attn_output_weights, dim=-1)

    attn_output = torch.bmm(attn_output_weights, v)

    assert list(attn_output.size()) == [batch_size * num_heads, 1, head_dim]
    attn_output = attn_output.transpose(0, 1).contiguous().view(-1, batch_size, embed_dim)
    attn_output = F.linear(attn_output, out_proj_weight, out_proj_bias)

    if return_attention:
        return attn_output, attn_output_weights.clone().detach()

    if need_weights:
        # average attention weights over heads
        attn_output_weights = attn_output_weights.view(batch_size, num_heads, -1, src_len)
        return attn_output, attn_output_weights.sum(dim=1) / num_heads
    else:
        return attn_output, None


# reference for pero_ocr.ocr_engine.transformer:CustomMultiheadAttention.__init__
def mha_init(self, embedding_len, num_heads, dropout=0., bias=True, add_bias_kv=False, add_zero_attn=False, kdim=None,
             vdim=None, is_self_attention=False, max_seq_len=500):
    super(CustomMultiheadAttention, self).__init__(embedding_len, num_heads, dropout, bias, add_bias_kv, add_zero_attn, kdim,
                                                   vdim)
    self.max_seq_len = max_seq_len
    self.is_self_attention = is_self_attention
    self.linear_cache = None


# reference for pero_ocr.ocr_engine.transformer:DecoderLayer.infer
def layer_infer(self, tgt: Tensor, memory: Tensor, is_cached: bool = False, return_attention: bool = False) -> \
        Union[Tensor, Tuple[Tensor, Tensor]]:
    seq_len = tgt.shape[0]

    if seq_len >= self.max_seq_len:
        raise SequenceTooLongException()

    if is_cached:
        tgt_single = tgt[-1:]
    else:
        tgt_single = tgt

    if is_cached:
        tgt_single = tgt_single + self.self_attn.infer(tgt_single, seq_len, tgt, tgt, need_weights=False)[0]
    else:
        tgt_single = tgt_single + self.self_attn(tgt_single, tgt, tgt, need_weights=False)[0]
    tgt_single = self.norm1(tgt_single)

    if is_cached:
        if return_attention:
            tmp, attention = self.multihead_attn.infer(tgt_single, seq_len, memory, memory,
                                                       return_attention=return_attention, need_weights=False)
            tgt_single += tmp
        else:
            tgt_single += self.multihead_attn.infer(tgt_single, seq_len, memory, memory, need_weights=False)[0]
    else:
        tgt_single += self.multihead_attn(tgt_single, memory, memory, need_weights=False)[0]
    tgt_single = self.norm2(tgt_single)

    tgt_single += self.linear2(self.activation(self.linear1(tgt_single)))
    tgt_single = self.norm3(tgt_single)

    # different batch sizes -> reset memory_tgt
    if self.memory_tgt is not None and self.memory_tgt.shape[1] != tgt.shape[1]:
        self.memory_tgt = None

    # sequence with 1 element => rewrite memory (seq, batch, embedding)
    if self.memory_tgt is None:
        batch, emb = tgt.shape[1:]
        self.memory_tgt = torch.empty((self.max_seq_len, batch, emb), device=tgt.device)

    self.memory_tgt[seq_len - 1, :, :] = tgt_single[-1]

    if return_attention:
        return self.memory_tgt[:seq_len, :, :], attention

    return self.memory_tgt[:seq_len, :, :]


# reference for pero_ocr.ocr_engine.transformer:DecoderLayer.__init__
def layer_init(self, dim_model, nb_heads, dim_ff=2048, dropout=0.0, activation='relu', max_seq_len=500, norm=None):
    super(DecoderLayer, self).__init__(dim_model, nb_heads, dim_ff, dropout, activation)

    self.self_attn = CustomMultiheadAttention(
        dim_model,
        nb_heads,
        dropout=dropout,
        is_self_attention=True,
        max_seq_len=max_seq_len,
    )
    self.multihead_attn = CustomMultiheadAttention(
        dim_model,
        nb_heads,
        dropout=dropout,
        max_seq_len=max_seq_len,
    )

    self.memory_tgt: Optional[Tensor] = None
    self.max_seq_len = max_seq_len


# reference for pero_ocr.ocr_engine.transformer:Decoder.infer
def dec_infer(self, tgt: Tensor, memory: Tensor, is_cached: bool = False, return_attention=False) -> \
        Union[Tensor, Tuple[Tensor, Tensor]]:
    attention = None

    for layer_idx, layer in enumerate(self.layers):
        if return_attention and layer_idx == len(self.layers) - 1:
            tgt, attention = layer.infer(tgt, memory, is_cached, return_attention=True)
        else:
            tgt = layer.infer(tgt, memory, is_cached)

    if self.norm is not None:
        tgt[-1, :, :] = self.norm(tgt[-1, :, :])

    if return_attention:
        return tgt[-1, :, :], attention

    return tgt[-1, :, :]


# reference for pero_ocr.ocr_engine.transformer:Decoder.__init__
def dec_init(self, nb_layers, dim_model, nb_heads, expansion_dim, dropout, norm=None,
             max_seq_len=500):
    super().__init__(None, 0)
    layer_constructor = lambda: DecoderLayer(dim_model, nb_heads, expansion_dim, dropout, max_seq_len=max_seq_len)
    self.layers = ModuleList([layer_constructor() for _ in range(nb_layers)])
    self.norm = norm


# reference for pero_ocr.ocr_engine.transformer:TransformerOCR.forward
def ocr_forward(self, X, labels):
    ''' Both X and labels are expected as batch-first !
    '''

    encoder_output = self.encode(X)

    dec_mask = self.get_mask(labels.shape[1])
    label_embs = self.dec_embeder(labels.permute(1, 0))
    transformed = self.trans_decoder(self.pos_encoder(label_embs), encoder_output, tgt_mask=dec_mask)

    return self.dec_out_proj(transformed)


# reference for pero_ocr.ocr_engine.transformer:TransformerOCR.get_mask
def get_mask(self, length):
    return self.mask[:length, :length]


# reference for pero_ocr.ocr_engine.transformer:TransformerOCR.encode
def encode(self, X):
    enc = self.encoder_frontend(X)

    if len(enc.shape) == 2:
        enc = enc.unsqueeze(0)

    enc = self.encoder(enc)
    return enc


# reference for pero_ocr.ocr_engine.transformer:PositionalEncoding.forward
def pe_forward(self, x):
    return x + self.pe[:x.size(0), :]


# reference for pero_ocr.ocr_engine.transformer_ocr_engine:TransformerEngineLineOCR.transcribe_batch
def transcribe_batch(self, inputs, is_cached=False):
    lines = torch.from_numpy(inputs).to(self.device).float()
    lines /= 255.0

    encoded_lines = self.net.encode(lines)
    partial_transcripts = torch.tensor([self.sentence_boundary_ind] * len(inputs), dtype=torch.long,
                                       device=self.device).unsqueeze(0)
    alive_mask = torch.full((len(inputs),), 1, dtype=torch.long, device=self.device)

    _, batch, dim_model = encoded_lines.shape  # this is weird
    label_embs: torch.Tensor = torch.empty((0, batch, dim_model)).to(self.device)

    logits = []

    while True:
        label_embs = torch.cat((label_embs, self.net.dec_embeder(partial_transcripts[-1, :]).unsqueeze(0)))
        transformed = self.net.trans_decoder.infer(self.net.pos_encoder(label_embs), encoded_lines,
                                                   is_cached=is_cached)
        last_logits = self.net.dec_out_proj(transformed)
        logits.append(last_logits)

        samples = torch.argmax(last_logits, dim=-1)

        surviving_lines = (samples != self.sentence_boundary_ind)
        alive_mask *= surviving_lines

        if sum(alive_mask) == 0:
            break

        if len(partial_transcripts) > inputs.shape[-1] // 4:  # four pixels per letter is already ridiculous
            print(f'The transcription is getting way too long ({len(partial_transcripts)}) for the line '
                  f'({inputs.shape}), aborting it at shape {partial_transcripts.shape}')
            break

        partial_transcripts = torch.cat([partial_transcripts, samples.unsqueeze(0)], dim=0)

    outs = self.postprocess_decoded(partial_transcripts[1:].permute(1, 0), self.ignore_ind, self.sentence_boundary_ind)

    logits = torch.stack(logits).permute(1, 0, 2)

    return outs, logits


# reference for pero_ocr.ocr_engine.transformer_ocr_engine:TransformerEngineLineOCR.postprocess_decoded
def postprocess_decoded(self, transcripts, ignore_ind, sentence_boundary_ind):
    outputs = []
    for line in transcripts:
        legit_transcription = []
        for s in line:
            if s == sentence_boundary_ind:
                break
            elif s == ignore_ind:
                continue
            else:
                legit_transcription.append(s)
        outputs.append(torch.tensor(legit_transcription, device=transcripts.device))

    return outputs


# reference for pero_ocr.ocr_engine.transformer_ocr_engine:TransformerEngineLineOCR.run_ocr
def te_run_ocr(self, batch_data):
    with torch.no_grad():
        batch_data = np.transpose(batch_data, (0, 3, 1, 2))

        if batch_data.shape[3] < 1088:
            new_batch_data = np.zeros((batch_data.shape[0], batch_data.shape[1], batch_data.shape[2], 1088), dtype=batch_data.dtype)
            s = (1088 - batch_data.shape[3]) // 2
            new_batch_data[:, :, :, s:s+batch_data.shape[3]] = batch_data
            batch_data = new_batch_data

        labels, logits = self.transcribe_batch(batch_data, is_cached=True)

        logits = logits.cpu().numpy()
        decoded = self.decode(labels)

    return decoded, logits


# reference for pero_ocr.ocr_engine.transformer_ocr_engine:TransformerEngineLineOCR.decode
def te_decode(self, labels):
    outputs = []
    for line_labels in labels:
        outputs.append(''.join([self.characters[c] for c in line_labels]))
    return outputs

