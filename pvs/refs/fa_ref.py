# Reference forms for CTC forced alignment (never imported, only parsed).
# reference for pero_ocr.core.force_alignment:force_align
def force_align(neg_logprobs: np.ndarray, symbols_seq: typing.List[int], blank_symbol: int, return_seq_positions=False) -> typing.List[int]:
    """Function which force aligns a sequence of symbols to output of a CTC model.

    Args:
        neg_logprobs: numpy array of negative log-probabilities of symbols, organized as (time, symbol).
        symbols_seq: a list of symbols to be aligned with the log-probabilities
        blank_symbol: the CTC blank symbol

    Returns:
        A list of symbols corresponding to the most probable path, including CTC blanks.

    Raises:
        ValueError: On various occassions :-)
    """
    complete_seq, char_sequence = complete_state_seq(symbols_seq, blank_symbol)
    A = hmm_trans_from_string(symbols_seq)
    expanded_logits = expand_logits(neg_logprobs, complete_seq)

    original_align = viterbi_align(expanded_logits, A)

    if return_seq_positions:
        return [char_sequence[s] for s in original_align]
    else:
        return [complete_seq[s] for s in original_align]


# reference for pero_ocr.core.force_alignment:hmm_trans_from_string
def hmm_trans_from_string(elements: typing.List[int]) -> np.ndarray:
    nb_elements = len(elements)
    if nb_elements < 1:
        raise ValueError("Cannot construct a CTC 'HMM' from an empty string")

    nb_states = nb_elements * 2 + 1
    last_nonblank_state = nb_states - 2
    desired = np.full((nb_states, nb_states), np.inf)

    for i in range(nb_states):
        desired[i, i] = 0.0  # we can stay in any state

        if i+1 == nb_states:  # there will be no jumps from the last state
            continue

        desired[i, i+1] = 0.0
        if i % 2 == 1 and i < last_nonblank_state:
            ind_elem = i // 2
            if elements[ind_elem] != elements[ind_elem+1]:
                desired[i, i+2] = 0.0

    return desired


# reference for pero_ocr.core.force_alignment:complete_state_seq
def complete_state_seq(non_blanks: typing.List[int], blank_symbol: int) -> typing.List[int]:
    if blank_symbol in non_blanks:
        raise ValueError(
            "The blank symbol {} is present in the non blank seq {}"
            .format(blank_symbol, non_blanks)
        )

    all_states = np.full(1 + len(non_blanks) * 2, blank_symbol, dtype=int)
    all_states[1::2] = non_blanks
    char_sequence = np.full(1 + len(non_blanks) * 2, -1, dtype=int)
    char_sequence[1::2] = np.arange(len(non_blanks))

    return all_states, char_sequence


# reference for pero_ocr.core.force_alignment:initial_cost
def initial_cost(nb_states: int) -> np.ndarray:
    if nb_states < 2:
        raise ValueError(
            "Cannot create initial cost for less than 2 states, got {}".format(nb_states)
        )

    cost = np.full((nb_states, ), np.inf)
    cost[0] = 0.0
    cost[1] = 0.0
    return cost


# reference for pero_ocr.core.force_alignment:final_cost
def final_cost(nb_states: int) -> np.ndarray:
    if nb_states < 2:
        raise ValueError(
            "Cannot create final cost for less than 2 states, got {}".format(nb_states)
        )

    cost = np.full((nb_states, ), np.inf)
    cost[-1] = 0.0
    cost[-2] = 0.0
    return cost


# reference for pero_ocr.core.force_alignment:backtrack
def backtrack(backpointers: np.ndarray, final_state: int) -> typing.List[int]:
    states_from_end = [final_state]

    act_state = final_state
    for i in reversed(range(1, len(backpointers))):
        act_state = backpointers[i, act_state]
        states_from_end.append(act_state)

    return list(reversed(states_from_end))


# reference for pero_ocr.core.force_alignment:expand_logits
def expand_logits(array: np.ndarray, seq: typing.List[int]) -> np.ndarray:
    return array[:, seq]


# reference for pero_ocr.core.force_alignment:compute_update
def compute_update(positions, column_frame, act_cost):
    backpointers = np.zeros(act_cost.shape, np.int32)
    new_cost = np.zeros_like(act_cost)
    new_cost[...] = np.inf

    for j, i in zip(*positions):
        updated_cost = act_cost[j] + column_frame[i]
        if updated_cost < new_cost[i]:
            new_cost[i] = updated_cost
            backpointers[i] = j
    return new_cost, backpointers


# reference for pero_ocr.core.force_alignment:viterbi_align
def viterbi_align(neg_logits: np.ndarray, A: np.ndarray) -> typing.List[int]:
    nb_states = A.shape[0]
    backpointers = np.full((neg_logits.shape[0], nb_states), -1, dtype=int)
    first_frame_cost = initial_cost(nb_states) + neg_logits[0]

    A_positions = np.where(A != np.inf)

    act_cost = first_frame_cost
    for i, frame in enumerate(neg_logits[1:], 1):
        act_cost, backpointers[i] = compute_update(A_positions, frame, act_cost)

    final_frame_cost = act_cost + final_cost(nb_states)

    if np.amin(final_frame_cost) == np.inf:
        raise ValueError("It was not possible to align the states with the logits, best path has cost of np.inf")

    return backtrack(backpointers, np.argmin(final_frame_cost))


# reference for pero_ocr.core.force_alignment:align_text
def align_text(neg_logprobs, transcription, blank_symbol):
    logit_characters = force_align(neg_logprobs, transcription, blank_symbol, return_seq_positions=True)

    max_probs = (-neg_logprobs).max(axis=-1)

    text_length = transcription.shape[0]

    logit_characters = np.asarray(logit_characters)
    char_positions = np.zeros(text_length, dtype=np.int32)

    for i in range(text_length):
        seq_positions = np.nonzero(logit_characters == i)[0]
        best_pos = np.argmax(max_probs[seq_positions])
        char_positions[i] = seq_positions[best_pos]

    return char_positions

