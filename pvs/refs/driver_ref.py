# Reference forms for the per-page driver of parse_folder (never imported, only parsed).
# reference for user_scripts.parse_folder:Computator.__init__
def comp_init(self, page_parser, input_image_path, input_xml_path, input_logit_path, output_render_path,
             output_logit_path, output_alto_path, output_xml_path, output_line_path):
    self.page_parser = page_parser
    self.input_image_path = input_image_path
    self.input_xml_path = input_xml_path
    self.input_logit_path = input_logit_path
    self.output_render_path = output_render_path
    self.output_logit_path = output_logit_path
    self.output_alto_path = output_alto_path
    self.output_xml_path = output_xml_path
    self.output_line_path = output_line_path


# reference for user_scripts.parse_folder:Computator.__call__
def comp_call(self, image_file_name, file_id, index, ids_count):
    print(f"Processing {file_id}")
    t1 = time.time()
    annotations = []
    try:
        if self.input_image_path is not None:
            image = cv2.imread(os.path.join(self.input_image_path, image_file_name), 1)
            if image is None:
                raise Exception(f'Unable to read image "{os.path.join(self.input_image_path, image_file_name)}"')
        else:
            image = None

        if self.input_xml_path:
            page_layout = PageLayout(file=os.path.join(self.input_xml_path, file_id + '.xml'))
        else:
            page_layout = PageLayout(id=file_id, page_size=(image.shape[0], image.shape[1]))

        if self.input_logit_path is not None:
            page_layout.load_logits(os.path.join(self.input_logit_path, file_id + '.logits'))

        page_layout = self.page_parser.process_page(image, page_layout)

        # line crops cannot be told apart by page id afterwards, so they are written before
        # any of the outputs that mark the page as processed
        if self.output_line_path is not None and page_layout is not None:
            if 'lmdb' in self.output_line_path:
                lmdb_writer = LMDB_writer(self.output_line_path)
                lmdb_writer(page_layout, file_id)
            else:
                for region in page_layout.regions:
                    for line in region.lines:
                        cv2.imwrite(
                            os.path.join(self.output_line_path, f'{file_id}-{line.id}.jpg'),
                            line.crop.astype(np.uint8),
                            [int(cv2.IMWRITE_JPEG_QUALITY), 98])

        if self.output_xml_path is not None:
            page_layout.to_pagexml(
                os.path.join(self.output_xml_path, file_id + '.xml'))

        if self.output_render_path is not None:
            page_layout.render_to_image(image)
            cv2.imwrite(os.path.join(self.output_render_path, file_id + '.jpg'), image, [int(cv2.IMWRITE_JPEG_QUALITY), 70])

        if self.output_logit_path is not None:
            page_layout.save_logits(os.path.join(self.output_logit_path, file_id + '.logits'))

        if self.output_alto_path is not None:
            page_layout.to_altoxml(os.path.join(self.output_alto_path, file_id + '.xml'))

        all_lines = list(page_layout.lines_iterator())
        all_lines = sorted(all_lines, key=lambda x: x.id)
        annotations = []
        for line in all_lines:
            if line.transcription:
                key = f'{file_id}-{line.id}.jpg'
                annotations.append(key + " " + line.transcription)

    except KeyboardInterrupt:
        traceback.print_exc()
        print('Terminated by user.')
        sys.exit()
    except Exception as e:
        print(f'ERROR: Failed to process file {file_id}.')
        print(e)
        traceback.print_exc()
    print("DONE {current}/{total} ({percentage:.2f} %) [id: {file_id}] Time:{time:.2f}".format(
        current=index + 1, total=ids_count, percentage=(index + 1) / ids_count * 100,
        file_id=file_id, time=time.time() - t1))

    return annotations


# reference for user_scripts.parse_folder:LMDB_writer.__call__
def lmdb_call(self, page_layout: PageLayout, file_id):
    all_lines = list(page_layout.lines_iterator())
    all_lines = sorted(all_lines, key=lambda x: x.id)
    records_to_write = {}
    for line in all_lines:
        if line.transcription:
            key = f'{file_id}-{line.id}.jpg'
            img = cv2.imencode('.jpg', line.crop.astype(np.uint8), [int(cv2.IMWRITE_JPEG_QUALITY), 95])[1].tobytes()
            records_to_write[key] = img

    with self.env_out.begin(write=True) as txn_out:
        c_out = txn_out.cursor()
        for key in records_to_write:
            c_out.put(key.encode(), records_to_write[key])


# reference for user_scripts.parse_folder:get_value_or_none
def get_value_or_none(config, section, key):
    if config.has_option(section, key):
        value = config[section][key]
    else:
        value = None
    return value


# reference for user_scripts.parse_folder:create_dir_if_not_exists
def create_dir_if_not_exists(path):
    if not os.path.exists(path):
        os.makedirs(path)


# reference for pero_ocr.document_ocr.page_parser:PageParser.__init__
def pp_init(self, config, device=None, config_path='', ):
    self.run_layout_parser = config['PAGE_PARSER'].getboolean('RUN_LAYOUT_PARSER', fallback=False)
    self.run_line_cropper = config['PAGE_PARSER'].getboolean('RUN_LINE_CROPPER', fallback=False)
    self.run_ocr = config['PAGE_PARSER'].getboolean('RUN_OCR', fallback=False)
    self.run_decoder = config['PAGE_PARSER'].getboolean('RUN_DECODER', fallback=False)
    self.filter_confident_lines_threshold = config['PAGE_PARSER'].getfloat('FILTER_CONFIDENT_LINES_THRESHOLD',
                                                                           fallback=-1)

    self.layout_parser = None
    self.line_cropper = None
    self.ocr = None
    self.decoder = None

    self.device = device if device is not None else get_default_device()

    if self.run_layout_parser:
        self.layout_parsers = []
        for i in range(1, 10):
            if config.has_section('LAYOUT_PARSER_{}'.format(i)):
                self.layout_parsers.append(layout_parser_factory(config, self.device, config_path=config_path, order=i))
    if self.run_line_cropper:
        self.line_cropper = line_cropper_factory(config, config_path=config_path)
    if self.run_ocr:
        self.ocr = ocr_factory(config, self.device, config_path=config_path)
    if self.run_decoder:
        self.decoder = page_decoder_factory(config, self.device, config_path=config_path)


# reference for pero_ocr.document_ocr.page_parser:PageParser.filter_confident_lines
def filter_confident_lines(self, page_layout):
    for region in page_layout.regions:
        region.lines = [line for line in region.lines if line.transcription_confidence > self.filter_confident_lines_threshold]
    return page_layout


# reference for pero_ocr.document_ocr.page_parser:layout_parser_factory
def layout_parser_factory(config, device, config_path='', order=1):
    config = config['LAYOUT_PARSER_{}'.format(order)]
    if config['METHOD'] == 'REGION_WHOLE_PAGE':
        layout_parser = WholePageRegion(config, config_path=config_path)
    elif config['METHOD'] == 'REGION_SIMPLE_THRESHOLD':
        layout_parser = SimpleThresholdRegion(config, config_path=config_path)
    elif config['METHOD'] == 'LAYOUT_CNN':
        layout_parser = LayoutExtractor(config, device, config_path=config_path)
    elif config['METHOD'] == 'LINES_SIMPLE_THRESHOLD':
        layout_parser = TextlineExtractorSimple(config, config_path=config_path)
    elif config['METHOD'] == 'LINE_FILTER':
        layout_parser = LineFilter(config, device, config_path=config_path)
    elif config['METHOD'] == 'LINE_POSTPROCESSING':
        layout_parser = LinePostprocessor(config, config_path=config_path)
    elif config['METHOD'] == 'LAYOUT_POSTPROCESSING':
        layout_parser = LayoutPostprocessor(config, config_path=config_path)
    elif config['METHOD'] == 'REGION_SORTER_NAIVE':
        layout_parser = NaiveRegionSorter(config, config_path=config_path)
    elif config['METHOD'] == 'REGION_SORTER_SMART':
        layout_parser = SmartRegionSorter(config, config_path=config_path)
    else:
        raise ValueError('Unknown layout parser method: {}'.format(config['METHOD']))
    return layout_parser


# reference for pero_ocr.document_ocr.page_parser:line_cropper_factory
def line_cropper_factory(config, config_path=''):
    config = config['LINE_CROPPER']
    return LineCropper(config, config_path=config_path)


# reference for pero_ocr.document_ocr.page_parser:ocr_factory
def ocr_factory(config, device, config_path=''):
    config = config['OCR']
    return PageOCR(config, device, config_path=config_path)


# reference for pero_ocr.document_ocr.page_parser:PageOCR.__init__
def pageocr_init(self, config, device, config_path=''):
    json_file = compose_path(config['OCR_JSON'], config_path)
    use_cpu = config.getboolean('USE_CPU')

    self.device = device if not use_cpu else torch.device("cpu")

    if 'METHOD' in config and config['METHOD'] == "pytorch_ocr-transformer":
        self.ocr_engine = TransformerEngineLineOCR(json_file, self.device)
    else:
        self.ocr_engine = PytorchEngineLineOCR(json_file, self.device)


# reference for pero_ocr.core.layout:create_ocr_processing_element
def create_ocr_processing_element(id: str = "IdOcr",
                                  software_creator_str: str = "Project PERO",
                                  software_name_str: str = "PERO OCR",
                                  software_version_str: str = "v0.1.0",
                                  processing_datetime=None):
    ocr_processing = ET.Element("OCRProcessing")
    ocr_processing.set("ID", id)
    ocr_processing_step = ET.SubElement(ocr_processing, "ocrProcessingStep")
    processing_date_time = ET.SubElement(ocr_processing_step, "processingDateTime")
    if processing_datetime is not None:
        processing_date_time.text = processing_datetime
    else:
        processing_date_time.text = datetime.utcnow().isoformat()
    processing_software = ET.SubElement(ocr_processing_step, "processingSoftware")
    processing_creator = ET.SubElement(processing_software, "softwareCreator")
    processing_creator.text = software_creator_str
    software_name = ET.SubElement(processing_software, "softwareName")
    software_name.text = software_name_str
    software_version = ET.SubElement(processing_software, "softwareVersion")
    software_version.text = software_version_str

    return ocr_processing

