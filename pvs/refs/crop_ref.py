# Reference forms for line cropping (never imported, only parsed).
# reference for pero_ocr.core.crop_engine:EngineLineCropper.crop
def crop(self, img, baseline, heights, return_mapping=False, return_forward_mapping=False):
    try:
        line_coords = self.get_crop_inputs(baseline, heights, self.line_height)
        line_crop = self.fast_remap(img, line_coords)
    except:
        print("ERROR: line crop failed.", heights, baseline)
        line_crop = np.zeros([self.line_height, 32, img.shape[2]], dtype=np.uint8)

    if return_mapping:
        line_mapping, offset = self.reverse_xy_mapping(line_coords, img.shape)
        return line_crop, line_mapping, offset
    elif return_forward_mapping:
        return line_crop, line_coords
    else:
        return line_crop


# reference for pero_ocr.core.crop_engine:EngineLineCropper.get_crop_inputs
def get_crop_inputs(self, baseline, line_heights, target_height):
    line_heights = [line_heights[0] * self.scale, line_heights[1] * self.scale]
    coords = np.asarray(baseline).copy().astype(int)
    alfa = math.atan2(coords[-1, 1] - coords[0, 1], coords[-1, 0] - coords[0, 0])
    R = np.array([[np.cos(alfa), np.sin(alfa)], [-np.sin(alfa), np.cos(alfa)]])
    coords = np.dot(coords, np.linalg.inv(R))
    if self.poly:
        if coords.shape[0] > 2:
            line_interpf = np.poly1d(np.polyfit(coords[:,0], coords[:,1], self.poly))
        else:
            line_interpf = np.poly1d(np.polyfit(coords[:,0], coords[:,1], 1))
    else:
        try:
            coords[-1, 0] += 0.1 # shift the last point slightly right, prevents interpolation function from failing during computation of normals
            line_interpf = interpolate.interp1d(coords[:,0], coords[:,1], kind='cubic', fill_value='extrapolate')
        except: # fall back to linear interpolation in case y_values fails (usually with very short baselines)
            line_interpf = np.poly1d(np.polyfit(coords[:,0], coords[:,1], 1))
    left = coords[:, 0].min()
    right = coords[:, 0].max()
    line_x_values = np.arange(left, right)
    line_y_values = line_interpf(line_x_values) # positions in source
    line_length = ((line_x_values[:-1] - line_x_values[1:])**2 + (line_y_values[:-1] - line_y_values[1:])**2) ** 0.5
    mapping_x_to_line_pos = np.concatenate([np.zeros(1), np.cumsum(line_length)]) # mapping of source to t
    scale = target_height / (line_heights[0] + line_heights[1])

    horizontal_sample_count = int(mapping_x_to_line_pos[-1] * scale) # number of target samples

    tmp = np.linspace(0, mapping_x_to_line_pos[-1], horizontal_sample_count)
    output_x_positions = self.reverse_line_mapping( # get source x baseline positions in target pixels
        mapping_x_to_line_pos, tmp, line_x_values)
    output_y_positions = line_interpf(output_x_positions) # get source baseline y positions in target pixels

    d_x = np.full_like(output_x_positions, 0.1)
    d_y = output_y_positions - line_interpf(output_x_positions + 0.1)
    norm_scales = (d_x**2 + d_y**2) ** 0.5 # get normals

    norm_x = -d_y / norm_scales
    norm_y = d_x / norm_scales

    vertical_map = np.linspace(-line_heights[0], line_heights[1], target_height).reshape(-1, 1)
    vertical_map_x = norm_x.reshape(1, -1) * vertical_map + output_x_positions.reshape(1, -1) # get the rest of source x positions for target pixels computed from normals
    vertical_map_y = norm_y.reshape(1, -1) * vertical_map + output_y_positions.reshape(1, -1) # get the rest of source y positions for target pixels computed from normals

    coords = np.stack((vertical_map_x, vertical_map_y), axis=2)
    coords = np.dot(coords, R).astype(np.float32)
    return coords


# reference for pero_ocr.core.crop_engine:EngineLineCropper.reverse_line_mapping
def reverse_line_mapping(self, forward_mapping, sample_positions, sampled_values):
    backward_mapping = np.zeros_like(sample_positions)
    forward_position = 0
    for i in range(sample_positions.shape[0]):
        while forward_mapping[forward_position] > sample_positions[i]:
            forward_position += 1
        d = forward_mapping[forward_position] - forward_mapping[forward_position-1]
        da = (sample_positions[i] - forward_mapping[forward_position-1]) / d
        backward_mapping[i] = (1 - da) * sampled_values[forward_position - 1] + da * sampled_values[forward_position]
    return backward_mapping


# reference for pero_ocr.core.crop_engine:EngineLineCropper.fast_remap
def fast_remap(self, img, coords):
    x_min = int(np.floor(np.amin(coords[:, :, 0])))
    x_max = int(np.ceil(np.amax(coords[:, :, 0])))
    y_min = int(np.floor(np.amin(coords[:, :, 1])))
    y_max = int(np.ceil(np.amax(coords[:, :, 1])))

    if x_min < 0 or y_min < 0 or x_max > img.shape[1]-1 or y_max > img.shape[0]-1:
        line_crop = cv2.remap(img, coords[:, :, 0], coords[:, :, 1],
                                   interpolation=cv2.INTER_LINEAR, borderMode=cv2.BORDER_CONSTANT)
    else:
        x_coords_shifted = coords[:, :, 0] - x_min
        y_coords_shifted = coords[:, :, 1] - y_min

        img_crop = img[y_min:y_max+1, x_min:x_max+1]

        line_crop = cv2.remap(img_crop, x_coords_shifted, y_coords_shifted,
                              interpolation=cv2.INTER_LINEAR, borderMode=cv2.BORDER_CONSTANT)
    return line_crop


# reference for pero_ocr.core.crop_engine:EngineLineCropper.__init__
def crop_init(self, correct_slant=False, line_height=32, poly=0, scale=1, blend_border=4):
    self.correct_slant = correct_slant
    self.line_height = line_height
    self.poly = poly
    self.scale = scale
    self.blend_border = blend_border


# reference for pero_ocr.document_ocr.page_parser:LineCropper.process_page
def lc_process_page(self, img, page_layout: PageLayout):
    for line in page_layout.lines_iterator():
        try:
            line.crop = self.crop_engine.crop(
                img, line.baseline, line.heights)
        except ValueError:
            line.crop = np.zeros(
                (self.crop_engine.line_height, self.crop_engine.line_height, 3))
            print(f"WARNING: Failed to crop line {line.id} in page {page_layout.id}. Probably contain vertical line. Contanct Olda Kodym to fix this bug!")
    return page_layout


# reference for pero_ocr.document_ocr.page_parser:LineCropper.crop_lines
def lc_crop_lines(self, img, lines: list):
    for line in lines:
        try:
            line.crop = self.crop_engine.crop(
                img, line.baseline, line.heights)
        except ValueError:
            line.crop = np.zeros(
                (self.crop_engine.line_height, self.crop_engine.line_height, 3))
            print(f"WARNING: Failed to crop line {line.id}. Probably contain vertical line. Contanct Olda Kodym to fix this bug!")


# reference for pero_ocr.document_ocr.page_parser:LineCropper.__init__
def lc_init(self, config, config_path=''):
    poly = config.getint('INTERP')
    line_scale = config.getfloat('LINE_SCALE')
    line_height = config.getint('LINE_HEIGHT')
    self.crop_engine = cropper.EngineLineCropper(
        line_height=line_height, poly=poly, scale=line_scale)

