# Reference forms for ALTO export / import and the Arabic order conversion (never imported, only parsed).
# reference for pero_ocr.core.layout:PageLayout.to_altoxml_string
def to_altoxml_string(self, ocr_processing_element: ET.SubElement = None, page_uuid: str = None, min_line_confidence: float = 0):
    arabic_helper = ArabicHelper()
    NSMAP = {"xlink": 'http://www.w3.org/1999/xlink',
             "xsi": 'http://www.w3.org/2001/XMLSchema-instance'}
    root = ET.Element("alto", nsmap=NSMAP)
    root.set("xmlns", "http://www.loc.gov/standards/alto/ns-v2#")

    description = ET.SubElement(root, "Description")
    measurement_unit = ET.SubElement(description, "MeasurementUnit")
    measurement_unit.text = "pixel"
    source_image_information = ET.SubElement(description, "sourceImageInformation")
    file_name = ET.SubElement(source_image_information, "fileName")
    file_name.text = self.id
    if ocr_processing_element is not None:
        description.append(ocr_processing_element)
    else:
        ocr_processing_element = create_ocr_processing_element()
        description.append(ocr_processing_element)
    layout = ET.SubElement(root, "Layout")
    page = ET.SubElement(layout, "Page")
    if page_uuid is not None:
        page.set("ID", "id_" + page_uuid)
    else:
        page.set("ID", "id_" + re.sub('[!\"#$%&\'()*+,/:;<=>?@[\\]^`{|}~ ]', '_', self.id))
    page.set("PHYSICAL_IMG_NR", str(1))
    page.set("HEIGHT", str(self.page_size[0]))
    page.set("WIDTH", str(self.page_size[1]))

    top_margin = ET.SubElement(page, "TopMargin")
    left_margin = ET.SubElement(page, "LeftMargin")
    right_margin = ET.SubElement(page, "RightMargin")
    bottom_margin = ET.SubElement(page, "BottomMargin")
    print_space = ET.SubElement(page, "PrintSpace")

    print_space_bottom = 0
    print_space_right = 0
    print_space_vpos = self.page_size[0]
    print_space_hpos = self.page_size[1]

    for b, block in enumerate(self.regions):
        text_block = ET.SubElement(print_space, "TextBlock")
        text_block.set("ID", 'block_{}' .format(block.id))

        text_block_height, text_block_width, text_block_vpos, text_block_hpos = get_hwvh(block.polygon)
        text_block.set("HEIGHT", str(int(text_block_height)))
        text_block.set("WIDTH", str(int(text_block_width)))
        text_block.set("VPOS", str(int(text_block_vpos)))
        text_block.set("HPOS", str(int(text_block_hpos)))

        print_space_bottom = max([print_space_bottom, text_block_vpos + text_block_height])
        print_space_right = max([print_space_right, text_block_hpos + text_block_width])
        print_space_vpos = min([print_space_vpos, text_block_vpos])
        print_space_hpos = min([print_space_hpos, text_block_hpos])

        for l, line in enumerate(block.lines):
            if not line.transcription or line.transcription.strip() == "":
                continue
            arabic_line = False
            if arabic_helper.is_arabic_line(line.transcription):
                arabic_line = True
            text_line = ET.SubElement(text_block, "TextLine")
            text_line_baseline = int(np.average(np.array(line.baseline)[:, 1]))
            text_line.set("BASELINE", str(text_line_baseline))

            text_line_height, text_line_width, text_line_vpos, text_line_hpos = get_hwvh(line.polygon)

            text_line.set("VPOS", str(int(text_line_vpos)))
            text_line.set("HPOS", str(int(text_line_hpos)))
            text_line.set("HEIGHT", str(int(text_line_height)))
            text_line.set("WIDTH", str(int(text_line_width)))

            try:
                chars = [i for i in range(len(line.characters))]
                char_to_num = dict(zip(line.characters, chars))

                blank_idx = line.logits.shape[1] - 1

                label = []
                for item in line.transcription:
                    if item in char_to_num.keys():
                        if char_to_num[item] >= blank_idx:
                            label.append(0)
                        else:
                            label.append(char_to_num[item])
                    else:
                        label.append(0)

                logits = line.get_dense_logits()[line.logit_coords[0]:line.logit_coords[1]]
                logprobs = line.get_full_logprobs()[line.logit_coords[0]:line.logit_coords[1]]
                aligned_letters = align_text(-logprobs, np.array(label), blank_idx)
            except (ValueError, IndexError, TypeError, AttributeError) as e:
                logger.warning(f'Error: Alto export, unable to align line {line.id} due to exception {e}.')
                line.transcription_confidence = 0
                average_word_width = (text_line_hpos + text_line_width) / len(line.transcription.split())
                for w, word in enumerate(line.transcription.split()):
                    string = ET.SubElement(text_line, "String")
                    if arabic_line:
                        string.set("CONTENT", arabic_helper.label_form_to_string(word))
                    else:
                        string.set("CONTENT", word)

                    string.set("HEIGHT", str(int(text_line_height)))
                    string.set("WIDTH", str(int(average_word_width)))
                    string.set("VPOS", str(int(text_line_vpos)))
                    string.set("HPOS", str(int(text_line_hpos + (w * average_word_width))))
            else:
                crop_engine = EngineLineCropper(poly=2)
                line_coords = crop_engine.get_crop_inputs(line.baseline, line.heights, 16)
                space_idxs = [pos for pos, char in enumerate(line.transcription) if char.isspace()]

                words = []
                space_idxs = [-1] + space_idxs + [len(aligned_letters)]
                for i in range(len(space_idxs[1:])):
                    if space_idxs[i] != space_idxs[i+1]-1:
                        words.append([aligned_letters[space_idxs[i]+1], aligned_letters[space_idxs[i+1]-1]])
                splitted_transcription = line.transcription.split()
                lm_const = line_coords.shape[1] / logits.shape[0]
                letter_counter = 0
                confidences = get_line_confidence(line, np.array(label), aligned_letters, logprobs)
                #if line.transcription_confidence is None:
                line.transcription_confidence = np.quantile(confidences, .50)
                for w, word in enumerate(words):
                    extension = 2
                    while line_coords.size > 0 and extension < 40:
                        all_x = line_coords[:, max(0, int((words[w][0]-extension) * lm_const)):int((words[w][1]+extension) * lm_const), 0]
                        all_y = line_coords[:, max(0, int((words[w][0]-extension) * lm_const)):int((words[w][1]+extension) * lm_const), 1]

                        if all_x.size == 0 or all_y.size == 0:
                            extension += 1
                        else:
                            break

                    if line_coords.size == 0 or all_x.size == 0 or all_y.size == 0:
                       all_x = line.baseline[:, 0]
                       all_y = np.concatenate([line.baseline[:, 1] - line.heights[0], line.baseline[:, 1] + line.heights[1]])

                    word_confidence = None
                    if line.transcription_confidence == 1:
                        word_confidence = 1
                    else:
                        if confidences.size != 0:
                            word_confidence = np.quantile(confidences[letter_counter:letter_counter+len(splitted_transcription[w])], .50)

                    string = ET.SubElement(text_line, "String")

                    if arabic_line:
                        string.set("CONTENT", arabic_helper.label_form_to_string(splitted_transcription[w]))
                    else:
                        string.set("CONTENT", splitted_transcription[w])

                    string.set("HEIGHT", str(int((np.max(all_y) - np.min(all_y)))))
                    string.set("WIDTH", str(int((np.max(all_x) - np.min(all_x)))))
                    string.set("VPOS", str(int(np.min(all_y))))
                    string.set("HPOS", str(int(np.min(all_x))))

                    if word_confidence is not None:
                        string.set("WC", str(round(word_confidence, 2)))

                    if w != (len(line.transcription.split())-1):
                        space = ET.SubElement(text_line, "SP")

                        space.set("WIDTH", str(4))
                        space.set("VPOS", str(int(np.min(all_y))))
                        space.set("HPOS", str(int(np.max(all_x))))
                    letter_counter += len(splitted_transcription[w])+1
            if line.transcription_confidence is not None:
                if line.transcription_confidence < min_line_confidence:
                    text_block.remove(text_line)
    print_space_height = max([0, print_space_bottom - print_space_vpos])
    print_space_width = max([0, print_space_right - print_space_hpos])

    top_margin.set("HEIGHT", "{}" .format(int(print_space_vpos)))
    top_margin.set("WIDTH", "{}" .format(int(self.page_size[1])))
    top_margin.set("VPOS", "0")
    top_margin.set("HPOS", "0")

    left_margin.set("HEIGHT", "{}" .format(int(self.page_size[0])))
    left_margin.set("WIDTH", "{}" .format(int(print_space_hpos)))
    left_margin.set("VPOS", "0")
    left_margin.set("HPOS", "0")

    right_margin.set("HEIGHT", "{}" .format(int(self.page_size[0])))
    right_margin.set("WIDTH", "{}" .format(int(self.page_size[1] - (print_space_hpos + print_space_width))))
    right_margin.set("VPOS", "0")
    right_margin.set("HPOS", "{}" .format(int(print_space_hpos + print_space_width)))

    bottom_margin.set("HEIGHT", "{}" .format(int(self.page_size[0] - (print_space_vpos + print_space_height))))
    bottom_margin.set("WIDTH", "{}" .format(int(self.page_size[1])))
    bottom_margin.set("VPOS", "{}" .format(int(print_space_vpos + print_space_height)))
    bottom_margin.set("HPOS", "0")

    print_space.set("HEIGHT", str(int(print_space_height)))
    print_space.set("WIDTH", str(int(print_space_width)))
    print_space.set("VPOS", str(int(print_space_vpos)))
    print_space.set("HPOS", str(int(print_space_hpos)))

    return ET.tostring(root, pretty_print=True, encoding="utf-8", xml_declaration=True).decode("utf-8")


# reference for pero_ocr.core.layout:PageLayout.from_altoxml
def from_altoxml(self, file: Union[str, BytesIO]):
    page_tree = ET.parse(file)
    schema = element_schema(page_tree.getroot())
    root = page_tree.getroot()

    layout = root.findall(schema + 'Layout')[0]
    page = layout.findall(schema + 'Page')[0]

    self.id = page.attrib['ID'][3:]
    self.page_size = (int(page.attrib['HEIGHT']), int(page.attrib['WIDTH']))

    print_space = page.findall(schema + 'PrintSpace')[0]
    for region in print_space.iter(schema + 'TextBlock'):
        region_coords = list()
        region_coords.append([int(region.get('HPOS')), int(region.get('VPOS'))])
        region_coords.append([int(region.get('HPOS')) + int(region.get('WIDTH')), int(region.get('VPOS'))])
        region_coords.append([int(region.get('HPOS')) + int(region.get('WIDTH')),
                              int(region.get('VPOS')) + int(region.get('HEIGHT'))])
        region_coords.append([int(region.get('HPOS')), int(region.get('VPOS')) + int(region.get('HEIGHT'))])

        region_layout = RegionLayout(region.attrib['ID'], np.asarray(region_coords).tolist())

        for line in region.iter(schema + 'TextLine'):
            new_textline = TextLine(baseline=np.asarray(
                [[int(line.attrib['HPOS']), int(line.attrib['BASELINE'])],
                   [int(line.attrib['HPOS']) + int(line.attrib['WIDTH']), int(line.attrib['BASELINE'])]]))
            polygon = []
            new_textline.heights = np.asarray([
                int(line.attrib['HEIGHT']) + int(line.attrib['VPOS']) - int(line.attrib['BASELINE']),
                int(line.attrib['BASELINE']) - int(line.attrib['VPOS'])])
            polygon.append([int(line.attrib['HPOS']), int(line.attrib['VPOS'])])
            polygon.append(
                [int(line.attrib['HPOS']) + int(line.attrib['WIDTH']), int(line.attrib['VPOS'])])
            polygon.append([int(line.attrib['HPOS']) + int(line.attrib['WIDTH']),
                                         int(line.attrib['VPOS']) + int(line.attrib['HEIGHT'])])
            polygon.append(
                [int(line.attrib['HPOS']), int(line.attrib['VPOS']) + int(line.attrib['HEIGHT'])])
            new_textline.polygon = np.asarray(polygon)
            word = ''
            start = True
            for text in line.iter(schema + 'String'):
                if start:
                    start = False
                    word = word + text.get('CONTENT')
                else:
                    word = word + " " + text.get('CONTENT')
            new_textline.transcription = word
            region_layout.lines.append(new_textline)

        self.regions.append(region_layout)


# reference for pero_ocr.core.layout:get_hwvh
def get_hwvh(polygon):
    xy = list(zip(*polygon))

    height = max(xy[1]) - min(xy[1])
    width = max(xy[0]) - min(xy[0])

    vpos = min(xy[1])
    hpos = min(xy[0])

    return height, width, vpos, hpos


# reference for pero_ocr.core.layout:PageLayout.to_altoxml
def to_altoxml(self, file_name: str, ocr_processing_element: ET.SubElement = None, page_uuid: str = None):
    alto_string = self.to_altoxml_string(ocr_processing_element=ocr_processing_element, page_uuid=page_uuid)
    with open(file_name, 'w', encoding='utf-8') as out_f:
        out_f.write(alto_string)


# reference for pero_ocr.core.arabic_helper:ArabicHelper._reverse
def _reverse(self, text):
    class Sequence:
        def __init__(self, chars=[], arabic=True):
            self.chars = chars
            self.arabic = arabic

    sequences = []
    seq = Sequence()
    for c in text:
        if c in self.forward_mapping or c in self._backward_mapping or c in self.arabic_delimiters:
            if not seq.arabic:
                ####
                if len(seq.chars) > 0:
                    arabic_seq = []
                    number_of_ending_spaces = 0

                    for i in seq.chars[::-1]:
                        if i in self.delimiters:
                            arabic_seq.insert(0, i)
                            number_of_ending_spaces += 1
                        else:
                            break

                    if number_of_ending_spaces > 0:
                        seq.chars = seq.chars[:-number_of_ending_spaces]
                    sequences.append(seq)
                    seq = Sequence(chars=arabic_seq, arabic=True)
                ####

                seq.arabic = True

        elif c not in self.delimiters:
            if seq.arabic:
                if len(seq.chars) > 0:
                    sequences.append(seq)
                    seq = Sequence(chars=[], arabic=False)

                seq.arabic = False

        seq.chars.append(c)

    ####
    if len(seq.chars) > 0:
        arabic_seq = []
        number_of_ending_spaces = 0

        for i in seq.chars[::-1]:
            if i in self.delimiters:
                arabic_seq.insert(0, i)
                number_of_ending_spaces += 1
            else:
                break

        if number_of_ending_spaces > 0:
            seq.chars = seq.chars[:-number_of_ending_spaces]
        sequences.append(seq)

        if len(arabic_seq):
            seq = Sequence(chars=arabic_seq, arabic=True)
            sequences.append(seq)
    ####

    for index, seq in enumerate(sequences):
        if seq.arabic:
            seq.chars = seq.chars[::-1]

    sequences = sequences[::-1]

    reversed_text = ""

    for seq in sequences:
        for c in seq.chars:
            reversed_text += c

    return reversed_text


# reference for pero_ocr.core.arabic_helper:ArabicHelper.is_arabic_line
def is_arabic_line(self, text):
    result = False

    for word in text.split():
        if self.is_arabic_word(word):
            result = True
            break

    return result


# reference for pero_ocr.core.arabic_helper:ArabicHelper.is_arabic_word
def is_arabic_word(self, word):
    result = False
    pattern = self._arabic_chars_pattern

    if re.match(pattern, word):
        result = True

    return result


# reference for pero_ocr.core.arabic_helper:ArabicHelper.string_to_label_form
def string_to_label_form(self, text):
    text = self._reverse(text)
    return text


# reference for pero_ocr.core.arabic_helper:ArabicHelper.label_form_to_string
def label_form_to_string(self, text):
    text = self.string_to_label_form(text)
    return text

