# Reference forms for layout decoding (never imported, only parsed).
# reference for pero_ocr.layout_engines.cnn_layout_engine:LayoutEngine.parse
def parse(self, out_map, downsample):
    """Parse input baseline, height and region map into list of baselines
    coords, list of heights and region map
    :param out_map: array of baseline and endpoint probabilities with
    channels: ascender height, descender height, baselines, baseline
    endpoints, region boundaries
    :param downsample: downsample factor to apply to layout coords
    """
    b_list = []
    h_list = []

    print('MAP RES:', out_map.shape)
    out_map[:, :, 4][out_map[:, :, 4] < 0] = 0

    # expand line heights verticaly
    heights_map = ndimage.morphology.grey_dilation(
        out_map[:, :, :2], size=(5, 1, 1))

    baselines_map = out_map[:, :, 2]
    if self.smooth_line_predictions:
        baselines_map = ndimage.convolve(baselines_map, np.ones((3, 3))/9)
    baselines_map = nonmaxima_suppression(baselines_map, element_size=(5, 1))
    baselines_map = (baselines_map - self.line_end_weight * out_map[:, :, 3]) > self.line_detection_threshold

    # connect vertically disconnected lines - any effect? Parameter is vertical connection distance in pixels.
    baselines_map_dilated = ndimage.morphology.binary_dilation(
        baselines_map, structure=np.asarray([[1, 1, 1] for i in range(self.vertical_line_connection_range)]))
    baselines_img, num_detections = ndimage.measurements.label(baselines_map_dilated, structure=np.ones([3, 3]))
    baselines_img *= baselines_map
    inds = np.where(baselines_img > 0)
    labels = baselines_img[inds[0], inds[1]]

    for i in range(1, num_detections+1):
        bl_inds, = np.where(labels == i)
        if len(bl_inds) > 5:
            # go from matrix indexing to image indexing
            pos_all = np.stack([inds[1][bl_inds], inds[0][bl_inds]], axis=1)

            _, indices = np.unique(pos_all[:, 0], return_index=True)
            pos = pos_all[indices]
            x_index = np.argsort(pos[:, 0])
            pos = pos[x_index]

            target_point_count = min(10, pos.shape[0] // 10)
            target_point_count = max(target_point_count, 2)
            selected_pos = np.linspace(
                0, (pos.shape[0]) - 1, target_point_count).astype(np.int32)

            pos = pos[selected_pos, :]
            pos[0, 0] -= 2  # compensate for endpoint detection overlaps
            pos[-1, 0] += 2

            heights_pred = heights_map[inds[0][bl_inds], inds[1][bl_inds], :]

            heights_pred = np.maximum(heights_pred, 0)
            heights_pred = np.asarray([
                np.percentile(heights_pred[:, 0], 50),
                np.percentile(heights_pred[:, 1], 50)
            ])

            b_list.append(downsample * pos.astype(float))
            h_list.append([downsample * heights_pred[0], downsample * heights_pred[1]])

    # sort lines from LEFT to RIGHT
    order = sorted(range(len(b_list)), key=lambda i: np.amin(b_list[i][:, 0]))
    b_list = [b_list[i] for i in order]
    h_list = [h_list[i] for i in order]

    t_list = [helpers.baseline_to_textline(b, h) for b, h in zip(b_list, h_list)]

    return b_list, h_list, t_list


# reference for pero_ocr.layout_engines.cnn_layout_engine:LayoutEngine.rotate_layout
def rotate_layout(self, p_list, b_list, t_list, rot, shape):
    if rot == 1:
        b_list = [np.flip(b, axis=1) for b in b_list]
        t_list = [np.flip(t, axis=1) for t in t_list]
        p_list = [np.flip(p, axis=1) for p in p_list]
        for b in b_list:
            b[:, 0] = shape[0] - b[:, 0]
        for t in t_list:
            t[:, 0] = shape[0] - t[:, 0]
        for p in p_list:
            p[:, 0] = shape[0] - p[:, 0]
    elif rot == 2:
        shape_array = np.asarray(shape[:2][::-1])
        b_list = [shape_array - b for b in b_list]
        t_list = [shape_array - t for t in t_list]
        p_list = [shape_array - p for p in p_list]
    elif rot == 3:
        b_list = [np.flip(b, axis=1) for b in b_list]
        t_list = [np.flip(t, axis=1) for t in t_list]
        p_list = [np.flip(p, axis=1) for p in p_list]
        for b in b_list:
            b[:, 1] = shape[1] - b[:, 1]
        for t in t_list:
            t[:, 1] = shape[1] - t[:, 1]
        for p in p_list:
            p[:, 1] = shape[1] - p[:, 1]
    return p_list, b_list, t_list


# reference for pero_ocr.layout_engines.cnn_layout_engine:LayoutEngine.detect
def detect(self, image, rot=0):
    """Uses parsenet to find lines and region separators, clusters vertically
    close lines by computing penalties and postprocesses the resulting
    regions.
    :param image: input image
    :param rot: number of counter-clockwise 90degree rotations (0 <= n <= 3)
    """
    if rot > 0:
        image = np.rot90(image, k=rot)

    tic = time.time()
    maps, ds = self.parsenet.get_maps_with_optimal_resolution(image)
    print(f'GET MAPS TIME: {time.time() - tic}')

    b_list, h_list, t_list = self.parse(maps, ds)

    if not b_list:
        return [], [], [], []

    clusters_array = self.make_clusters(b_list, h_list, t_list, maps[:, :, 4], ds)
    p_list = self.clustered_lines_to_polygons(t_list, clusters_array)

    b_list, h_list, t_list = helpers.order_lines_vertical(b_list, h_list, t_list)
    p_list, b_list, t_list = self.rotate_layout(p_list, b_list, t_list, rot, image.shape)

    return p_list, b_list, h_list, t_list


# reference for pero_ocr.layout_engines.cnn_layout_engine:LayoutEngine.get_heights
def get_heights(self, heights_map, ds, inds):

    inds /= ds
    y_inds = np.clip(
        np.round(inds[:, 1]).astype(int), 0, heights_map.shape[0]-1)
    x_inds = np.clip(
        np.round(inds[:, 0]).astype(int), 0, heights_map.shape[1]-1)

    heights_pred = heights_map[(y_inds, x_inds)]

    heights_pred = np.maximum(heights_pred, 0)
    heights_pred = np.asarray([
        np.percentile(heights_pred[:, 0], 70),
        np.percentile(heights_pred[:, 1], 70)
    ])
    return heights_pred * ds


# reference for pero_ocr.layout_engines.cnn_layout_engine:nonmaxima_suppression
def nonmaxima_suppression(input, element_size=(7, 1)):
    """Vertical non-maxima suppression.
    :param input: input array
    :param element_size: structure element for greyscale dilations
    """
    if len(input.shape) == 3:
        dilated = np.zeros_like(input)
        for i in range(input.shape[0]):
            dilated[i, :, :] = ndimage.morphology.grey_dilation(
                input[i, :, :], size=element_size)
    else:
        dilated = ndimage.morphology.grey_dilation(input, size=element_size)

    return input * (input == dilated)


# reference for pero_ocr.layout_engines.layout_helpers:baseline_to_textline
def baseline_to_textline(baseline, heights):
    """Convert baseline coords and its respective heights to a textline polygon.
    :param baseline: baseline coords
    :param heights: textline heights
    """

    heights = np.array(
        [max(1, heights[0]), max(1, heights[1])]).astype(np.float32)

    x_diffs = np.diff(baseline[:, 0])
    x_diffs = np.concatenate((x_diffs, x_diffs[-1:]), axis=0)
    y_diffs = np.diff(baseline[:, 1])
    y_diffs = np.concatenate((y_diffs, y_diffs[-1:]), axis=0)

    alfas = np.pi/2 + np.arctan2(y_diffs, x_diffs)
    y_up_diffs = np.sin(alfas) * heights[0]
    x_up_diffs = np.cos(alfas) * heights[0]
    y_down_diffs = np.sin(alfas) * heights[1]
    x_down_diffs = np.cos(alfas) * heights[1]

    pos_up = baseline.copy().astype(np.float32)
    pos_up[:, 1] -= y_up_diffs
    pos_up[:, 0] -= x_up_diffs
    pos_down = baseline.copy().astype(np.float32)
    pos_down[:, 1] += y_down_diffs
    pos_down[:, 0] += x_down_diffs
    pos_t = np.concatenate([pos_up, pos_down[::-1, :]], axis=0)

    return pos_t


# reference for pero_ocr.layout_engines.layout_helpers:order_lines_vertical
def order_lines_vertical(baselines, heights, textlines):
    """Order lines according to their vertical position.
    :param baselines: list of baselines to order
    :param heights: list of respective textline heights
    :param textlines: list of respective textline polygons
    """
    # stable sort by the y-coord of the first point: lines on the same y-coord keep their order
    order = sorted(range(len(baselines)), key=lambda i: baselines[i][0][1])
    baselines = [baselines[i] for i in order]
    heights = [heights[i] for i in order]
    textlines = [textlines[i] for i in order]

    return baselines, heights, textlines


# reference for pero_ocr.layout_engines.cnn_layout_engine:LayoutEngine.make_clusters
def make_clusters(self, b_list, h_list, t_list, layout_separator_map, ds):
    if len(t_list) > 1:

        min_pos = np.zeros([len(t_list), 2], dtype=np.float32)
        max_pos = np.zeros([len(t_list), 2], dtype=np.float32)

        t_list_dilated = []
        for textline, min_, max_ in zip(t_list, min_pos, max_pos):
            textline_poly = sg.Polygon(textline)
            tot_height = np.abs(textline[0, 1] - textline[-1, 1])
            t_list_dilated.append(textline_poly.buffer(3*tot_height/4))
            min_[:] = textline.min(axis=0) - tot_height
            max_[:] = textline.max(axis=0) + tot_height

        candidates = np.logical_and(
            np.logical_or(
                max_pos[:, np.newaxis, 1] <= min_pos[np.newaxis, :, 1],
                min_pos[:, np.newaxis, 1] >= max_pos[np.newaxis, :, 1]),
            np.logical_or(
                max_pos[:, np.newaxis, 0] <= min_pos[np.newaxis, :, 0],
                min_pos[:, np.newaxis, 0] >= max_pos[np.newaxis, :, 0]),
        )
        candidates = np.logical_not(candidates)

        candidates = np.triu(candidates, k=1)
        distances = np.ones((len(t_list), len(t_list)))
        for i, j in zip(*candidates.nonzero()):
            if t_list_dilated[i].intersects(t_list_dilated[j]):
                penalty = self.get_pair_penalty(
                    b_list[i], b_list[j], h_list[i], h_list[j], layout_separator_map, ds)
                distances[i, j] = penalty
                distances[j, i] = penalty

        adjacency = (distances < self.paragraph_line_threshold).astype(int)
        adjacency = adjacency * (1 - np.eye(adjacency.shape[0]))  # put zeros on diagonal
        graph = csr_matrix(adjacency > 0)
        _, clusters_array = connected_components(
            csgraph=graph, directed=False, return_labels=True)

        return clusters_array

    else:
        return [0]


# reference for pero_ocr.layout_engines.cnn_layout_engine:LayoutEngine.clustered_lines_to_polygons
def clustered_lines_to_polygons(self, t_list, clusters_array):
    regions_textlines_tmp = []
    polygons_tmp = []
    for i in range(np.amax(clusters_array) + 1):
        region_textlines = []
        for textline, cluster in zip(t_list, clusters_array):
            if cluster == i:
                region_textlines.append(textline)

        region_poly = helpers.region_from_textlines(region_textlines)
        regions_textlines_tmp.append(region_textlines)
        polygons_tmp.append(region_poly)

    # remove overlaps while minimizing textline modifications
    polygons_tmp = self.filter_polygons(
        polygons_tmp, regions_textlines_tmp)
    # up to this point, polygons can be any geometry that comes from alpha_shape
    p_list = []
    for region_poly in polygons_tmp:
        if region_poly.is_empty:
            continue
        if region_poly.geom_type == 'MultiPolygon':
            for poly in region_poly:
                if not poly.is_empty:
                    p_list.append(poly.simplify(5))
        if region_poly.geom_type == 'Polygon':
            p_list.append(region_poly.simplify(5))
    return [np.array(poly.exterior.coords) for poly in p_list]

