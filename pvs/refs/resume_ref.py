# Reference forms for the resume logic of parse_folder (never imported, only parsed).
# reference for user_scripts.parse_folder:load_already_processed_files_in_directory
def load_already_processed_files_in_directory(directory: Optional[str]) -> Set[str]:
    already_processed = set()

    if directory is not None:
        file_pattern = r"(.+)(\.logits|\.xml|\.jpg)$"
        regex = re.compile(file_pattern)

        for file in os.listdir(directory):
            matched = regex.match(file)
            if matched:
                already_processed.add(matched.groups()[0])

    return already_processed


# reference for user_scripts.parse_folder:load_already_processed_files
def load_already_processed_files(directories: List[Optional[str]]) -> Set[str]:
    already_processed = set()
    first = True

    for directory in directories:
        if directory is not None:
            files = load_already_processed_files_in_directory(directory)

            if first:
                already_processed = files
                first = False
            else:
                already_processed = already_processed.intersection(files)

    return already_processed

