# Reference forms for logits save / load / densification (never imported, only parsed).
ZERO_LOGITS = -80.0      # floor for pruned entries, the same in every densifier
# reference for pero_ocr.core.layout:log_softmax
def log_softmax(x):
    a = np.logaddexp.reduce(x, axis=1)[:, np.newaxis]
    return x - a


# reference for pero_ocr.core.layout:TextLine.get_dense_logits
def get_dense_logits(self, zero_logit_value: int = -80):
    dense_logits = self.logits.toarray()
    dense_logits[dense_logits == 0] = zero_logit_value
    return dense_logits


# reference for pero_ocr.core.layout:TextLine.get_full_logprobs
def get_full_logprobs(self, zero_logit_value: int = -80):
    dense_logits = self.get_dense_logits(zero_logit_value)
    return log_softmax(dense_logits)


# reference for pero_ocr.core.layout:PageLayout._gen_logits
def _gen_logits(self, missing_line_logits_ok=False):
    """
    Generates logits as dictionary of sparse matrices
    :return: logit dictionary
    """
    logits = []
    characters = []
    logit_coords = []
    for region in self.regions:
        for line in region.lines:
            if missing_line_logits_ok and \
                    (line.logits is None or line.characters is None or line.logit_coords is None):
                continue
            if line.logits is None:
                raise Exception(f'Missing logits for line {line.id}.')
            if line.characters is None:
                raise Exception(f'Missing logits mapping to characters for line {line.id}.')
            if line.logit_coords is None:
                raise Exception(f'Missing logits coords for line {line.id}.')
        logits += [(line.id, line.logits) for line in region.lines]
        characters += [(line.id, line.characters) for line in region.lines]
        logit_coords += [(line.id, line.logit_coords) for line in region.lines]
    logits_dict = dict(logits)
    logits_dict['line_characters'] = dict(characters)
    logits_dict['logit_coords'] = dict(logit_coords)
    return logits_dict


# reference for pero_ocr.core.layout:PageLayout.save_logits
def save_logits(self, file_name: str, missing_line_logits_ok=False):
    """Save page logits as a pickled dictionary of sparse matrices.
    :param file_name: to pickle into.
    """
    logits_dict = self._gen_logits(missing_line_logits_ok=missing_line_logits_ok)
    with open(file_name, 'wb') as f:
        pickle.dump(logits_dict, f, protocol=4)


# reference for pero_ocr.core.layout:PageLayout.save_logits_bytes
def save_logits_bytes(self, missing_line_logits_ok=False):
    """
    Return page logits as pickled dictionary bytes.
    :return: pickled logits as bytes like object
    """
    logist_dict = self._gen_logits(missing_line_logits_ok=missing_line_logits_ok)
    return pickle.dumps(logist_dict, protocol=pickle.HIGHEST_PROTOCOL)


# reference for pero_ocr.core.layout:PageLayout.load_logits
def load_logits(self, file: str):
    """Load pagelogits as a pickled dictionary of sparse matrices.
    :param file: file name to pickle into, or already loaded bytes like object
    """
    if isinstance(file, bytes):
        logits_dict = pickle.loads(file)
    else:
        with open(file, 'rb') as f:
            logits_dict = pickle.load(f)

    if 'line_characters' in logits_dict:
        characters = logits_dict['line_characters']
    else:
        characters = dict([(k, None) for k in logits_dict])

    if 'logit_coords' in logits_dict:
        logit_coords = logits_dict['logit_coords']
    else:
        logit_coords = dict([(k, [None, None]) for k in logits_dict])

    for region in self.regions:
        for line in region.lines:
            if line.id not in logits_dict:
                continue
            line.logits = logits_dict[line.id]
            line.characters = characters[line.id]
            line.logit_coords = logit_coords[line.id]


# reference for pero_ocr.decoding.decoding_itf:prepare_dense_logits
def itf_prepare_dense_logits(logits):
    dense_logits = torch.from_numpy(logits.toarray()).float()
    dense_logits[dense_logits == 0] = ZERO_LOGITS
    dense_logits = F.log_softmax(dense_logits, dim=-1).data

    return dense_logits.numpy()


# reference for pero_ocr.document_ocr.page_parser:prepare_dense_logits
def pp_prepare_dense_logits(line):
    if line.logits is None:
        raise MissingLogits(f"Line {line.id} has {line.logits} in place of logits")

    return line.get_full_logprobs()

