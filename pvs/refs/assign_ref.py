# Reference forms for line-to-region assignment (never imported, only parsed).
# reference for pero_ocr.layout_engines.layout_helpers:assign_lines_to_regions
def assign_lines_to_regions(baseline_list, heights_list, textline_list, regions):
    min_line = np.zeros([len(textline_list), 2], dtype=np.float32)
    max_line = np.zeros([len(textline_list), 2], dtype=np.float32)
    for textline, min_, max_ in zip(baseline_list, min_line, max_line):
        min_[:] = textline.min(axis=0)
        max_[:] = textline.max(axis=0)

    min_region = np.zeros([len(regions), 2], dtype=np.float32)
    max_region = np.zeros([len(regions), 2], dtype=np.float32)
    for region, min_, max_ in zip(regions, min_region, max_region):
        min_[:] = region.polygon.min(axis=0)
        max_[:] = region.polygon.max(axis=0)

    candidates = np.logical_and(
        np.logical_or(
            max_line[:, np.newaxis, 1] <= min_region[np.newaxis, :, 1],
            min_line[:, np.newaxis, 1] >= max_region[np.newaxis, :, 1]),
        np.logical_or(
            max_line[:, np.newaxis, 0] <= min_region[np.newaxis, :, 0],
            min_line[:, np.newaxis, 0] >= max_region[np.newaxis, :, 0]),
    )
    candidates = np.logical_not(candidates)
    for line_id, region_id in zip(*candidates.nonzero()):
        baseline = baseline_list[line_id]
        heights = heights_list[line_id]
        textline = textline_list[line_id]
        region = regions[region_id]
        baseline_intersection, textline_intersection = mask_textline_by_region(
            baseline, textline, region.polygon)
        if baseline_intersection is not None and textline_intersection is not None:
            new_textline = TextLine(
                id='{}-l{:03d}'.format(region.id, line_id+1),
                baseline=baseline_intersection,
                polygon=textline_intersection,
                heights=heights
            )
            region.lines.append(new_textline)

    return regions


# reference for pero_ocr.layout_engines.layout_helpers:mask_textline_by_region
def mask_textline_by_region(baseline, textline, region):
    region_shpl = sg.Polygon(region)
    baseline_shpl = sg.LineString(baseline)

    try:
        if not baseline_shpl.intersects(region_shpl):
            return None, None
    except shapely.errors.TopologicalError:
        return None, None

    textline_shpl = sg.Polygon(textline)
    if not textline_shpl.is_valid:  # this can happen after merging two lines
        print('Invalid textline encountered, replacing it with convex hull...')
        textline_shpl = textline_shpl.convex_hull
    if not region_shpl.is_valid:
        warnings.warn("Input region contains self-intersections, replacing it with convex hull...")
        region_shpl = region_shpl.convex_hull
    baseline_is = region_shpl.intersection(baseline_shpl)
    textline_is = region_shpl.intersection(textline_shpl)

    if isinstance(textline_is, sg.MultiPolygon):  # this can happen generally with some combinations of layout and line detection
        areas = np.array([poly.area for poly in textline_is.geoms])
        textline_is = textline_is.geoms[np.argmax(areas)]
    if isinstance(baseline_is, sg.MultiLineString):  # this can happen generally with some combinations of layout and line detection
        lengths = np.array([line.length for line in baseline_is.geoms])
        baseline_is = baseline_is.geoms[np.argmax(lengths)]

    if isinstance(baseline_is, sg.LineString) and isinstance(textline_is, sg.Polygon) and baseline_is.length > 2:
        return np.asarray(baseline_is.coords), np.asarray(textline_is.exterior.coords)
    else:
        return None, None


# reference for pero_ocr.document_ocr.page_parser:LayoutExtractor.process_page
def le_process_page(self, img, page_layout: PageLayout):
    if self.detect_regions or self.detect_lines:
        if self.detect_regions:
            page_layout.regions = []
        if self.detect_lines:
            for region in page_layout.regions:
                region.lines = []

        if self.multi_orientation:
            orientations = [0, 1, 3]
        else:
            orientations = [0]

        for rot in orientations:
            regions = []
            p_list, b_list, h_list, t_list = self.engine.detect(img, rot=rot)
            if self.detect_regions:
                for id, polygon in enumerate(p_list):
                    if rot > 0:
                        id = 'r{:03d}_{}'.format(id, rot)
                    else:
                        id = 'r{:03d}'.format(id)
                    region = RegionLayout(id, polygon)
                    regions.append(region)
            if self.detect_lines:
                if not self.detect_regions:
                    regions = page_layout.regions
                regions = helpers.assign_lines_to_regions(
                    b_list, h_list, t_list, regions)
            if self.detect_regions:
                page_layout.regions += regions

    if self.merge_lines:
        for region in page_layout.regions:
            while True:
                original_line_count = len(region.lines)
                r_b_list, r_h_list = helpers.merge_lines(
                    [line.baseline for line in region.lines],
                    [line.heights for line in region.lines]
                )
                r_t_list = [helpers.baseline_to_textline(b, h) for b, h in zip(r_b_list, r_h_list)]
                region.lines = []
                region = helpers.assign_lines_to_regions(
                    r_b_list, r_h_list, r_t_list, [region])[0]
                if len(region.lines) == original_line_count:
                    break

    if self.detect_straight_lines_in_regions or self.adjust_heights or self.adjust_baselines:
        maps, ds = self.engine.parsenet.get_maps_with_optimal_resolution(img)

    if self.detect_straight_lines_in_regions:
        for region in page_layout.regions:
            pb_list, ph_list, pt_list = detect_lines_in_region(region.polygon, maps, ds)
            region.lines = []
            region = helpers.assign_lines_to_regions(pb_list, ph_list, pt_list, [region])[0]

    if self.adjust_heights:
        for line in page_layout.lines_iterator():
            sample_points = helpers.resample_baselines(
                [line.baseline], num_points=40)[0]
            line.heights = self.engine.get_heights(maps, ds, sample_points)
            line.polygon = helpers.baseline_to_textline(
                line.baseline, line.heights)

    if self.adjust_baselines:
        crop_engine = cropper.EngineLineCropper(
            line_height=32, poly=0, scale=1)
        for line in page_layout.lines_iterator():
            line.baseline = refine_baseline(line.baseline, line.heights, maps, ds, crop_engine)
            line.polygon = helpers.baseline_to_textline(line.baseline, line.heights)
    return page_layout


# reference for pero_ocr.document_ocr.page_parser:TextlineExtractorSimple.process_page
def tes_process_page(self, img, page_layout: PageLayout):
    for region in page_layout.regions:
        b_list, h_list, t_list = self.engine.detect_lines(
            img, region.polygon)
        for line_num, (baseline, heights, textline) in enumerate(zip(b_list, h_list, t_list)):
            new_textline = TextLine(
                id='{}-l{:03d}'.format(region.id, line_num+1),
                baseline=baseline,
                polygon=textline,
                heights=heights
            )
            region.lines.append(new_textline)
    return page_layout


# reference for pero_ocr.layout_engines.layout_helpers:merge_lines
def merge_lines(baselines, heights):
    """Merge lines on similar vertical offsets. Useful as postprocessing with
    known regions.
    :param baselines: list of baselines to merge
    :param heights: list of respective textline heights
    """

    rotation = get_rotation(baselines)
    baselines = [rotate_coords(baseline, rotation, (0, 0)) for baseline in baselines]
    baselines = [baseline.tolist() for baseline in baselines]

    merged_lines = list()
    lines_to_merge = list()
    for i in range(len(baselines)):
        lines_to_merge_i = list()
        for j in range(len(baselines)):
            if i != j:
                avg_hpos_1 = np.average(np.asarray(baselines[i])[:, 1]).astype(np.int32)
                avg_hpos_2 = np.average(np.asarray(baselines[j])[:, 1]).astype(np.int32)
                min_i = np.amin(np.asarray(baselines[i])[:, 0]).astype(np.int32)
                max_i = np.amax(np.asarray(baselines[i])[:, 0]).astype(np.int32)
                min_j = np.amin(np.asarray(baselines[j])[:, 0]).astype(np.int32)
                max_j = np.amax(np.asarray(baselines[j])[:, 0]).astype(np.int32)
                v_overlay = (min_i > min_j and max_i < max_j) or (min_j > min_i and max_j < max_i)
                v_gap = np.maximum(min_i - max_j, min_j - max_i)
                h_overlay = np.minimum(avg_hpos_1 + heights[i][1], avg_hpos_2 + heights[j][1]) - np.maximum(avg_hpos_1 - heights[i][0], avg_hpos_2 - heights[j][0])

                h_overlay_sufficient = h_overlay > (0.7 * np.minimum(heights[i][0] + heights[i][1], heights[j][0] + heights[j][1]))
                v_gap_not_too_big = v_gap < 2 * np.minimum(heights[i][0] + heights[i][1], heights[j][0] + heights[j][1])
                if h_overlay_sufficient and not v_overlay and v_gap_not_too_big:
                    if i not in merged_lines:
                        lines_to_merge_i.append(i)
                        merged_lines.append(i)
                    if j not in merged_lines:
                        lines_to_merge_i.append(j)
                        merged_lines.append(j)
        lines_to_merge.append(lines_to_merge_i)

    for line_group in lines_to_merge:
        if len(line_group) > 0:
            new_line = list()
            new_height = np.zeros(2)
            for l_num in line_group:
                new_line += baselines[l_num]
                if heights[l_num][0] > new_height[0]:
                    new_height[0] = heights[l_num][0]
                if heights[l_num][1] > new_height[1]:
                    new_height[1] = heights[l_num][1]
            new_line_inds = np.argsort(np.asarray(new_line)[:, 0])
            baselines.append(resample_baselines([np.asarray([new_line[x] for x in new_line_inds.tolist()])])[0])
            heights.append(new_height.tolist())

    baselines = filter_list(baselines, merged_lines)
    heights = filter_list(heights, merged_lines)

    baselines = [np.asarray(baseline) for baseline in baselines]

    # stable sort by the y-coord of the first point: lines on the same y-coord keep their order
    order = sorted(range(len(baselines)), key=lambda i: baselines[i][0][1])
    baselines = [baselines[i] for i in order]
    heights = [heights[i] for i in order]

    baselines = [rotate_coords(baseline, -rotation, (0, 0)) for baseline in baselines]

    return baselines, heights


# reference for pero_ocr.layout_engines.layout_helpers:filter_list
def filter_list(items_list, indices_to_remove):
    """Remove list items by their indices.
    :param items_list: target list
    :param indices_to_remove: indices of items to be removed from target list
    """

    def normalize(idx, len_data):
        if idx < -len_data or idx > len_data - 1:
            raise ValueError(f'Cannot remove index {idx} from {len_data}-long data')

        return idx if idx >= 0 else len_data + idx

    normalized_to_remove = [normalize(x, len(items_list)) for x in indices_to_remove]

    return [x for i, x in enumerate(items_list) if i not in normalized_to_remove]

