# Reference forms for network inference wrappers and engine construction (never imported, only parsed).
# reference for pero_ocr.layout_engines.torch_parsenet:Net.__init__
def net_init(self, model_path, device, max_mp=5):
    self.max_megapixels = max_mp if max_mp is not None else 5

    self.device = device
    if self.device.type == "cpu":
        model_path += ".cpu"

    if model_path is not None:
        self.net = torch.jit.load(model_path, map_location=self.device)
    else:
        self.net = None


# reference for pero_ocr.layout_engines.torch_parsenet:TorchParseNet.__init__
def pn_init(self, model_path, device, downsample=4, max_mp=5, detection_threshold=0.2, adaptive_downsample=True):

    super().__init__(model_path, device=device, max_mp=max_mp)

    self.detection_threshold = detection_threshold
    self.adaptive_downsample = adaptive_downsample
    self.init_downsample = downsample
    self.last_downsample = downsample
    self.downsample_line_pixel_adapt_threshold = 100
    self.min_line_processing_height = 9
    self.max_line_processing_height = 15
    self.optimal_line_processing_height = 12
    self.min_downsample = 1
    self.max_downsample = 8


# reference for pero_ocr.layout_engines.torch_parsenet:TorchParseNet.get_maps
def pn_get_maps(self, img, downsample):
    '''
    ParseNet CNN inference
    '''

    img = cv2.resize(img, (0, 0), fx=1/downsample, fy=1/downsample, interpolation=cv2.INTER_AREA)

    new_shape_x = int(np.ceil(img.shape[0] / 64) * 64)
    new_shape_y = int(np.ceil(img.shape[1] / 64) * 64)
    test_img_canvas = np.zeros((1, new_shape_x, new_shape_y, 3), dtype=np.uint8)
    test_img_canvas[0, :img.shape[0], :img.shape[1], :] = img

    with torch.no_grad():
        print(f'NET INPUT {new_shape_x * new_shape_y} Mpx.')
        test_img_canvas = torch.from_numpy(test_img_canvas).to(self.device).float().permute(0, 3, 1, 2) * (1/255.)
        out_map, _ = self.net(test_img_canvas)
        out_map = out_map.permute(0, 2, 3, 1).cpu().numpy()
    if self.device != 'cuda':
        torch.cuda.empty_cache()
    out_map = out_map[0, :img.shape[0], :img.shape[1], :]

    return out_map


# reference for pero_ocr.layout_engines.torch_parsenet:TorchParseNet.get_maps_with_optimal_resolution
def get_maps_with_optimal_resolution(self, img):
    '''
    Memory-safe Parsenet CNN inference with optimal downsampling
    '''
    # check that big images are rescaled before first CNN run

    first_downsample = max(
        self.last_downsample,
        np.sqrt((img.shape[0] * img.shape[1]) / (self.max_megapixels * 10e5)))

    # first run with default downsample
    net_downsample = first_downsample
    out_map = self.get_maps(img, net_downsample)
    if not self.adaptive_downsample:
        return out_map, net_downsample

    second_downsample = first_downsample
    if (out_map[:, :, 2] > self.detection_threshold).sum() > self.downsample_line_pixel_adapt_threshold:
        med_height = self.get_med_height(out_map)
        #print('MEDIAN HEIGHT', med_height, med_height * first_downsample)
        if med_height > self.max_line_processing_height or med_height < self.min_line_processing_height:
            second_downsample = first_downsample * (med_height / self.optimal_line_processing_height)
            second_downsample = min(second_downsample, self.max_downsample)
            second_downsample = max(second_downsample, self.min_downsample)
            self.last_downsample = second_downsample
            second_downsample = max(
                self.last_downsample,
                np.sqrt((img.shape[0] * img.shape[1]) / (self.max_megapixels * 10e5)))

            if second_downsample / first_downsample < 0.8 or second_downsample / first_downsample > 1.2:
                net_downsample = second_downsample
                out_map = self.get_maps(img, net_downsample)

    return out_map, net_downsample


# reference for pero_ocr.layout_engines.torch_parsenet:TorchParseNet.get_med_height
def get_med_height(self, out_map):
    '''
    Compute median line height from CNN output
    '''
    heights = (out_map[:, :, 2] > self.detection_threshold).astype(float) * out_map[:, :, 0]
    med_height = np.median(heights[heights > 0])

    return med_height


# reference for pero_ocr.layout_engines.cnn_layout_engine:LayoutEngine.__init__
def le_init(self, model_path, device, downsample=4, max_mp=5, detection_threshold=0.2, adaptive_downsample=True,
             line_end_weight=1.0, vertical_line_connection_range=5, smooth_line_predictions=True,
             paragraph_line_threshold=0.3):
    self.parsenet = TorchParseNet(
        model_path,
        downsample=downsample,
        adaptive_downsample=adaptive_downsample,
        device=device,
        max_mp=max_mp,
        detection_threshold=detection_threshold
    )

    self.line_end_weight = line_end_weight
    self.vertical_line_connection_range = vertical_line_connection_range
    self.smooth_line_predictions = smooth_line_predictions
    self.line_detection_threshold = detection_threshold
    self.adaptive_downsample = adaptive_downsample

    self.paragraph_line_threshold = paragraph_line_threshold

    params = ' '.join([f'{name}:{str(getattr(self, name))}'
              for name in ['line_end_weight', 'vertical_line_connection_range', 'smooth_line_predictions', 'line_detection_threshold', 'adaptive_downsample']])
    print(f'LayoutEngine params are {params}')


# reference for pero_ocr.ocr_engine.pytorch_ocr_engine:PytorchEngineLineOCR.__init__
def py_init(self, json_def, device, batch_size=8):
    super(PytorchEngineLineOCR, self).__init__(json_def, device, batch_size=batch_size)

    self.net_subsampling = 4
    self.characters = list(self.characters) + [u'\u200B']

    self._load_exported_model()

    if self.embed_id == "mean":
        self.embed_id = self.get_mean_embed_id()


# reference for pero_ocr.ocr_engine.transformer_ocr_engine:TransformerEngineLineOCR.__init__
def te_init(self, json_def, device, batch_size=4):
    super(TransformerEngineLineOCR, self).__init__(json_def, device, batch_size=batch_size, model_type="transformer")

    self.characters = list(self.characters) + [u'\u200B', '']

    self.sentence_boundary_ind = len(self.characters) - 2
    self.ignore_ind = len(self.characters) - 1

    self.net = transformer.build_net(net=self.net_name,
                                     input_height=self.line_px_height,
                                     input_channels=3,
                                     nb_output_symbols=len(self.characters) - 2)

    print(self.net)

    self.net.load_state_dict(torch.load(self.checkpoint))
    self.net.eval()
    self.net = self.net.to(device)


# reference for pero_ocr.ocr_engine.transformer:build_net
def build_net(net, input_height, input_channels, nb_output_symbols, max_seq_len=2000):
    config = json.loads(net) if type(net) == str else net
    dim_model = config['dim_model']
    dim_ff = config['dim_ff']
    heads = config['heads']
    dropout_rate = 0.0
    encoder_layers = config['encoder_layers']
    decoder_layers = config['decoder_layers']
    conv_subsampling = config['conv_subsampling']

    conv_frontend = ConvolutionalEncoder(
        in_height=input_height,
        in_channels=input_channels,
        conv_subsampling=conv_subsampling,
        out_channels=dim_model
    )
    encoder = LineSelfAttentionEncoder(
        dropout=dropout_rate,
        max_seq_len=max_seq_len,
        dim_model=dim_model,
        dim_ff=dim_ff,
        nb_layers=encoder_layers,
        nb_heads=heads
    )
    model = TransformerOCR(
        encoder_frontend=conv_frontend,
        encoder=encoder,
        num_classes=nb_output_symbols + 2,
        dropout=dropout_rate,
        nb_layers=decoder_layers,
        dim_model=dim_model,
        dim_ff=dim_ff,
        max_seq_len=max_seq_len,
        nb_heads=heads,
    )

    return model


# reference for pero_ocr.ocr_engine.transformer:TransformerOCR.__init__
def ocr_init(self, encoder_frontend, encoder, num_classes, dropout, nb_layers=4, dim_model=512, dim_ff=2048,
             max_seq_len=500, nb_heads=8):
    super().__init__()

    self.max_seq_len = max_seq_len
    self.encoder_frontend = encoder_frontend
    self.encoder = encoder
    self.dim_model = dim_model
    self.num_classes = num_classes

    self.trans_decoder = Decoder(nb_layers, dim_model, nb_heads, dim_ff, dropout=dropout,
                                 max_seq_len=max_seq_len)

    mask = torch.triu(torch.full((max_seq_len, max_seq_len), - float("inf")), diagonal=1)
    self.register_buffer("mask", mask, persistent=False)

    self.pos_encoder = PositionalEncoding(dim_model, max_len=max_seq_len)

    self.dec_embeder = torch.nn.Embedding(num_classes, dim_model)
    self.dec_out_proj = torch.nn.Linear(dim_model, num_classes)


# reference for pero_ocr.ocr_engine.transformer:PositionalEncoding.__init__
def pe_init(self, d_model, max_len=5000):
    super().__init__()

    pe = torch.zeros(max_len, d_model)
    position = torch.arange(0, max_len, dtype=torch.float).unsqueeze(1)
    div_term = torch.exp(torch.arange(0, d_model, 2).float() * (-math.log(10000.0) / d_model))
    pe[:, 0::2] = torch.sin(position * div_term)
    pe[:, 1::2] = torch.cos(position * div_term)
    pe = pe.unsqueeze(0).transpose(0, 1)
    self.register_buffer('pe', pe, persistent=False)

