# Reference forms for error summaries (never imported, only parsed).
# reference for pero_ocr.error_summary:ErrorsSummary.__init__
def es_init(self, nb_lines_summarized, ref_len, nb_errors, nb_subs, nb_inss, nb_dels, confusions, ending_errors):
    self.nb_lines_summarized = nb_lines_summarized
    self.nb_errors = nb_errors
    self.nb_subs = nb_subs
    self.nb_inss = nb_inss
    self.nb_dels = nb_dels
    self.ref_len = ref_len
    self.confusions = confusions
    self.ending_errors = ending_errors

    if self.ref_len > 0:
        self.error_rate = self.nb_errors / self.ref_len
    else:
        self.error_rate = math.inf


# reference for pero_ocr.error_summary:ErrorsSummary.from_lists
def from_lists(cls, ref, hyp):
    ref_len = len(ref)
    nb_errors = levenshtein_distance(ref, hyp)

    alignment = levenshtein_alignment(hyp, ref)
    _, _, nb_inss, nb_dels, nb_subs = edit_stats_for_alignment(alignment)

    confusions = defaultdict(Counter)
    for hyp_sym, ref_sym in alignment:
        confusions[ref_sym][hyp_sym] += 1

    match_types = [get_match_type(a[1], a[0]) for a in alignment]
    ending_mistakes = get_non_matching_suffix(match_types)
    end_errors = BoundaryErrorsSummary(ending_mistakes)

    return cls(1, ref_len, nb_errors, nb_subs, nb_inss, nb_dels, confusions, end_errors)


# reference for pero_ocr.error_summary:ErrorsSummary.aggregate
def aggregate(errors):
    total_nb_lines = 0
    total_ref_len = 0
    total_nb_errors = 0
    total_nb_subs = 0
    total_nb_inss = 0
    total_nb_dels = 0
    total_ending_erros = BoundaryErrorsSummary.empty_summary()
    total_confusions = defaultdict(Counter)

    for err in errors:
        total_nb_lines += err.nb_lines_summarized
        total_ref_len += err.ref_len
        total_nb_errors += err.nb_errors
        total_nb_subs += err.nb_subs
        total_nb_inss += err.nb_inss
        total_nb_dels += err.nb_dels

        for k in err.confusions:
            total_confusions[k].update(err.confusions[k])

        total_ending_erros += err.ending_errors

    return ErrorsSummary(
        total_nb_lines, total_ref_len, total_nb_errors,
        total_nb_subs, total_nb_inss, total_nb_dels,
        total_confusions, total_ending_erros
    )


# reference for pero_ocr.error_summary:get_match_type
def get_match_type(ref_sym, hyp_sym):
    if ref_sym is None and hyp_sym is None:
        raise AssertionError("Invalid alignment None-None")

    if ref_sym == hyp_sym:
        return MatchTypes.C
    elif ref_sym is None:
        return MatchTypes.I
    elif hyp_sym is None:
        return MatchTypes.D
    else:
        return MatchTypes.S

