# Reference forms for greedy CTC decoding (never imported, only parsed).
# reference for pero_ocr.decoding.decoders:GreedyDecoder.__call__
def greedy_call(self, logits, max_unnormalization=1e-5):
    if logprobs_max_deviation(logits) > max_unnormalization:
        raise ValueError('Expected properly normalized logits')

    maxes = logits.max(axis=1)
    argmaxes = logits.argmax(axis=1)

    reduced = [g[0] for g in itertools.groupby(argmaxes)]
    decoded = self.symbol_separator.join(self._letters[ind] for ind in reduced if ind != self._blank_ind)

    bag_of_hyps = BagOfHypotheses()
    bag_of_hyps.add(decoded, logsumexp(maxes))

    return bag_of_hyps


# reference for pero_ocr.ocr_engine.pytorch_ocr_engine:greedy_decode_ctc
def greedy_decode_ctc(scores_probs, chars):
    if len(scores_probs.shape) == 2:
        scores_probs = torch.cat((scores_probs[:, 0:1], scores_probs), axis=1)
        scores_probs[:, 0] = -1000
        scores_probs[-1, 1] = 1000
    else:
        scores_probs = torch.cat((scores_probs[:, :, 0:1], scores_probs), axis=2)
        scores_probs[:, :, 0] = -1000
        scores_probs[:, -1, 0] = 1000

    best = torch.argmax(scores_probs, 1) + 1
    mask = best[:, :-1] == best[:, 1:]
    best = best[:, 1:]
    best[mask] = 0
    best[best == scores_probs.shape[1]] = 0
    best = best.cpu().numpy() - 1

    outputs = []
    for line in best:
        line = line[np.nonzero(line >= 0)]
        outputs.append(''.join([chars[c] for c in line]))
    return outputs

