# Reference forms for the LM wrapper (never imported, only parsed).
# reference for pero_ocr.decoding.lm_wrapper:HiddenState.__getitem__
def hs_getitem(self, indices):
    h = self._for_every(lambda h: h[:, indices])
    return HiddenState(h)


# reference for pero_ocr.decoding.lm_wrapper:HiddenState._for_every
def hs_for_every(self, op):
    if isinstance(self._h, tuple):
        return tuple(op(part) for part in self._h)
    else:
        return op(self._h)


# reference for pero_ocr.decoding.lm_wrapper:HiddenState.output
def hs_output(self):
    h = self._first()
    return h[-1]


# reference for pero_ocr.decoding.lm_wrapper:HiddenState._first
def hs_first(self):
    if isinstance(self._h, tuple):
        return self._h[0]
    else:
        return self._h


# reference for pero_ocr.decoding.lm_wrapper:HiddenState.prepare_for_torch
def hs_prepare(self):
    return self._h


# reference for pero_ocr.decoding.lm_wrapper:HiddenState.__setitem__
def hs_setitem(self, idx, other):
    if isinstance(self._h, tuple):
        for dst, src in zip(self._h, other._h):
            dst[:, idx] = src
    else:
        self._h[:, idx] = other._h


# reference for pero_ocr.decoding.lm_wrapper:HiddenState.__add__
def hs_add(self, other):
    if isinstance(self._h, tuple):
        assert(isinstance(other._h, tuple))
        assert(len(self._h) == len(other._h))

    if self._first().size == 0:
        new_h = other._h
    elif other._first().size == 0:
        new_h = self._h
    else:
        if isinstance(self._h, tuple):
            new_h = tuple(torch.cat([s, o], axis=1) for s, o in zip(self._h, other._h))
        else:
            new_h = torch.cat([self._h, other._h], axis=1)

    return HiddenState(new_h)


# reference for pero_ocr.decoding.lm_wrapper:LMWrapper.advance_h0
def advance_h0(self, x, h0):
    with torch.no_grad():
        pyth_h = h0.prepare_for_torch()
        pyth_x = torch.from_numpy(x).to(dtype=torch.long, device=self._lm_device).unsqueeze(1) + self._lm._unused_prefix_len
        _, h_new = self._lm.model(pyth_x, pyth_h)
    return HiddenState(h_new)


# reference for pero_ocr.decoding.lm_wrapper:LMWrapper.add_line_end
def add_line_end(self, h):
    with torch.no_grad():
        pyth_h = h.prepare_for_torch()

        line_break = self._lm.vocab[self._start_symbol]
        batch_size = pyth_h[0].shape[1]
        pyth_x = torch.tensor([line_break] * batch_size).to(dtype=torch.long, device=self._lm_device).unsqueeze(1)
        _, h_new = self._lm.model(pyth_x, pyth_h)
    return HiddenState(h_new)


# reference for pero_ocr.decoding.lm_wrapper:LMWrapper.log_probs
def log_probs(self, h):
    with torch.no_grad():
        pyth_h = h.output()
        y = self._lm.decoder(pyth_h)

        if len(y.shape) == 3:
            assert(y.shape[1] == 1)
            y = y[0]

    return y.detach().to('cpu').numpy()[:, self._lm._unused_prefix_len:]


# reference for pero_ocr.decoding.lm_wrapper:LMWrapper.eos_scores
def eos_scores(self, h):
    with torch.no_grad():
        pyth_h = h.output()
        y = self._lm.decoder(pyth_h)

    if len(y.shape) == 3:
        assert(y.shape[1] == 1)
        y = y[0]

    return y.detach().to('cpu').numpy()[:, self._lm.vocab['</s>']]


# reference for pero_ocr.decoding.lm_wrapper:LMWrapper.initial_h
def initial_h(self, batch_size):
    with torch.no_grad():
        h0 = self._lm.model.init_hidden(batch_size)
        start_input = self._lm.vocab[self._start_symbol]
        x1 = torch.tensor([[start_input]]).to(self._lm_device)
        _, h1 = self._lm.model(x1, h0)
    return HiddenState(h1)


# reference for pero_ocr.decoding.lm_wrapper:LMWrapper.initial_h_from_line
def initial_h_from_line(self, line):
    with torch.no_grad():
        h0 = self._lm.model.init_hidden(1)
        symbols = [self._start_symbol] + list(line) + [self._start_symbol]
        inputs = [self._lm.vocab[s] for s in symbols]
        x1 = torch.tensor([inputs]).to(self._lm_device)
        _, h1 = self._lm.model(x1, h0)
    return HiddenState(h1)


# reference for pero_ocr.decoding.lm_wrapper:LMWrapper.__init__
def lm_init(self, lm, decoder_symbols, device):
    self._lm = lm
    self._start_symbol = '</s>'
    self._lm.eval()

    self._lm_device = device
    self._lm.to(device)

    self._dict = {}
    for i, c in enumerate(decoder_symbols):
        self._dict[i] = self._lm.vocab[c]


# reference for pero_ocr.decoding.decoders:build_boh
def build_boh(prefixes, probs, lm_probs=None, lm_weight=1.0):
    bag_of_hyps = BagOfHypotheses(lm_weight)

    if lm_probs is not None:
        for prefix, P_prefix, P_lm in zip(prefixes, probs, lm_probs):
            bag_of_hyps.add(prefix, P_prefix, P_lm)
    else:
        for prefix, P_prefix in zip(prefixes, probs):
            bag_of_hyps.add(prefix, P_prefix, 0)

    bag_of_hyps.sort()
    return bag_of_hyps


# reference for pero_ocr.decoding.bag_of_hypotheses:BagOfHypotheses.add
def boh_add(self, transcript, visual_sc, lm_sc=None):
    self._hyps.append(Hypothese(transcript, visual_sc, lm_sc))


# reference for pero_ocr.decoding.bag_of_hypotheses:BagOfHypotheses.sort
def boh_sort(self):
    self._hyps.sort(key=lambda hyp: hyp.vis_sc, reverse=True)


# reference for pero_ocr.decoding.bag_of_hypotheses:BagOfHypotheses.__init__
def boh_init(self, lm_weight=1.0):
    self._hyps = []
    self.lm_weight = lm_weight

# reference for pero_ocr.decoding.bag_of_hypotheses:BagOfHypotheses.best_hyp
def boh_best_hyp(self):
    return max(self._hyps, key=lambda hyp: hyp.vis_sc + (self.lm_weight * hyp.lm_sc if hyp.lm_sc is not None else 0)).transcript

