# Reference forms for geometric helpers of the layout stages (never imported, only parsed).
# reference for pero_ocr.layout_engines.layout_helpers:resample_baselines
def resample_baselines(baselines, num_points=10):
    baselines_resampled = []

    for baseline in baselines:
        vertical = np.abs(baseline[0, 0]-baseline[-1, 0]) < np.abs(baseline[0, 1]-baseline[-1, 1])
        if vertical:
            baseline = np.stack((baseline[:, -1], baseline[:, 0]), axis=1)
        if baseline.shape[0] == 2:
            line_interpf = np.poly1d(np.polyfit(baseline[:, 0], baseline[:, 1], 1))
        else:
            line_interpf = np.poly1d(np.polyfit(baseline[:, 0], baseline[:, 1], 2))
        new_xs = np.linspace(baseline[0, 0], baseline[-1, 0], num_points)
        new_ys = line_interpf(new_xs)
        baseline_resampled = np.stack((new_xs, new_ys), axis=-1)
        if vertical:
            baseline_resampled = np.stack((baseline_resampled[:, -1], baseline_resampled[:, 0]), axis=1)
        baselines_resampled.append(baseline_resampled)
    return baselines_resampled


# reference for pero_ocr.layout_engines.layout_helpers:get_rotation
def get_rotation(lines):
    """Get mean baseline tilt as angle.
    :param baselines: list of baselines
    """
    lines_info = list()

    for line in lines:
        first_line_point = line[0].astype(np.float64)
        last_line_point = line[-1].astype(np.float64)

        if last_line_point[1] != first_line_point[1]:
            rotation = math.degrees(
                np.arctan2((last_line_point[1] - first_line_point[1]), (last_line_point[0] - first_line_point[0])))
            length = math.sqrt(
                math.pow(last_line_point[0] - first_line_point[0], 2)
                + math.pow(last_line_point[1] - first_line_point[1], 2)
            )
            lines_info.append((length, rotation))
        else:
            lines_info.append((0, 0))

    lines_info = sorted(lines_info, key=lambda x: x[0], reverse=True)
    lines_info = lines_info[0:int(len(lines_info)/2)]
    rotation_sum = sum(item[1] for item in lines_info)
    rotation = 0

    if len(lines_info) > 0:
        rotation = rotation_sum/len(lines_info)

    return rotation


# reference for pero_ocr.layout_engines.layout_helpers:rotate_coords
def rotate_coords(coords, rotation, center):
    """Rotate coords around given center point
    :param coords: points to rotate
    :param rotation: rotation angle
    :param center: center of rotation
    """
    coords = coords.copy()
    M = cv2.getRotationMatrix2D((center), rotation, 1)
    change_coords = [[item[0], item[1]] for item in coords]
    coords = np.array([change_coords])
    rotated_coords = cv2.transform(coords, M)[0]
    out_coords = [[item[0], item[1]] for item in rotated_coords]

    return np.asarray(out_coords)


# reference for pero_ocr.layout_engines.layout_helpers:check_polygon
def check_polygon(polygon):
    '''
    Check that polygon does not contain any self-intersections. If it does,
    return the respective convex hull.
    '''
    if not polygon.is_valid:
        polygon = polygon.convex_hull
    return polygon


# reference for pero_ocr.layout_engines.layout_helpers:region_from_textlines
def region_from_textlines(region_textlines):
    '''
    Convert textline list to Shapely polygon using alpha shape
    '''
    max_spacings = []
    for textline in region_textlines:
        pts_1 = textline[1:]
        pts_2 = textline[:-1]
        spacings = np.linalg.norm(
            np.asarray(pts_1) - np.asarray(pts_2), axis=1)
        max_spacings.append(spacings.max())
    max_spacing = np.asarray(max_spacings).max()
    region_poly_points = np.concatenate(region_textlines, axis=0)

    region_poly = alpha_shape(region_poly_points, max_spacing)

    for textline in region_textlines:
        textline_poly = check_polygon(sg.Polygon(textline))
        if not region_poly.contains(textline_poly):
            region_poly = region_poly.union(textline_poly)

    return region_poly


# reference for pero_ocr.layout_engines.layout_helpers:alpha_shape
def alpha_shape(points, alpha):
    '''
    Get shapely polygon around a point cloud using alpha shape algorithm
    '''
    if len(points) < 4:
        return sg.MultiPoint(list(points)).convex_hull

    tri = Delaunay(points)
    triangles = points[tri.simplices]
    a = ((triangles[:, 0, 0] - triangles[:, 1, 0]) ** 2 + (triangles[:, 0, 1] - triangles[:, 1, 1]) ** 2) ** 0.5
    b = ((triangles[:, 1, 0] - triangles[:, 2, 0]) ** 2 + (triangles[:, 1, 1] - triangles[:, 2, 1]) ** 2) ** 0.5
    c = ((triangles[:, 2, 0] - triangles[:, 0, 0]) ** 2 + (triangles[:, 2, 1] - triangles[:, 0, 1]) ** 2) ** 0.5
    circums = get_circumradius(a, b, c)
    filtered = triangles[circums <= alpha]
    edge1 = filtered[:, (0, 1)]
    edge2 = filtered[:, (1, 2)]
    edge3 = filtered[:, (2, 0)]
    edge_points = np.unique(
        np.concatenate((edge1, edge2, edge3)), axis=0).tolist()
    m = sg.MultiLineString(edge_points)
    triangles = list(polygonize(m))
    return unary_union(triangles)


# reference for pero_ocr.layout_engines.layout_helpers:get_circumradius
def get_circumradius(a, b, c):
    '''
    Compute circumradius of a triangle
    '''
    s = (a + b + c) / 2.0
    areas = (s*(s-a)*(s-b)*(s-c)) ** 0.5
    circums = a * b * c / (4.0 * (areas + 0.0001))
    return circums


# reference for pero_ocr.layout_engines.layout_helpers:retrace_region
def retrace_region(region):
    """ Discards existing region coords and makes new ones from alpha shape
    around text lines.
    """
    region_textlines = [line.polygon for line in region.lines]
    new_polygon = region_from_textlines(region_textlines)

    if new_polygon.geom_type == 'MultiPolygon':
        new_polygon = new_polygon.convex_hull.simplify(5)
    elif new_polygon.geom_type == 'Polygon':
        new_polygon = new_polygon.simplify(5)
    else:
        print('WARNING: polygon coordinates discarded during retrace.')

    region.polygon = np.array(new_polygon.exterior.coords)


# reference for pero_ocr.layout_engines.cnn_layout_engine:LayoutEngine.filter_polygons
def filter_polygons(self, polygons, region_textlines):
    polygons = [helpers.check_polygon(polygon) for polygon in polygons]
    inds_to_remove = []
    for i in range(len(polygons)):
        for j in range(i+1, len(polygons)):
            # first check if a polygon is completely inside another, remove the smaller in that case
            if polygons[i].contains(polygons[j]):
                inds_to_remove.append(j)
            elif polygons[j].contains(polygons[i]):
                inds_to_remove.append(i)
            elif polygons[i].intersects(polygons[j]):
                poly_intersection = polygons[i].intersection(polygons[j])
                # remove the overlap from both regions
                poly_tmp = deepcopy(polygons[i])
                polygons[i] = polygons[i].difference(polygons[j])
                polygons[j] = polygons[j].difference(poly_tmp)
                # append the overlap to the one with more textlines in the overlap area
                score_i = 0
                for line in region_textlines[i]:
                    line_poly = helpers.check_polygon(sg.Polygon(line))
                    score_i += line_poly.intersection(poly_intersection).area
                score_j = 0
                for line in region_textlines[j]:
                    line_poly = helpers.check_polygon(sg.Polygon(line))
                    score_j += line_poly.intersection(poly_intersection).area
                if score_i > score_j:
                    polygons[i] = polygons[i].union(poly_intersection)
                else:
                    polygons[j] = polygons[j].union(poly_intersection)
    return [polygon for i, polygon in enumerate(polygons) if i not in inds_to_remove]


# reference for pero_ocr.layout_engines.cnn_layout_engine:LayoutEngine.get_penalty
def get_penalty(self, b, shift, x_1, x_2, map, t=1):
    b_shifted = np.round(b).astype(np.int32)
    b_shifted[:, 1] += int(round(shift))
    x_1_shifted = int(round(x_1)) - np.amin(b_shifted[:, 0])
    x_2_shifted = int(round(x_2)) - np.amin(b_shifted[:, 0])
    map_crop = map[
               np.clip(np.amin(b_shifted[:, 1]-t), 0, map.shape[0]-1): np.clip(np.amax(b_shifted[:, 1]+t+1), 0, map.shape[0]-1),
               np.amin(b_shifted[:, 0]): np.amax(b_shifted[:, 0])
               ]

    b_shifted[:, 1] -= (np.amin(b_shifted[:, 1]) - t)
    b_shifted[:, 0] -= np.amin(b_shifted[:, 0])

    penalty_mask = np.zeros_like(map_crop)
    for b_ind in range(b_shifted.shape[0]-1):
        try:
            cv2.line(penalty_mask, tuple(b_shifted[b_ind, :]), tuple(b_shifted[b_ind+1, :]), color=1, thickness=(2*t)+1)
        except:
            print("WARNING: Paragraph penalty calculation failed.")
            return 1

    penalty_area = penalty_mask * map_crop

    return np.sum(penalty_area[:, x_1_shifted:x_2_shifted]) / (x_2 - x_1)


# reference for pero_ocr.layout_engines.cnn_layout_engine:LayoutEngine.get_pair_penalty
def get_pair_penalty(self, b1, b2, h1, h2, map, ds):
    x_overlap = max(0, min(np.amax(b1[:, 0]), np.amax(b2[:, 0])) - max(np.amin(b1[:, 0]), np.amin(b2[:, 0])))
    if x_overlap > 5:
        x_1 = int(max(np.amin(b1[:, 0]), np.amin(b2[:, 0])))
        x_2 = int(min(np.amax(b1[:, 0]), np.amax(b2[:, 0])))
        if np.average(b1[:, 1]) > np.average(b2[:, 1]):
            penalty_1 = self.get_penalty(b1/ds, -h1[0]/ds, x_1/ds, x_2/ds, map)
            penalty_2 = self.get_penalty(b2/ds, h2[1]/ds, x_1/ds, x_2/ds, map)
        else:
            penalty_1 = self.get_penalty(b1/ds, h1[1]/ds, x_1/ds, x_2/ds, map)
            penalty_2 = self.get_penalty(b2/ds, -h2[0]/ds, x_1/ds, x_2/ds, map)
        penalty = np.abs(max(penalty_1, penalty_2))
    else:
        penalty = 1
    return penalty


# reference for pero_ocr.document_ocr.page_parser:LayoutExtractor.__init__
def le_ext_init(self, config, device, config_path=''):
    self.detect_regions = config.getboolean('DETECT_REGIONS')
    self.detect_lines = config.getboolean('DETECT_LINES')
    self.detect_straight_lines_in_regions = config.getboolean('DETECT_STRAIGHT_LINES_IN_REGIONS')
    self.merge_lines = config.getboolean('MERGE_LINES')
    self.adjust_heights = config.getboolean('ADJUST_HEIGHTS')
    self.multi_orientation = config.getboolean('MULTI_ORIENTATION')
    self.adjust_baselines = config.getboolean('ADJUST_BASELINES')

    use_cpu = config.getboolean('USE_CPU')
    self.device = device if not use_cpu else torch.device("cpu")

    self.engine = LayoutEngine(
        model_path=compose_path(config['MODEL_PATH'], config_path),
        device=self.device,
        downsample=config.getint('DOWNSAMPLE'),
        adaptive_downsample=config.getboolean('ADAPTIVE_DOWNSAMPLE', fallback=True),
        detection_threshold=config.getfloat('DETECTION_THRESHOLD'),
        max_mp=config.getfloat('MAX_MEGAPIXELS'),
        line_end_weight=config.getfloat('LINE_END_WEIGHT', fallback=1.0),
        vertical_line_connection_range=config.getint('VERTICAL_LINE_CONNECTION_RANGE', fallback=5),
        smooth_line_predictions=config.getboolean('SMOOTH_LINE_PREDICTIONS', fallback=True),
        paragraph_line_threshold=config.getfloat('PARAGRAPH_LINE_THRESHOLD', fallback=0.3),
    )
    self.pool = Pool(1)

