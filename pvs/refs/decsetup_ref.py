# Reference forms for decoder construction and pre-selection helpers (never imported, only parsed).
BLANK_SYMBOL = '<BLANK>'
# reference for pero_ocr.decoding.decoders:CTCPrefixLogRawNumpyDecoder.__init__
def dec_init(self, letters, k,
             lm=None, lm_scale=1.0, insertion_bonus=0.0,
             relevant_logits_selector=select_relevant_logits,
             symbol_separator=''):
    assert_letters_valid(letters, BLANK_SYMBOL)

    self._letters = letters

    assert_beam_size_valid(k)
    self._k = k
    self._lm_scale = lm_scale
    self._insertion_bonus = insertion_bonus

    self._blank_ind = self._letters.index(BLANK_SYMBOL)
    self.select_relevant_logits = relevant_logits_selector

    self._lm = lm

    self.LOG_ZERO_PROBABILITY = -np.inf
    self.symbol_separator = symbol_separator


# reference for pero_ocr.decoding.decoders:GreedyDecoder.__init__
def greedy_init(self, letters, symbol_separator=''):
    assert_letters_valid(letters, BLANK_SYMBOL)
    self._letters = letters
    self._blank_ind = letters.index(BLANK_SYMBOL)
    self.symbol_separator = symbol_separator


# reference for pero_ocr.decoding.decoders:CTCPrefixLogRawNumpyDecoder.get_reduced_last_chars
def get_reduced_last_chars(self, last_chars, selected_chars, impossible_index):
    reduced_last_chars = last_chars.copy()
    inv_sel = {v: i for i, v in enumerate(selected_chars)}
    return np.asarray([(inv_sel[c] if c in inv_sel else impossible_index) for c in reduced_last_chars])


# reference for pero_ocr.decoding.decoders:select_relevant_logits
def select_relevant_logits(logits):
    return np.nonzero(logits > -10)


# reference for pero_ocr.decoding.decoders:assert_letters_valid
def assert_letters_valid(letters, blank_symbol):
    duplicates = duplicit_elements(letters)
    if duplicates:
        raise ValueError(f"Letters contain these duplicit elements: {duplicates}")

    blank_ind = letters.index(blank_symbol)
    if blank_ind != len(letters) - 1:
        raise ValueError(f"Expected {BLANK_SYMBOL} as the last of letters, it's instead at position {blank_ind}")


# reference for pero_ocr.decoding.decoders:assert_beam_size_valid
def assert_beam_size_valid(k):
    if not isinstance(k, int):
        raise TypeError("Beam size 'k' has to be int, got {} instead (value: {}).".format(type(k), k))

    if k < 1:
        raise ValueError("Beam size 'k' has to be positive, got {} instead.".format(k))


# reference for pero_ocr.decoding.decoders:duplicit_elements
def duplicit_elements(a_list):
    seen = set()
    duplicit = []

    for x in a_list:
        if x in seen:
            duplicit.append(x)
        else:
            seen.add(x)

    return duplicit


# reference for pero_ocr.decoding.decoding_itf:decoder_factory
def decoder_factory(config, characters, device, allow_no_decoder=True, config_path=''):
    full_characters = characters + [BLANK_SYMBOL]

    decoder_type = config['TYPE']

    if decoder_type == 'FAST-LOG-RAW':
        k = config.getint('BEAM_SIZE')

        lm_scale = config.getfloat('LM_SCALE')
        if lm_scale is None:
            raise ValueError("Missing LM_SCALE key in the config")

        insertion_bonus = config.getfloat('INSERTION_BONUS', fallback=0.0)
        lm = lm_factory(config, config_path=config_path)
        if lm is not None:
            lm = LMWrapper(lm, full_characters[:-1], device)

        sys.stderr.write(f"Constructing CTCPrefixLogRawNumpyDecoder({full_characters}, {k}, insertion_bonus={insertion_bonus}, {lm})\n")
        return CTCPrefixLogRawNumpyDecoder(full_characters, k, lm, lm_scale, insertion_bonus=insertion_bonus)
    elif decoder_type == 'GREEDY':
        sys.stderr.write("Constructing GreedyDecoder({})\n".format(full_characters))
        return GreedyDecoder(full_characters)
    else:
        raise ValueError("Unknown decoder type: '{}'".format(decoder_type))


# reference for pero_ocr.decoding.decoding_itf:lm_factory
def lm_factory(config, config_path=''):
    lm_key = 'LM'
    if lm_key not in config:
        return None

    return construct_lm(config[lm_key], config_path=config_path)


# reference for pero_ocr.decoding.decoding_itf:construct_lm
def construct_lm(path, config_path=''):
    try:
        lm = language_model.torchscript_import(compose_path(path, config_path))
    except Exception as e:
        logger.warning('WARNING: Failed to load model as TorchScript file, original error:\n')
        logger.warning(f'{e}\n')
        logger.warning('WARNING: Attempting to load as a plain torch-pickled model...\n')
        lm = torch.load(compose_path(path, config_path), map_location=torch.device('cpu'))

    lm._unused_prefix_len = 2

    return lm


# reference for pero_ocr.decoding.lm_wrapper:HiddenState.__init__
def hs_init(self, h):
    self._h = h


# reference for pero_ocr.document_ocr.page_parser:page_decoder_factory
def page_decoder_factory(config, device, config_path=''):
    from pero_ocr.decoding import decoding_itf
    ocr_chars = decoding_itf.get_ocr_charset(compose_path(config['OCR']['OCR_JSON'], config_path))

    use_cpu = config['DECODER'].getboolean('USE_CPU')
    device = device if not use_cpu else torch.device("cpu")

    decoder = decoding_itf.decoder_factory(config['DECODER'], ocr_chars, device, allow_no_decoder=False, config_path=config_path)
    confidence_threshold = config['DECODER'].getfloat('CONFIDENCE_THRESHOLD', fallback=math.inf)
    carry_h_over = config['DECODER'].getboolean('CARRY_H_OVER')
    return PageDecoder(decoder, line_confidence_threshold=confidence_threshold, carry_h_over=carry_h_over)

