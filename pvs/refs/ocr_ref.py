# Reference forms for batched line recognition (never imported, only parsed).
# reference for pero_ocr.ocr_engine.line_ocr_engine:BaseEngineLineOCR.process_lines
def process_lines(self, lines, sparse_logits=True, tight_crop_logits=False, no_logits=False):
    """Runs ocr network on multiple lines.
    Args:
        lines (iterable): contains cropped lines as numpy arrays.

    Returns:
        transcripts (list of strings): contains UTF-8 line transcripts
        logits (list of sparse matrices): character logits for lines
    """

    # check line crops for correct shape
    for line in lines:
        if line.shape[0] == self.line_px_height:
            ValueError("Line height needs to be {} for this ocr network and is {} instead.".format(self.line_px_height, line.shape[0]))
        if line.shape[2] == 3:
            ValueError("Line crops need three color channes, but this one has {}.".format(line.shape[2]))

    all_transcriptions = [None]*len(lines)
    all_logits = [None]*len(lines)
    all_logit_coords = [None]*len(lines)

    #  process all lines ordered by their length
    line_ids = [x for x, y in sorted(enumerate(lines), key=lambda x: -x[1].shape[1])]
    while line_ids:
        max_width = lines[line_ids[0]].shape[1]
        max_width = int(np.ceil(max_width / 32.0) * 32)

        if self.model_type == "transformer":
            max_width = min(max_width, self.max_line_width + 2 * self.line_padding_px)

        batch_size = max(1, self.max_input_horizontal_pixels // max_width)

        batch_line_ids = line_ids[:batch_size]
        line_ids = line_ids[batch_size:]

        batch_images = [lines[line_id] for line_id in batch_line_ids]
        batch_image_spans = []

        if self.model_type == "transformer":
            overlap = self.max_line_width // 4

            new_batch_images = []
            for i, image in enumerate(batch_images):
                if image.shape[1] > self.max_line_width:
                    image_parts = []

                    start = 0
                    end = self.max_line_width

                    while end < image.shape[1]:
                        image_parts.append(image[:, start:end, :])
                        start += self.max_line_width - overlap
                        end += self.max_line_width - overlap

                    image_parts.append(image[:, start:end, :])
                    new_batch_images += image_parts
                    batch_image_spans.append(len(image_parts))

                else:
                    new_batch_images.append(image)
                    batch_image_spans.append(1)

            batch_images = new_batch_images

        batch_data = np.zeros([len(batch_images), self.line_px_height, max_width + 2*self.line_padding_px, 3], dtype=np.uint8)            
        for data, image in zip(batch_data, batch_images):
            data[:, self.line_padding_px:self.line_padding_px+image.shape[1], :] = image

        if batch_data.shape[2] > self.max_input_horizontal_pixels:
            print(f'WARNING: Line too long for OCR engine. Cropping from {batch_data.shape[2]} px down to {self.max_input_horizontal_pixels}.')
            batch_data = batch_data[:, :, :self.max_input_horizontal_pixels]

        out_transcriptions, out_logits = self.run_ocr(batch_data)

        if self.model_type == "transformer":
            merged_transcriptions = []
            merged_logits = []
            start = 0
            for span in batch_image_spans:
                merged_line_transcription, merged_line_logits = merge_transcriptions_and_logits(out_transcriptions[start:start+span], out_logits[start:start+span])
                merged_transcriptions.append(merged_line_transcription)
                merged_logits.append(merged_line_logits)
                start += span

            out_transcriptions = merged_transcriptions
            out_logits = merged_logits

        if no_logits:
            for ids, transcription in zip(batch_line_ids, out_transcriptions):
                all_transcriptions[ids] = transcription
        else:
            for ids, transcription, line_logits in zip(batch_line_ids, out_transcriptions, out_logits):
                all_transcriptions[ids] = transcription

                if tight_crop_logits:
                    line_logits = line_logits[
                                  int(self.line_padding_px // self.net_subsampling):int(
                                     (self.line_padding_px + lines[ids].shape[1]) // self.net_subsampling)]
                    all_logit_coords[ids] = [None, None]
                    #else:
                #    line_logits = line_logits[
                #              int(self.line_padding_px // self.net_subsampling - 2):int(
                #                  lines[ids].shape[1] // self.net_subsampling + 8)]
                elif self.model_type == "ctc":
                    all_logit_coords[ids] = [
                        int(self.line_padding_px // self.net_subsampling),
                        int((self.line_padding_px + lines[ids].shape[1]) // self.net_subsampling)]

                elif self.model_type == "transformer":
                    all_logit_coords[ids] = [0, len(transcription)]

                if sparse_logits:
                    line_probs = softmax(line_logits, axis=1)
                    line_logits[line_probs < 0.0001] = 0
                    line_logits = sparse.csc_matrix(line_logits)
                all_logits[ids] = line_logits

    if self.device.type == "cuda":
        torch.cuda.empty_cache()

    return all_transcriptions, all_logits, all_logit_coords


# reference for pero_ocr.document_ocr.page_parser:PageOCR.process_page
def ocr_process_page(self, img, page_layout: PageLayout):
    for line in page_layout.lines_iterator():
        if line.crop is None:
            raise Exception(f'Missing crop in line {line.id}.')

    transcriptions, logits, logit_coords = self.ocr_engine.process_lines([line.crop for line in page_layout.lines_iterator()])

    for line, line_transcription, line_logits, line_logit_coords in zip(page_layout.lines_iterator(), transcriptions, logits, logit_coords):
        line.transcription = line_transcription
        line.logits = line_logits
        line.characters = self.ocr_engine.characters
        line.logit_coords = line_logit_coords
    return page_layout


# reference for pero_ocr.ocr_engine.softmax:softmax
def softmax(X, theta=1.0, axis=None):
    """
    Compute the softmax of each element along an axis of X.

    Parameters
    ----------
    X: ND-Array. Probably should be floats.
    theta (optional): float parameter, used as a multiplier
        prior to exponentiation. Default = 1.0
    axis (optional): axis to compute values along. Default is the
        first non-singleton axis.

    Returns an array the same size as X. The result will sum to 1
    along the specified axis.
    """

    # make X at least 2d
    y = np.atleast_2d(X)

    # find axis
    if axis is None:
        axis = next(j[0] for j in enumerate(y.shape) if j[1] > 1)

    # multiply y against the theta parameter,
    y = y * float(theta)

    # subtract the max for numerical stability
    y = y - np.expand_dims(np.max(y, axis=axis), axis)

    # exponentiate y
    y = np.exp(y)

    # take the sum along the specified axis
    ax_sum = np.expand_dims(np.sum(y, axis=axis), axis)

    # finally: divide elementwise
    p = y / ax_sum

    # flatten if X was 1D
    if len(X.shape) == 1:
        p = p.flatten()

    return p


# reference for pero_ocr.ocr_engine.pytorch_ocr_engine:PytorchEngineLineOCR.run_ocr
def py_run_ocr(self, batch_data):
    with torch.no_grad():
        batch_data = torch.from_numpy(batch_data).to(self.device).float() / 255.0
        batch_data = batch_data.permute(0, 3, 1, 2)

        if self.embed_id is not None:
            ids_embedding = torch.LongTensor([self.embed_id] * batch_data.shape[0]).to(self.device)
            logits = self.model(batch_data, ids_embedding)

        else:
            logits = self.model(batch_data)

        decoded = greedy_decode_ctc(logits, self.characters)
        logits = logits.permute(0, 2, 1).cpu().numpy()

    return decoded, logits


# reference for pero_ocr.ocr_engine.line_ocr_engine:BaseEngineLineOCR.__init__
def base_init(self, json_def, device, batch_size=8, model_type="ctc"):
    with open(json_def, 'r', encoding='utf8') as f:
        self.config = json.load(f)

    self.line_px_height = self.config['line_px_height']
    self.line_vertical_scale = self.config['line_vertical_scale']

    if isabs(self.config['checkpoint']):
        self.checkpoint = self.config['checkpoint']
    else:
        self.checkpoint = realpath(join(dirname(json_def), self.config['checkpoint']))

    self.characters = tuple(self.config['characters'])
    self.net_name = self.config['net_name']
    if "embed_num" in self.config:
        self.embed_num = int(self.config["embed_num"])
    else:
        self.embed_num = None
    if "embed_id" in self.config:
        if self.config["embed_id"] != "mean":
            self.embed_id = int(self.config["embed_id"])
        else:
            self.embed_id = "mean"
    else:
        self.embed_id = None

    self.max_line_width = 1e10  # if the max_line_width is large enough, lines are not split into multiple parts when processed by transformers
    if "max_line_width" in self.config:
        self.max_line_width = int(self.config["max_line_width"])

    self.model_type = model_type

    self.device = device

    self.batch_size = batch_size

    self.line_padding_px = 32
    self.max_input_horizontal_pixels = 480 * batch_size

