# Reference forms for PAGE XML I/O (never imported, only parsed).
# reference for pero_ocr.core.layout:TextLine.__init__
def tl_init(self, id: str = None,
             baseline: Optional[np.ndarray] = None,
             polygon: Optional[np.ndarray] = None,
             heights: Optional[np.ndarray] = None,
             transcription: Optional[str] = None,
             logits: Optional[Union[scipy.sparse.csc_matrix, np.ndarray]] = None,
             crop: Optional[np.ndarray] = None,
             characters: Optional[list[str]] = None,
             logit_coords: Optional[Union[list[int, int], list[None, None]]] = None,
             transcription_confidence: Optional[Num] = None,
             index: Optional[int] = None):
    self.id = id
    self.index = index
    self.baseline = baseline
    self.polygon = polygon
    self.heights = heights
    self.transcription = transcription
    self.logits = logits
    self.crop = crop
    self.characters = characters
    self.logit_coords = logit_coords
    self.transcription_confidence = transcription_confidence


# reference for pero_ocr.core.layout:RegionLayout.__init__
def rl_init(self, id: str,
             polygon: np.ndarray,
             region_type=None):
    self.id = id  # ID string
    self.polygon = polygon  # bounding polygon
    self.region_type = region_type
    self.lines: list[TextLine] = []
    self.transcription = None


# reference for pero_ocr.core.layout:PageLayout.__init__
def pl_init(self, id: str = None, page_size: list[int, int] = (0, 0), file: str = None):
    self.id = id
    self.page_size = page_size  # (height, width)
    self.regions: list[RegionLayout] = []
    self.reading_order = None

    if file is not None:
        self.from_pagexml(file)

    if self.reading_order is not None and len(self.regions) > 0:
        self.sort_regions_by_reading_order()


# reference for pero_ocr.core.layout:RegionLayout.to_page_xml
def to_page_xml(self, page_element: ET.SubElement, validate_id: bool = False):
    region_element = ET.SubElement(page_element, "TextRegion")
    coords = ET.SubElement(region_element, "Coords")
    region_element.set("id", export_id(self.id, validate_id))

    if self.region_type is not None:
        region_element.set("type", self.region_type)

    points = ["{},{}".format(int(np.round(coord[0])), int(np.round(coord[1]))) for coord in self.polygon]
    points = " ".join(points)
    coords.set("points", points)
    if self.transcription is not None:
        text_element = ET.SubElement(region_element, "TextEquiv")
        text_element = ET.SubElement(text_element, "Unicode")
        text_element.text = self.transcription
    return region_element


# reference for pero_ocr.core.layout:get_coords_form_page_xml
def get_coords_form_page_xml(coords_element, schema):
    if 'points' in coords_element.attrib:
        coords = points_string_to_array(coords_element.attrib['points'])
    else:
        coords = []
        for point in coords_element.findall(schema + 'Point'):
            x, y = point.attrib['x'], point.attrib['y']
            coords.append([float(x), float(y)])
        coords = np.asarray(coords)
    return coords


# reference for pero_ocr.core.layout:get_region_from_page_xml
def get_region_from_page_xml(region_element, schema):
    coords_element = region_element.find(schema + 'Coords')
    region_coords = get_coords_form_page_xml(coords_element, schema)

    region_type = None
    if "type" in region_element.attrib:
        region_type = region_element.attrib["type"]

    layout_region = RegionLayout(region_element.attrib['id'], region_coords, region_type)

    transcription = region_element.find(schema + 'TextEquiv')
    if transcription is not None:
        layout_region.transcription = transcription.find(schema + 'Unicode').text
        if layout_region.transcription is None:
            layout_region.transcription = ''
    return layout_region


# reference for pero_ocr.core.layout:get_reading_order
def get_reading_order(page_element, schema):
    reading_order = {}

    for reading_order_element in page_element.iter(schema + "ReadingOrder"):
        for ordered_group_element in reading_order_element.iter(schema + "OrderedGroup"):
            for indexed_region_element in ordered_group_element.iter(schema + "RegionRefIndexed"):
                region_index = int(indexed_region_element.attrib["index"])
                region_id = indexed_region_element.attrib["regionRef"]
                reading_order[region_id] = region_index

    return reading_order


# reference for pero_ocr.core.layout:PageLayout.from_pagexml_string
def from_pagexml_string(self, pagexml_string: str):
    self.from_pagexml(BytesIO(pagexml_string.encode('utf-8')))


# reference for pero_ocr.core.layout:PageLayout.from_pagexml
def from_pagexml(self, file: Union[str, BytesIO]):
    page_tree = ET.parse(file)
    schema = element_schema(page_tree.getroot())

    page = page_tree.findall(schema + 'Page')[0]
    self.id = page.attrib['imageFilename']
    self.page_size = (int(page.attrib['imageHeight']), int(page.attrib['imageWidth']))

    self.reading_order = get_reading_order(page, schema)

    for region in page_tree.iter(schema + 'TextRegion'):
        region_layout = get_region_from_page_xml(region, schema)

        for line_i, line in enumerate(region.iter(schema + 'TextLine')):
            new_textline = TextLine(id=line.attrib['id'])
            if 'custom' in line.attrib:
                custom_str = line.attrib['custom']
                if 'heights_v2' in custom_str:
                    for word in custom_str.split():
                        if 'heights_v2' in word:
                            new_textline.heights = json.loads(word.split(":")[1])
                else:
                    if re.findall("heights", line.attrib['custom']):
                        heights = re.findall("\d+", line.attrib['custom'])
                        heights_array = np.asarray([float(x) for x in heights])
                        if heights_array.shape[0] == 4:
                            heights = np.zeros(2, dtype=np.float32)
                            heights[0] = heights_array[0]
                            heights[1] = heights_array[2]
                        elif heights_array.shape[0] == 3:
                            heights = np.zeros(2, dtype=np.float32)
                            heights[0] = heights_array[1]
                            heights[1] = heights_array[2] - heights_array[0]
                        else:
                            heights = heights_array
                        new_textline.heights = heights.tolist()

            if 'index' in line.attrib:
                try:
                    new_textline.index = int(line.attrib['index'])
                except ValueError:
                    pass

            if new_textline.index is None:
                new_textline.index = line_i

            baseline = line.find(schema + 'Baseline')
            if baseline is not None:
                new_textline.baseline = get_coords_form_page_xml(baseline, schema)
            else:
                logger.warning(f'Warning: Baseline is missing in TextLine. '
                               f'Skipping this line during import. Line ID: {new_textline.id} Page ID: {self.id}')
                continue

            textline = line.find(schema + 'Coords')
            if textline is not None:
                new_textline.polygon = get_coords_form_page_xml(textline, schema)

            if not new_textline.heights:
                guess_line_heights_from_polygon(new_textline, use_center=False, n=len(new_textline.baseline))

            transcription = line.find(schema + 'TextEquiv')
            if transcription is not None:
                t_unicode = transcription.find(schema + 'Unicode').text
                if t_unicode is None:
                    t_unicode = ''
                new_textline.transcription = t_unicode
                conf = transcription.get('conf', None)
                new_textline.transcription_confidence = float(conf) if conf is not None else None
            region_layout.lines.append(new_textline)

        self.regions.append(region_layout)


# reference for pero_ocr.core.layout:PageLayout.to_pagexml_string
def to_pagexml_string(self, creator: str = 'Pero OCR', validate_id: bool = False,
                      version: PAGEVersion = PAGEVersion.PAGE_2019_07_15):
    if version == PAGEVersion.PAGE_2019_07_15:
        attr_qname = ET.QName("http://www.w3.org/2001/XMLSchema-instance", "schemaLocation")
        root = ET.Element(
            'PcGts',
            {attr_qname: 'http://schema.primaresearch.org/PAGE/gts/pagecontent/2019-07-15/pagecontent.xsd'},
            nsmap={
                None: 'http://schema.primaresearch.org/PAGE/gts/pagecontent/2019-07-15',
                'xsi': 'http://www.w3.org/2001/XMLSchema-instance',
                })

        metadata = ET.SubElement(root, "Metadata")
        ET.SubElement(metadata, "Creator").text = creator
        now = datetime.now(timezone.utc)
        ET.SubElement(metadata, "Created").text = now.isoformat()
        ET.SubElement(metadata, "LastChange").text = now.isoformat()

    elif version == PAGEVersion.PAGE_2013_07_15:
        root = ET.Element("PcGts")
        root.set("xmlns", "http://schema.primaresearch.org/PAGE/gts/pagecontent/2013-07-15")

    else:
        raise ValueError(f"Unknown PAGE Version: '{version}'")

    page = ET.SubElement(root, "Page")
    page.set("imageFilename", self.id)
    page.set("imageWidth", str(self.page_size[1]))
    page.set("imageHeight", str(self.page_size[0]))

    if self.reading_order is not None:
        self.sort_regions_by_reading_order()
        self.reading_order_to_page_xml(page)

    for region_layout in self.regions:
        text_region = region_layout.to_page_xml(page, validate_id=validate_id)

        for i, line in enumerate(region_layout.lines):
            text_line = ET.SubElement(text_region, "TextLine")
            text_line.set("id", export_id(line.id, validate_id))
            if line.index is not None:
                text_line.set("index", f'{line.index:d}')
            else:
                text_line.set("index", f'{i:d}')
            if line.heights is not None:
                text_line.set("custom", f"heights_v2:[{line.heights[0]:.1f},{line.heights[1]:.1f}]")

            coords = ET.SubElement(text_line, "Coords")

            if line.polygon is not None:
                points = ["{},{}".format(int(np.round(coord[0])), int(np.round(coord[1]))) for coord in
                          line.polygon]
                points = " ".join(points)
                coords.set("points", points)

            if line.baseline is not None:
                baseline_element = ET.SubElement(text_line, "Baseline")
                points = ["{},{}".format(int(np.round(coord[0])), int(np.round(coord[1]))) for coord in
                          line.baseline]
                points = " ".join(points)
                baseline_element.set("points", points)

            if line.transcription is not None:
                text_element = ET.SubElement(text_line, "TextEquiv")
                if line.transcription_confidence is not None:
                    text_element.set("conf", f"{line.transcription_confidence:.3f}")
                text_element = ET.SubElement(text_element, "Unicode")
                text_element.text = line.transcription

    return ET.tostring(root, pretty_print=True, encoding="utf-8", xml_declaration=True).decode("utf-8")


# reference for pero_ocr.core.layout:PageLayout.to_pagexml
def to_pagexml(self, file_name: str, creator: str = 'Pero OCR',
               validate_id: bool = False, version: PAGEVersion = PAGEVersion.PAGE_2019_07_15):
    xml_string = self.to_pagexml_string(version=version, creator=creator, validate_id=validate_id)
    with open(file_name, 'w', encoding='utf-8') as out_f:
        out_f.write(xml_string)


# reference for pero_ocr.core.layout:PageLayout.sort_regions_by_reading_order
def sort_regions_by_reading_order(self):
    self.regions = sorted(self.regions, key=lambda k: self.reading_order[k.id] if k.id in self.reading_order else float("inf"))


# reference for pero_ocr.core.layout:PageLayout.reading_order_to_page_xml
def reading_order_to_page_xml(self, page_element: ET.SubElement):
    reading_order_element = ET.SubElement(page_element, "ReadingOrder")
    ordered_group_element = ET.SubElement(reading_order_element, "OrderedGroup")
    ordered_group_element.set("id", "reading_order")

    for region_id, region_index in self.reading_order.items():
        indexed_region_element = ET.SubElement(ordered_group_element, "RegionRefIndexed")
        indexed_region_element.set("regionRef", region_id)
        indexed_region_element.set("index", str(region_index))


# reference for pero_ocr.core.layout:PageLayout.lines_iterator
def lines_iterator(self):
    for region in self.regions:
        for line in region.lines:
            yield line


# reference for pero_ocr.core.layout:element_schema
def element_schema(elem):
    if elem.tag[0] == "{":
        schema, _, _ = elem.tag[1:].partition("}")
    else:
        schema = None
    return '{' + schema + '}'


# reference for pero_ocr.core.layout:points_string_to_array
def points_string_to_array(coords):
    coords = coords.split(' ')
    coords = [t.split(",") for t in coords]
    coords = [[int(round(float(x))), int(round(float(y)))] for x, y in coords]
    return np.asarray(coords)


# reference for pero_ocr.core.layout:export_id
def export_id(id, validate_change_id):
    return 'id_' + id if validate_change_id else id

