# Reference forms for the page decoder (never imported, only parsed).
# reference for pero_ocr.document_ocr.page_parser:PageDecoder.__init__
def pd_init(self, decoder, line_confidence_threshold=None, carry_h_over=False):
    self.decoder = decoder
    self.line_confidence_threshold = line_confidence_threshold
    self.lines_examined = 0
    self.lines_decoded = 0
    self.seconds_decoding = 0.0
    self.continue_lines = carry_h_over

    self.last_h = None
    self.last_line = None


# reference for pero_ocr.document_ocr.page_parser:PageDecoder.process_page
def pd_process_page(self, page_layout: PageLayout):
    self.last_h = None
    self.last_line = None
    for line in page_layout.lines_iterator():
        try:
            line.transcription = self.decode_line(line)
        except Exception:
            logger.error(f'Failed to process line {line.id} of page {page_layout.id}. The page has been processed no further.', exc_info=True)

    return page_layout


# reference for pero_ocr.document_ocr.page_parser:PageDecoder.decode_line
def decode_line(self, line):
    self.lines_examined += 1

    logits = prepare_dense_logits(line)
    if self.line_confidence_threshold is not None:
        if line_confident_enough(logits, self.line_confidence_threshold):
            self.last_h = None
            self.last_line = line.transcription
            return line.transcription

    t0 = time.time()
    if self.continue_lines:
        if not self.last_h and self.last_line:
            self.last_h = self.decoder._lm.initial_h_from_line(self.last_line)

        hypotheses, last_h = self.decoder(logits, return_h=True, init_h=self.last_h)
        last_h = self.decoder._lm.add_line_end(last_h)
        self.last_h = last_h
    else:
        hypotheses = self.decoder(logits)

    self.seconds_decoding += time.time() - t0
    self.lines_decoded += 1

    transcription = hypotheses.best_hyp()
    self.last_line = transcription

    return transcription


# reference for pero_ocr.document_ocr.page_parser:PageParser.process_page
def pp_process_page(self, image, page_layout):
    if self.run_layout_parser:
        for layout_parser in self.layout_parsers:
            page_layout = layout_parser.process_page(image, page_layout)
    if self.run_line_cropper:
        page_layout = self.line_cropper.process_page(image, page_layout)
    if self.run_ocr:
        page_layout = self.ocr.process_page(image, page_layout)
    if self.run_decoder:
        page_layout = self.decoder.process_page(page_layout)

    self.update_confidences(page_layout)

    if self.filter_confident_lines_threshold > 0:
        page_layout = self.filter_confident_lines(page_layout)

    return page_layout


# reference for pero_ocr.document_ocr.page_parser:PageParser.update_confidences
def update_confidences(self, page_layout):
    for line in page_layout.lines_iterator():
        if line.logits is not None:
            line.transcription_confidence = self.compute_line_confidence(line)

