"""Writer / reader tables for lxml-based XML I/O.

Writer facts : element variables get tags from `ET.SubElement(parent, "Tag")` / `ET.Element("Tag")`;
               `var.set("attr", value)` and `var.text = value` are writes of (Tag, attr) / (Tag, #text).
Reader facts : element variables get tags from `for v in e.iter(schema + 'Tag')`, `e.find(schema + 'Tag')`,
               `e.findall(schema + 'Tag')[0]` and from the tags of call arguments (interprocedural);
               `v.attrib['a']`, `'a' in v.attrib`, `v.get('a')`, `v.attrib.get('a')`, `v.text` are reads.
Field pairing: the object attributes a written value mentions / the object attribute (or constructor
               parameter) a read value flows into.
"""
import ast

from .core import AnalysisError, call_name, dotted, src, walk_shallow, norm_stmt
from .lib import const_str


class Write:
    def __init__(self, fi, node, tag, attr, value, fields):
        self.fi, self.node, self.tag, self.attr, self.value, self.fields = fi, node, tag, attr, value, fields

    def __repr__(self):
        return 'W(%s@%s <- %s)' % (self.tag, self.attr, sorted(self.fields))


class Read:
    def __init__(self, fi, node, tags, attr, kind):
        self.fi, self.node, self.tags, self.attr, self.kind = fi, node, tags, attr, kind
        self.fields = set()     # filled by pairing

    def __repr__(self):
        return 'R(%s@%s -> %s)' % ('|'.join(sorted(self.tags)), self.attr, sorted(self.fields))


def field_refs(expr):
    """Object fields an expression mentions: 'heights', 'page_size[1]', 'id' ... (attribute loads on names)."""
    out = set()
    skip = set()
    for n in ast.walk(expr):
        if isinstance(n, ast.Subscript) and isinstance(n.value, ast.Attribute) and isinstance(n.slice, ast.Constant) \
                and isinstance(n.slice.value, int):
            out.add('%s[%d]' % (n.value.attr, n.slice.value))
            skip.add(id(n.value))
    for n in ast.walk(expr):
        if isinstance(n, ast.Attribute) and id(n) not in skip and isinstance(n.value, ast.Name):
            if n.value.id in ('np', 'ET', 'math', 're', 'json', 'arabic_helper'):
                continue
            out.add(n.attr)
    return out


# ----------------------------------------------------------------------------
# writers
# ----------------------------------------------------------------------------

def writer_facts(repo, fi, param_tags=None, _depth=0):
    """Walk a writer function in source order. Returns (writes, children, return_tag)."""
    tags = dict(param_tags or {})
    writes = []
    children = []       # (parent tag, child tag)
    flow = fi.flow
    ret_tag = [None]

    def tag_of(e):
        if isinstance(e, ast.Name):
            return tags.get(e.id)
        if isinstance(e, ast.Call):
            nm = call_name(e) or ''
            if nm.endswith('SubElement') and len(e.args) >= 2 and const_str(e.args[1]) is not None:
                return const_str(e.args[1])
            if nm.endswith('.Element') and e.args and const_str(e.args[0]) is not None:
                return const_str(e.args[0])
        return None

    def value_fields(v, at):
        """Object fields the written value derives from (through locals; loop variables used as
        attribute bases are not followed, so `line.index` gives 'index', not 'lines')."""
        fields = set()
        try:
            nid0 = flow.cfg.node_of(at)
        except AnalysisError:
            return field_refs(v)
        seen = set()
        todo = [(v, nid0, 8)]
        while todo:
            e, nid, dep = todo.pop()
            if (id(e), nid) in seen:
                continue
            seen.add((id(e), nid))
            fields |= field_refs(e)
            if dep <= 0:
                continue
            bases = {id(n.value) for n in ast.walk(e) if isinstance(n, ast.Attribute)}
            for n in ast.walk(e):
                if isinstance(n, ast.Name) and isinstance(n.ctx, ast.Load) and id(n) not in bases:
                    for d in flow.rd_in[nid].get(n.id, ()):
                        if d.value is None:
                            continue
                        if d.kind == 'for':
                            for b in field_refs(d.value):
                                fields.add(b + ''.join('[%s]' % p for p in d.path if p != 'elem'))
                        elif d.kind == 'assign':
                            todo.append((d.value, d.node, dep - 1))
        return fields

    def header_exprs(s):
        if isinstance(s, (ast.If, ast.While)):
            return [s.test]
        if isinstance(s, ast.For):
            return [s.iter]
        if isinstance(s, ast.With):
            return [i.context_expr for i in s.items]
        if isinstance(s, ast.Try):
            return []
        return [s]

    def visit(stmts):
        for s in stmts:
            for sub in [x for h in header_exprs(s) for x in walk_shallow(h)]:
                if isinstance(sub, ast.Call):
                    nm = call_name(sub) or ''
                    if (nm.endswith('SubElement') and len(sub.args) >= 2) and const_str(sub.args[1]) is not None:
                        pt = tag_of(sub.args[0])
                        children.append((pt, const_str(sub.args[1])))
                    if isinstance(sub.func, ast.Attribute) and sub.func.attr == 'set' and len(sub.args) == 2:
                        t = tag_of(sub.func.value)
                        a = const_str(sub.args[0])
                        if t is not None and a is not None:
                            writes.append(Write(fi, sub, t, a, sub.args[1], value_fields(sub.args[1], sub)))
            if isinstance(s, ast.Assign):
                t = tag_of(s.value)
                # call into another writer returning an element
                if t is None and isinstance(s.value, ast.Call):
                    callee = resolve_method(repo, fi, s.value)
                    if callee is not None and _depth < 2:
                        ptags = {}
                        params = [p for p in callee.params if p != 'self']
                        for p, a in zip(params, s.value.args):
                            ta = tag_of(a)
                            if ta:
                                ptags[p] = ta
                        w2, c2, rt = writer_facts(repo, callee, ptags, _depth + 1)
                        writes.extend(w2)
                        children.extend(c2)
                        t = rt
                for tg in s.targets:
                    if isinstance(tg, ast.Name):
                        if t is not None:
                            tags[tg.id] = t
                        elif tg.id in tags and not isinstance(s.value, ast.Name):
                            tags.pop(tg.id, None)
                    elif isinstance(tg, ast.Attribute) and tg.attr == 'text':
                        tt = tag_of(tg.value)
                        if tt is not None:
                            writes.append(Write(fi, s, tt, '#text', s.value, value_fields(s.value, s)))
                        elif isinstance(tg.value, ast.Call):
                            tt = tag_of(tg.value)
                            if tt is not None:
                                writes.append(Write(fi, s, tt, '#text', s.value, value_fields(s.value, s)))
            elif isinstance(s, ast.Expr) and isinstance(s.value, ast.Call):
                callee = resolve_method(repo, fi, s.value)
                if callee is not None and _depth < 2 and callee is not fi:
                    ptags = {}
                    params = [p for p in callee.params if p != 'self']
                    for p, a in zip(params, s.value.args):
                        ta = tag_of(a)
                        if ta:
                            ptags[p] = ta
                    if ptags:
                        w2, c2, rt = writer_facts(repo, callee, ptags, _depth + 1)
                        writes.extend(w2)
                        children.extend(c2)
            elif isinstance(s, ast.Return) and s.value is not None:
                rt = tag_of(s.value)
                if rt:
                    ret_tag[0] = rt
            for field in ('body', 'orelse', 'finalbody'):
                sub = getattr(s, field, None)
                if isinstance(sub, list) and sub and isinstance(sub[0], ast.stmt):
                    visit(sub)
            for h in getattr(s, 'handlers', []) or []:
                visit(h.body)

    visit(fi.node.body)
    return writes, children, ret_tag[0]


def _safe(flow, at):
    try:
        flow.cfg.node_of(at)
        return True
    except AnalysisError:
        return False


def resolve_method(repo, fi, call):
    """Resolve `x.method(...)` / `func(...)` to a repo function by name (unique method name in the module)."""
    f = call.func
    if isinstance(f, ast.Name):
        q = repo.resolve_dotted(fi.module, f.id)
        return repo.funcs.get(q) if q else None
    if isinstance(f, ast.Attribute):
        if isinstance(f.value, ast.Name) and f.value.id == 'self' and fi.cls:
            return repo.find_method('%s:%s' % (fi.module.name, fi.cls), f.attr)
        cands = [x for q, x in repo.funcs.items() if x.module is fi.module and x.name == f.attr and x.cls]
        if len(cands) == 1:
            return cands[0]
    return None


# ----------------------------------------------------------------------------
# readers
# ----------------------------------------------------------------------------

def _schema_tag(e):
    """'Tag' for `schema + 'Tag'` or f'{schema}Tag'."""
    if isinstance(e, ast.BinOp) and isinstance(e.op, ast.Add) and const_str(e.right) is not None:
        return const_str(e.right)
    if isinstance(e, ast.JoinedStr) and e.values and const_str(e.values[-1]) is not None:
        return const_str(e.values[-1])
    if const_str(e) is not None:
        return const_str(e).split('}')[-1]
    return None


class ReaderAnalysis:
    def __init__(self, repo, roots):
        self.repo = repo
        self.reads = []
        self.summ = {}       # func qual -> {param index: set(attr)} reads flowing to the return value
        self.done = set()
        self.stores = []     # (fi, stmt, field, value expr)
        self.var_tags = {}   # (qual, var) -> set(tags)
        for fi in roots:
            self.analyse(fi, {})

    def tags_of(self, fi, e):
        if isinstance(e, ast.Name):
            return set(self.var_tags.get((fi.qual, e.id), ()))
        if isinstance(e, ast.Subscript):
            return self.tags_of(fi, e.value)
        if isinstance(e, ast.Call) and isinstance(e.func, ast.Attribute) and e.func.attr in ('find', 'findall', 'iter', 'iterfind') and e.args:
            t = _schema_tag(e.args[0])
            return {t} if t else set()
        return set()

    def analyse(self, fi, param_tags):
        key = (fi.qual, tuple(sorted((k, tuple(sorted(v))) for k, v in param_tags.items())))
        if key in self.done:
            return
        self.done.add(key)
        for p, ts in param_tags.items():
            self.var_tags.setdefault((fi.qual, p), set()).update(ts)
        # variable tags to a fixpoint (flow-insensitive inside one function)
        changed = True
        while changed:
            changed = False
            for n in walk_shallow(fi.node):
                pairs = []
                if isinstance(n, ast.For):
                    it = n.iter
                    if isinstance(it, ast.Call) and dotted(it.func) == 'enumerate' and it.args and \
                            isinstance(n.target, ast.Tuple) and len(n.target.elts) == 2:
                        pairs.append((n.target.elts[1], it.args[0]))
                    else:
                        pairs.append((n.target, it))
                elif isinstance(n, ast.Assign) and len(n.targets) == 1:
                    pairs.append((n.targets[0], n.value))
                for tgt, val in pairs:
                    if isinstance(tgt, ast.Name):
                        ts = self.tags_of(fi, val)
                        cur = self.var_tags.setdefault((fi.qual, tgt.id), set())
                        if not ts <= cur:
                            cur.update(ts)
                            changed = True
        # reads
        for n in walk_shallow(fi.node):
            if isinstance(n, ast.Subscript) and isinstance(n.value, ast.Attribute) and n.value.attr == 'attrib' \
                    and const_str(n.slice) is not None and isinstance(n.ctx, ast.Load):
                self.reads.append(Read(fi, n, self.tags_of(fi, n.value.value), const_str(n.slice), 'attrib[]'))
            elif isinstance(n, ast.Compare) and len(n.ops) == 1 and isinstance(n.ops[0], (ast.In, ast.NotIn)) \
                    and const_str(n.left) is not None and isinstance(n.comparators[0], ast.Attribute) \
                    and n.comparators[0].attr == 'attrib':
                self.reads.append(Read(fi, n, self.tags_of(fi, n.comparators[0].value), const_str(n.left), 'in attrib'))
            elif isinstance(n, ast.Call) and isinstance(n.func, ast.Attribute) and n.func.attr == 'get' and n.args \
                    and const_str(n.args[0]) is not None:
                recv = n.func.value
                if isinstance(recv, ast.Attribute) and recv.attr == 'attrib':
                    recv = recv.value
                ts = self.tags_of(fi, recv)
                if ts:
                    self.reads.append(Read(fi, n, ts, const_str(n.args[0]), 'get()'))
            elif isinstance(n, ast.Attribute) and n.attr == 'text' and isinstance(n.ctx, ast.Load):
                ts = self.tags_of(fi, n.value)
                if ts:
                    self.reads.append(Read(fi, n, ts, '#text', '.text'))
        # stores of object fields and constructor arguments
        for n in walk_shallow(fi.node):
            if isinstance(n, ast.Assign):
                for t in n.targets:
                    if isinstance(t, ast.Attribute) and not (isinstance(t.value, ast.Name) and t.value.id in ('np',)):
                        if isinstance(n.value, ast.Tuple):
                            for i, e in enumerate(n.value.elts):
                                self.stores.append((fi, n, '%s[%d]' % (t.attr, i), e))
                        else:
                            self.stores.append((fi, n, t.attr, n.value))
                    elif isinstance(t, ast.Subscript) and isinstance(t.value, ast.Name):
                        returned = any(isinstance(r, ast.Return) and isinstance(r.value, ast.Name) and r.value.id == t.value.id for r in walk_shallow(fi.node))
                        base = '@ret:' + fi.qual if returned else t.value.id
                        self.stores.append((fi, n, '%s[0]' % base, t.slice))
                        self.stores.append((fi, n, '%s[1]' % base, n.value))
            if isinstance(n, ast.Call):
                q = self.repo.resolve_dotted(fi.module, dotted(n.func) or '')
                if q in self.repo.classes:
                    init = self.repo.find_method(q, '__init__')
                    if init is not None:
                        params = [p for p in init.params if p != 'self']
                        for p, a in zip(params, n.args):
                            self.stores.append((fi, n, p, a))
                        for k in n.keywords:
                            if k.arg:
                                self.stores.append((fi, n, k.arg, k.value))
                elif q in self.repo.funcs:
                    callee = self.repo.funcs[q]
                    ptags = {}
                    params = callee.params
                    for p, a in zip(params, n.args):
                        ts = self.tags_of(fi, a)
                        if ts:
                            ptags[p] = ts
                    if ptags:
                        self.analyse(callee, ptags)

    # pairing -------------------------------------------------------------------
    def pair(self):
        """Fill Read.fields: the object fields each read value flows into."""
        by_func = {}
        for r in self.reads:
            by_func.setdefault(r.fi.qual, []).append(r)
        ret_reads = {}    # callee qual -> reads flowing to its return value
        for q, rs in by_func.items():
            fi = rs[0].fi
            flow = fi.flow
            rets = [s for s in walk_shallow(fi.node) if isinstance(s, ast.Return) and s.value is not None]
            for ret in rets:
                try:
                    srcs = flow.sources(ret.value, ret)
                except AnalysisError:
                    continue
                ids = set()
                for e in srcs:
                    for sub in ast.walk(e):
                        ids.add(id(sub))
                for r in rs:
                    if id(r.node) in ids:
                        ret_reads.setdefault(q, []).append(r)
        for fi, stmt, field, value in self.stores:
            flow = fi.flow
            try:
                srcs = flow.sources(value, stmt)
            except AnalysisError:
                continue
            ids = set()
            calls = []
            for e in srcs:
                for sub in ast.walk(e):
                    ids.add(id(sub))
                    if isinstance(sub, ast.Call):
                        calls.append(sub)
            for r in by_func.get(fi.qual, []):
                if id(r.node) in ids:
                    r.fields.add(field)
            # reads inside callees whose return value flows here: attribute them per call-site tag
            for c in calls:
                q = self.repo.resolve_dotted(fi.module, dotted(c.func) or '')
                if q in ret_reads:
                    callee = self.repo.funcs[q]
                    arg_tags = set()
                    for a in c.args:
                        arg_tags |= self.tags_of(fi, a)
                    for r in ret_reads[q]:
                        r.fields.add((field, frozenset(arg_tags)))
        # a dict that is filled and returned: name it after the field its caller stores the result in
        ret_field = {}
        for fi, stmt, field, value in self.stores:
            if isinstance(value, ast.Call):
                q = self.repo.resolve_dotted(fi.module, dotted(value.func) or '')
                if q:
                    ret_field[q] = field
        for r in self.reads:
            new = set()
            for f in r.fields:
                if isinstance(f, str) and f.startswith('@ret:'):
                    q, idx = f[5:].rsplit('[', 1)
                    new.add('%s[%s' % (ret_field.get(q, q), idx))
                else:
                    new.add(f)
            r.fields = new
        return self.reads
