"""Statement-level inlining of *unknown helpers* at load time.

A repo function that is not in pvs/known_functions.txt did not exist when the rule tables and the reference forms were
reviewed: it is a helper somebody extracted (or added). Before any rule looks at the code, calls of such helpers that
stand alone in a statement (`x = helper(..)`, `helper(..)`, `return helper(..)`, `x += helper(..)`) are replaced by the
helper's body: parameters substituted / bound, locals renamed apart, tail-position returns turned into an assignment of
the result. Helpers that cannot be inlined soundly (generators, returns inside loops or try blocks, recursion, *args)
are left alone and recorded, so that the rules can say "restructured, cannot decide" instead of guessing.
"""
import ast
import copy
from .core import copy_ast
import os

KNOWN_FILE = os.path.join(os.path.dirname(os.path.abspath(__file__)), 'known_functions.txt')


def known_functions():
    out = set()
    try:
        with open(KNOWN_FILE) as f:
            for line in f:
                line = line.strip()
                if line and not line.startswith('#'):
                    out.add(line)
    except OSError:
        pass
    return out


def _dotted(node):
    parts = []
    while isinstance(node, ast.Attribute):
        parts.append(node.attr)
        node = node.value
    if isinstance(node, ast.Name):
        parts.append(node.id)
        return '.'.join(reversed(parts))
    return None


class Inliner:
    def __init__(self, repo):
        self.repo = repo
        self.known = known_functions()
        self.new = {q for q in repo.funcs if q not in self.known} if self.known else set()
        self.counter = 0
        self.inlined = []          # (caller qual, helper qual)
        self.refused = []          # (caller qual, helper qual, reason)

    # -- resolution ---------------------------------------------------------------
    def resolve(self, caller, call):
        f = call.func
        if isinstance(f, ast.Attribute) and isinstance(f.value, ast.Name) and f.value.id in ('self', 'cls') and caller.cls:
            cq = '%s:%s' % (caller.module.name, caller.cls)
            m = self.repo.find_method(cq, f.attr) if cq in self.repo.classes else None
            return (m, f.value.id) if m is not None else (None, None)
        nm = _dotted(f)
        if nm:
            q = self.repo.resolve_dotted(caller.module, nm)
            if q in self.repo.funcs:
                callee = self.repo.funcs[q]
                if callee.cls is None:
                    return callee, None
                decos = {_dotted(d) for d in callee.node.decorator_list}
                if 'staticmethod' in decos:
                    return callee, None
                # ClassName.method(...) on a class / static style call
                if 'classmethod' in decos:
                    return callee, 'cls-explicit'
        return None, None

    # -- can this helper be inlined? --------------------------------------------------
    @staticmethod
    def _ends(body):
        """Every path through the statement list ends in return / raise."""
        if not body:
            return False
        last = body[-1]
        if isinstance(last, (ast.Return, ast.Raise)):
            return True
        if isinstance(last, ast.If) and last.orelse:
            return Inliner._ends(last.body) and Inliner._ends(last.orelse)
        return False

    @staticmethod
    def _tail_returns_only(body):
        """Every `return` is in tail position (through if / else and early-return ifs), none inside loops / try / with."""
        for i, s in enumerate(body):
            rest = body[i + 1:]
            if isinstance(s, ast.Return):
                return not rest
            has = any(isinstance(x, ast.Return) for x in ast.walk(s))
            if not has:
                continue
            if not isinstance(s, ast.If):
                return False
            if not rest:
                return Inliner._tail_returns_only(s.body) and Inliner._tail_returns_only(s.orelse)
            if Inliner._ends(s.body):
                return Inliner._tail_returns_only(s.body) and Inliner._tail_returns_only(s.orelse + rest)
            if s.orelse and Inliner._ends(s.orelse):
                return Inliner._tail_returns_only(s.orelse) and Inliner._tail_returns_only(s.body + rest)
            return False
        return True

    def inlinable(self, callee):
        n = callee.node
        a = n.args
        if a.vararg or a.kwarg:
            return 'star arguments'
        for x in ast.walk(n):
            if isinstance(x, (ast.Yield, ast.YieldFrom, ast.Await, ast.Global, ast.Nonlocal)):
                return 'generator / global'
            if isinstance(x, (ast.FunctionDef, ast.AsyncFunctionDef, ast.ClassDef)) and x is not n:
                return 'nested definition'
        if any((_dotted(d.func if isinstance(d, ast.Call) else d) or '').split('.')[-1] in ('property', 'lru_cache', 'cache', 'cached_property', 'contextmanager')
               for d in n.decorator_list):
            return 'decorated'
        if not self._tail_returns_only(n.body):
            return 'return not in tail position'
        return None

    # -- the transformation -------------------------------------------------------------
    def _convert_returns(self, body, res):
        """Statement list whose returns are in tail position -> same list assigning `res` instead."""
        out = []
        for i, s in enumerate(body):
            rest = body[i + 1:]
            if isinstance(s, ast.Return):
                val = s.value if s.value is not None else ast.Constant(value=None)
                out.append(ast.copy_location(ast.Assign(targets=[ast.Name(id=res, ctx=ast.Store())], value=val), s))
                return out
            if isinstance(s, ast.If) and any(isinstance(x, ast.Return) for x in ast.walk(s)):
                new = ast.If(test=s.test, body=[], orelse=[])
                ast.copy_location(new, s)
                if not rest:
                    new.body = self._convert_returns(s.body, res)
                    new.orelse = self._convert_returns(s.orelse, res) if s.orelse else []
                elif self._ends(s.body):
                    new.body = self._convert_returns(s.body, res)
                    new.orelse = self._convert_returns(s.orelse + rest, res)
                else:
                    new.body = self._convert_returns(s.body + rest, res)
                    new.orelse = self._convert_returns(s.orelse, res)
                if not new.body:
                    new.body = [ast.copy_location(ast.Pass(), s)]
                out.append(new)
                return out
            out.append(s)
        return out

    def expand_call(self, caller, call, callee, selfname):
        """-> (statements, result name) replacing `call`."""
        self.counter += 1
        tag = '__i%d' % self.counter
        body = copy_ast(callee.node.body)
        if body and isinstance(body[0], ast.Expr) and isinstance(body[0].value, ast.Constant) and isinstance(body[0].value.value, str):
            body = body[1:]
        a = callee.node.args
        params = [x.arg for x in a.posonlyargs + a.args]
        bound = {}
        if selfname in ('self', 'cls') and params and params[0] in ('self', 'cls'):
            bound[params[0]] = call.func.value
            params = params[1:]
        elif callee.cls is not None and params and params[0] in ('self', 'cls') and selfname == 'cls-explicit':
            bound[params[0]] = call.func.value
            params = params[1:]
        if any(isinstance(x, ast.Starred) for x in call.args) or any(k.arg is None for k in call.keywords) or len(call.args) > len(params):
            return None
        for p, arg in zip(params, call.args):
            bound[p] = arg
        kwonly = [x.arg for x in a.kwonlyargs]
        for k in call.keywords:
            if k.arg in bound or (k.arg not in params and k.arg not in kwonly):
                return None
            bound[k.arg] = k.value
        allpos = a.posonlyargs + a.args
        for p, d in zip(allpos[len(allpos) - len(a.defaults):], a.defaults):
            bound.setdefault(p.arg, d)
        for p, d in zip(a.kwonlyargs, a.kw_defaults):
            if d is not None:
                bound.setdefault(p.arg, d)
        if not {x.arg for x in allpos + a.kwonlyargs} <= set(bound):
            return None
        # names assigned in the callee (locals) and parameters that are re-bound
        assigned = set()
        for n in ast.walk(ast.Module(body=body, type_ignores=[])):
            if isinstance(n, ast.Name) and isinstance(n.ctx, ast.Store):
                assigned.add(n.id)
            elif isinstance(n, ast.ExceptHandler) and n.name:
                assigned.add(n.name)
        pre = []
        subst = {}
        rename = {}
        for p, arg in bound.items():
            simple = isinstance(arg, (ast.Name, ast.Constant)) or (isinstance(arg, ast.Attribute) and _dotted(arg) is not None)
            if p in assigned or not simple:
                local = p + tag
                pre.append(ast.copy_location(ast.Assign(targets=[ast.Name(id=local, ctx=ast.Store())], value=copy_ast(arg)), call))
                rename[p] = local
            else:
                subst[p] = arg
        for n in assigned:
            if n not in rename and n not in bound:
                rename[n] = n + tag
        res = '__r' + tag

        class R(ast.NodeTransformer):
            def visit_Name(self, n):
                if n.id in subst and isinstance(n.ctx, ast.Load):
                    return copy_ast(subst[n.id])
                if n.id in rename:
                    n.id = rename[n.id]
                return n

            def visit_ExceptHandler(self, n):
                if n.name in rename:
                    n.name = rename[n.name]
                self.generic_visit(n)
                return n
        body = [R().visit(s) for s in body]
        body = self._convert_returns(body, res)
        if not self._ends(callee.node.body):
            # some path falls off the end: the result is None there
            pre.append(ast.copy_location(ast.Assign(targets=[ast.Name(id=res, ctx=ast.Store())], value=ast.Constant(value=None)), call))
        stmts = pre + body
        for s in stmts:
            for n in ast.walk(s):
                if hasattr(n, 'lineno'):
                    n.lineno = call.lineno
                    n.end_lineno = getattr(call, 'end_lineno', call.lineno)
                    n.col_offset = call.col_offset
                    n.end_col_offset = getattr(call, 'end_col_offset', call.col_offset)
        return stmts, res

    def process_function(self, fi, depth=0, stack=()):
        """Inline stand-alone calls of unknown helpers inside `fi` (in place). Returns True if something changed."""
        changed = [False]
        me = self

        def handle(body):
            out = []
            for s in body:
                for field in ('body', 'orelse', 'finalbody'):
                    sub = getattr(s, field, None)
                    if isinstance(sub, list) and sub and isinstance(sub[0], ast.stmt) and not isinstance(s, (ast.FunctionDef, ast.ClassDef)):
                        setattr(s, field, handle(sub))
                for h in getattr(s, 'handlers', []) or []:
                    h.body = handle(h.body)
                if isinstance(s, (ast.Assign, ast.Expr, ast.Return, ast.AugAssign)) and s.value is not None:
                    # a call of a new helper nested in the statement's expression, at a position that is always evaluated:
                    # hoisted into a temporary in front of the statement, then treated like a stand-alone call
                    top = s.value if isinstance(s.value, ast.Call) else None
                    hoisted = []

                    class H(ast.NodeTransformer):
                        def visit_Lambda(self, n):
                            return n

                        def visit_ListComp(self, n):
                            return n
                        visit_SetComp = visit_DictComp = visit_GeneratorExp = visit_ListComp

                        def visit_IfExp(self, n):
                            n.test = self.visit(n.test)
                            return n

                        def visit_BoolOp(self, n):
                            n.values[0] = self.visit(n.values[0])
                            return n

                        def visit_Call(self, n):
                            self.generic_visit(n)
                            if n is top:
                                return n
                            callee, _sn = me.resolve(fi, n)
                            if callee is not None and callee.qual in me.new and callee.qual != fi.qual and callee.qual not in stack \
                                    and me.inlinable(callee) is None:
                                me.counter += 1
                                tmp = '__h%d' % me.counter
                                hoisted.append(ast.copy_location(ast.Assign(targets=[ast.Name(id=tmp, ctx=ast.Store())], value=n), s))
                                return ast.copy_location(ast.Name(id=tmp, ctx=ast.Load()), n)
                            return n
                    s.value = H().visit(s.value)
                    if hoisted:
                        changed[0] = True
                        out.extend(handle(hoisted))
                call = None
                kind = None
                if isinstance(s, ast.Assign) and isinstance(s.value, ast.Call):
                    call, kind = s.value, 'assign'
                elif isinstance(s, ast.Expr) and isinstance(s.value, ast.Call):
                    call, kind = s.value, 'expr'
                elif isinstance(s, ast.Return) and isinstance(s.value, ast.Call):
                    call, kind = s.value, 'return'
                elif isinstance(s, ast.AugAssign) and isinstance(s.value, ast.Call):
                    call, kind = s.value, 'aug'
                if call is not None:
                    callee, selfname = me.resolve(fi, call)
                    if callee is not None and callee.qual in me.new and callee.qual != fi.qual and callee.qual not in stack:
                        why = me.inlinable(callee)
                        if why is None:
                            # helpers of helpers first
                            if depth < 3:
                                me.process_function(callee, depth + 1, stack + (fi.qual,))
                            exp = me.expand_call(fi, call, callee, selfname)
                            if exp is not None:
                                stmts, res = exp
                                resname = ast.Name(id=res, ctx=ast.Load())
                                ast.copy_location(resname, call)
                                if kind == 'assign':
                                    tail = ast.copy_location(ast.Assign(targets=s.targets, value=resname), s)
                                elif kind == 'return':
                                    tail = ast.copy_location(ast.Return(value=resname), s)
                                elif kind == 'aug':
                                    tail = ast.copy_location(ast.AugAssign(target=s.target, op=s.op, value=resname), s)
                                else:
                                    tail = None
                                out.extend(stmts)
                                if tail is not None:
                                    out.append(tail)
                                changed[0] = True
                                me.inlined.append((fi.qual, callee.qual))
                                continue
                            why = 'arguments cannot be bound'
                        me.refused.append((fi.qual, callee.qual, why))
                out.append(s)
            return out
        fi.node.body = handle(fi.node.body)
        if changed[0]:
            ast.fix_missing_locations(fi.node)
            fi._cfg = None
            fi._flow = None
            if hasattr(fi, '_canonical'):
                fi._canonical = None
        return changed[0]

    def run(self):
        if not self.new:
            return
        for q, fi in list(self.repo.funcs.items()):
            if q in self.new:
                continue
            try:
                self.process_function(fi)
            except RecursionError:
                self.refused.append((q, '?', 'recursion'))
            # calls of new helpers that are still there (nested in an expression, or refused above)
            seen = {(c, h) for c, h, _ in self.refused}
            for c in ast.walk(fi.node):
                if isinstance(c, ast.Call):
                    callee, _ = self.resolve(fi, c)
                    if callee is not None and callee.qual in self.new and callee.qual != q and (q, callee.qual) not in seen:
                        seen.add((q, callee.qual))
                        self.refused.append((q, callee.qual, 'called inside an expression'))
