"""Long-lived objects, their page-dependent fields, and upward-exposed reads (rule RESET); global-RNG reachability (rule RNG).

closure(root class)        : classes of objects created (directly or through factory functions) while the root is constructed,
                             with the field -> classes map `self.f = K(...)`, `self.f.append(factory(...))`.
page_fields(K)             : fields of K stored outside __init__ in methods reachable from the per-page entry point.
exposed_reads(entry)       : forward must-write analysis over access paths `self.a.b`, entered context-sensitively into
                             methods called on `self` and on fields of long-lived objects; a load of a page-dependent field
                             that is not definitely written earlier on the path from the entry is upward-exposed.
"""
import ast

from .core import AnalysisError, call_name, dotted, src, walk_shallow, norm_stmt

GENERIC_METHODS = {'append', 'extend', 'get', 'items', 'keys', 'values', 'format', 'join', 'split', 'copy', 'astype', 'reshape',
                   'to', 'cpu', 'numpy', 'float', 'permute', 'eval', 'set', 'add', 'sort', 'insert', 'pop', 'update', 'index',
                   'lower', 'strip', 'encode', 'decode', 'write', 'read', 'close', 'info', 'warning', 'error', 'debug',
                   'getboolean', 'getint', 'getfloat', 'has_section', 'unsqueeze', 'view', 'transpose', 'contiguous', 'size',
                   'min', 'max', 'sum', 'mean', 'tolist', 'item', 'detach', 'flatten', 'ravel', 'argmax', 'toarray', 'chunk',
                   'index_select', 'clone', 'squeeze', 'begin', 'cursor', 'put', 'load_state_dict', 'parameters', 'register_buffer'}


FIELD_MUTATORS = ('append', 'extend', 'insert', 'add', 'update', 'setdefault', 'pop', 'remove', 'clear', 'appendleft', 'popleft')


class World:
    def __init__(self, repo, root_class):
        self.repo = repo
        self.root = root_class
        self.classes = []            # class quals in the closure
        self.field_types = {}        # (class qual, field) -> set(class quals)
        self._build()

    # constructed classes of an expression / function -------------------------------------
    def constructed(self, module, expr, depth=0, seen=None, scope=None):
        """Repo classes whose instances `expr` may evaluate to (constructor calls, factory calls, lambdas)."""
        out = set()
        seen = seen if seen is not None else set()
        for c in ast.walk(expr):
            if isinstance(c, ast.Call):
                nm = dotted(c.func)
                if not nm:
                    continue
                if False:
                    pass
                if scope is not None and isinstance(c.func, ast.Name):
                    for a in ast.walk(scope):
                        if isinstance(a, ast.Assign) and isinstance(a.value, ast.Lambda) and \
                                any(isinstance(t, ast.Name) and t.id == c.func.id for t in a.targets):
                            out |= self.constructed(module, a.value.body, depth + 1, seen)
                q = self.repo.resolve_dotted(module, nm)
                if q in self.repo.classes:
                    out.add(q)
                elif q in self.repo.funcs and depth < 4 and q not in seen:
                    seen.add(q)
                    fi = self.repo.funcs[q]
                    for r in ast.walk(fi.node):
                        if isinstance(r, ast.Return) and r.value is not None:
                            out |= self.constructed(fi.module, r.value, depth + 1, seen)
                            # returned local: union of what was assigned to it (through local aliases)
                            for v in self.local_values(fi.node, r.value):
                                out |= self.constructed(fi.module, v, depth + 1, seen)
        return out

    @staticmethod
    def local_values(scope, expr, depth=4):
        """Expressions a local name may hold (assignments in `scope`, followed through aliases)."""
        out = []
        seen = set()
        todo = [(expr, depth)]
        while todo:
            e, d = todo.pop()
            if isinstance(e, ast.Name) and d > 0 and e.id not in seen:
                seen.add(e.id)
                for s in ast.walk(scope):
                    if isinstance(s, ast.Assign) and any(isinstance(t, ast.Name) and t.id == e.id for t in s.targets):
                        out.append(s.value)
                        todo.append((s.value, d - 1))
        return out

    def _build(self):
        todo = [self.root]
        while todo:
            cq = todo.pop()
            if cq in self.classes or cq not in self.repo.classes:
                continue
            self.classes.append(cq)
            for b in self.repo.mro(cq)[1:]:
                todo.append(b)
            ci = self.repo.classes[cq]
            for mname, fi in ci.methods.items():
                for s in ast.walk(fi.node):
                    tgt = None
                    val = None
                    if isinstance(s, ast.Assign) and isinstance(s.targets[0], ast.Attribute) and isinstance(s.targets[0].value, ast.Name) \
                            and s.targets[0].value.id == 'self':
                        tgt, val = s.targets[0].attr, s.value
                    elif isinstance(s, ast.Call) and isinstance(s.func, ast.Attribute) and s.func.attr == 'append' and \
                            isinstance(s.func.value, ast.Attribute) and isinstance(s.func.value.value, ast.Name) and s.func.value.value.id == 'self' and s.args:
                        tgt, val = s.func.value.attr, s.args[0]
                    if tgt is None:
                        continue
                    ks = self.constructed(fi.module, val, scope=fi.node)
                    # locals holding a constructed object: `lm = LMWrapper(...)` then `Decoder(..., lm, ...)` is followed by constructor-argument propagation below
                    for v2 in self.local_values(fi.node, val):
                        ks |= self.constructed(fi.module, v2, scope=fi.node)
                    if ks:
                        self.field_types.setdefault((cq, tgt), set()).update(ks)
                        todo.extend(ks)
        # constructor-argument propagation: K(..., arg) where K.__init__ stores the parameter in a field
        changed = True
        while changed:
            changed = False
            for q, fi in list(self.repo.funcs.items()):
                for c in ast.walk(fi.node):
                    if not isinstance(c, ast.Call):
                        continue
                    kq = self.repo.resolve_dotted(fi.module, dotted(c.func) or '')
                    if kq not in self.classes:
                        continue
                    init = self.repo.find_method(kq, '__init__')
                    if init is None:
                        continue
                    params = [p for p in init.params if p != 'self']
                    binding = list(zip(params, c.args)) + [(k.arg, k.value) for k in c.keywords if k.arg]
                    for p, a in binding:
                        ks = self.constructed(fi.module, a)
                        for v2 in self.local_values(fi.node, a):
                            ks |= self.constructed(fi.module, v2, scope=fi.node)
                        if not ks:
                            continue
                        for s in ast.walk(init.node):
                            if isinstance(s, ast.Assign) and isinstance(s.targets[0], ast.Attribute) and isinstance(s.value, ast.Name) and s.value.id == p \
                                    and isinstance(s.targets[0].value, ast.Name) and s.targets[0].value.id == 'self':
                                key = (kq, s.targets[0].attr)
                                before = set(self.field_types.get(key, ()))
                                self.field_types.setdefault(key, set()).update(ks)
                                if self.field_types[key] != before:
                                    changed = True
                                    for k2 in ks:
                                        if k2 not in self.classes:
                                            self.classes.append(k2)
                                            # pull in its own fields
                                            sub = World.__new__(World)
                                            sub.repo, sub.root, sub.classes, sub.field_types = self.repo, k2, [], {}
                                            sub._build()
                                            for kk in sub.classes:
                                                if kk not in self.classes:
                                                    self.classes.append(kk)
                                            for kk, vv in sub.field_types.items():
                                                self.field_types.setdefault(kk, set()).update(vv)

    def types_of_field(self, cq, field):
        out = set()
        for c in self.repo.mro(cq):
            out |= self.field_types.get((c, field), set())
        # subclasses may be the dynamic type
        for k in list(out):
            for s in self.repo.subclasses(k):
                if s in self.classes:
                    out.add(s)
        return out

    def method(self, cq, name):
        return self.repo.find_method(cq, name)


def alias_path(fi, e):
    """Like self_path, but a local that is a plain alias of self.a.b (x = self.a.b) counts as that path."""
    p = self_path(e)
    if p is not None:
        return p
    parts = []
    b = e
    while isinstance(b, ast.Attribute):
        parts.append(b.attr)
        b = b.value
    if isinstance(b, ast.Name) and b.id != 'self':
        try:
            r = fi.flow.resolve(b, b)
        except AnalysisError:
            return None
        rp = self_path(r) if r is not b else None
        if rp:
            return tuple(rp) + tuple(reversed(parts))
    return None


def self_path(e):
    """('a', 'b') for self.a.b ; None otherwise."""
    parts = []
    while isinstance(e, ast.Attribute):
        parts.append(e.attr)
        e = e.value
    if isinstance(e, ast.Name) and e.id == 'self':
        return tuple(reversed(parts))
    return None


class Exposure:
    def __init__(self, fi, node, path, chain):
        self.fi, self.node, self.path, self.chain = fi, node, path, chain


class ResetAnalysis:
    def __init__(self, world, entry_cq, entry_method, max_depth=12):
        self.w = world
        self.repo = world.repo
        self.max_depth = max_depth
        self.entry_cq = entry_cq
        self.entry = world.method(entry_cq, entry_method)
        if self.entry is None:
            raise AnalysisError('entry point %s.%s vanished' % (entry_cq, entry_method))
        self.reached = set()
        self.page_stores = {}      # (class qual, field) -> [(fi, stmt)]
        self._collect_reach()
        self.exposed = []
        self._memo = {}
        self._active = set()

    # 1. which methods can run per page, and which fields they store -----------------------
    def callees(self, fi, cq):
        out = []
        for c in ast.walk(fi.node):
            if not isinstance(c, ast.Call) or not isinstance(c.func, ast.Attribute):
                if isinstance(c, ast.Call) and isinstance(c.func, ast.Name):
                    q = self.repo.resolve_dotted(fi.module, c.func.id)
                    if q in self.repo.funcs:
                        out.append((c, None, self.repo.funcs[q], None))
                continue
            recv = c.func.value
            name = c.func.attr
            p = alias_path(fi, recv) if cq is not None else self_path(recv)
            whole = self_path(c.func)
            if whole and cq is not None and self.w.method(cq, name) is None:
                # self.field(...) : the field holds a callable object
                ks = {cq}
                for f in whole:
                    nxt = set()
                    for k in ks:
                        nxt |= self.w.types_of_field(k, f)
                    ks = nxt
                hit = False
                for k in ks:
                    m = self.w.method(k, '__call__')
                    if m is not None:
                        out.append((c, whole, m, k))
                        hit = True
                if hit:
                    continue
            if p == ():
                m = self.w.method(cq, name)
                if m is not None:
                    out.append((c, (), m, cq))
                else:
                    for s in self.repo.subclasses(cq):
                        m = self.repo.classes[s].methods.get(name)
                        if m is not None:
                            out.append((c, (), m, s))
                continue
            if p is not None and len(p) >= 1:
                ks = {cq}
                for f in p:
                    nxt = set()
                    for k in ks:
                        nxt |= self.w.types_of_field(k, f)
                    ks = nxt
                for k in ks:
                    m = self.w.method(k, name)
                    if m is not None:
                        out.append((c, p, m, k))
                if ks:
                    continue
            # module function through an alias: helpers.merge_lines(...)
            nm = dotted(c.func)
            if nm:
                q = self.repo.resolve_dotted(fi.module, nm)
                if q in self.repo.funcs:
                    out.append((c, None, self.repo.funcs[q], None))
                    continue
            # receiver of unknown type: name-based over the closure (never on generic method names)
            if name not in GENERIC_METHODS and not name.startswith('__'):
                for k in self.w.classes:
                    m = self.repo.classes[k].methods.get(name)
                    if m is not None:
                        out.append((c, None, m, k))
        return out

    def _collect_reach(self):
        todo = [(self.entry, self.entry_cq)]
        while todo:
            fi, cq = todo.pop()
            if (fi.qual, cq) in self.reached:
                continue
            self.reached.add((fi.qual, cq))
            if cq is not None and fi.name != '__init__':
                for s in walk_shallow(fi.node):
                    tg = []
                    if isinstance(s, ast.Assign):
                        tg = [t for t in s.targets]
                    elif isinstance(s, (ast.AugAssign, ast.AnnAssign)):
                        tg = [s.target]
                    for t in tg:
                        for tt in (t.elts if isinstance(t, (ast.Tuple, ast.List)) else [t]):
                            b = tt
                            while isinstance(b, ast.Subscript):
                                b = b.value
                            p = self_path(b)
                            if p is None and b is not tt:
                                p = alias_path(fi, b)      # x = self.f ; x[i] = v
                            if p and len(p) >= 1:
                                owner = {cq}
                                for f in p[:-1]:
                                    nxt = set()
                                    for k in owner:
                                        nxt |= self.w.types_of_field(k, f)
                                    owner = nxt
                                for k in owner:
                                    self.page_stores.setdefault((self._decl(k, p[-1]), p[-1]), []).append((fi, s))
            if cq is not None and fi.name != '__init__':
                for c in ast.walk(fi.node):
                    if isinstance(c, ast.Call) and isinstance(c.func, ast.Attribute) and c.func.attr in FIELD_MUTATORS:
                        p = alias_path(fi, c.func.value)
                        if p and len(p) >= 1:
                            owner = {cq}
                            for f in p[:-1]:
                                nxt = set()
                                for k in owner:
                                    nxt |= self.w.types_of_field(k, f)
                                owner = nxt
                            # a method call on a long-lived repo object is analysed as a call, not as a container mutation
                            if any(self.w.types_of_field(k, p[-1]) for k in owner):
                                continue
                            for k in owner:
                                self.page_stores.setdefault((self._decl(k, p[-1]), p[-1]), []).append((fi, c))
            for c, p, m, k in self.callees(fi, cq):
                if m.name == '__init__':
                    continue
                todo.append((m, k))

    def _decl(self, cq, field):
        """The class in the MRO whose __init__ (or any method) first mentions the field; falls back to cq."""
        for c in reversed(self.repo.mro(cq)):
            ci = self.repo.classes[c]
            for fi in ci.methods.values():
                for n in ast.walk(fi.node):
                    if isinstance(n, ast.Attribute) and n.attr == field and isinstance(n.value, ast.Name) and n.value.id == 'self' and isinstance(n.ctx, ast.Store):
                        return c
        return cq

    def tracked(self, cq, field):
        return (self._decl(cq, field), field) in self.page_stores

    # 2. must-write / exposed-read analysis -----------------------------------------------
    def run(self):
        self.analyse(self.entry, self.entry_cq, frozenset(), 0, [self.entry.qual])
        return self.exposed

    def analyse(self, fi, cq, W, depth, chain):
        """Returns the set of paths definitely written when `fi` returns normally (superset of W)."""
        key = (fi.qual, cq, W)
        if key in self._memo:
            return self._memo[key]
        if key in self._active or depth > self.max_depth:
            return W
        self._active.add(key)
        cfg = fi.cfg
        IN = {n.id: None for n in cfg.nodes}
        OUT = {n.id: None for n in cfg.nodes}
        IN[cfg.entry] = set(W)
        OUT[cfg.entry] = set(W)
        work = [m for m, _ in cfg.succ[cfg.entry]]
        reported = set()
        iters = 0
        while work:
            iters += 1
            if iters > 5000:
                raise AnalysisError('RESET fixpoint did not converge in %s' % fi.qual)
            nid = work.pop(0)
            preds = [(p, lab) for p, lab in cfg.pred[nid] if OUT[p] is not None]
            if not preds:
                continue
            inn = None
            for p, lab in preds:
                s = IN[p] if lab == 'exc' else OUT[p]      # an exception may strike before the statement's writes
                s = s if s is not None else set()
                inn = set(s) if inn is None else (inn & s)
            out = self.transfer(fi, cq, cfg.nodes[nid], set(inn), depth, chain, reported)
            if IN[nid] != inn or OUT[nid] != out:
                IN[nid], OUT[nid] = inn, out
                for m, _ in cfg.succ[nid]:
                    if m not in work:
                        work.append(m)
        res = OUT[cfg.exit] if OUT[cfg.exit] is not None else set(W)
        self._active.discard(key)
        self._memo[key] = frozenset(res)
        return self._memo[key]

    def transfer(self, fi, cq, node, W, depth, chain, reported):
        a = node.ast
        if a is None:
            return W
        if node.kind == 'for':
            exprs = [a.iter]
            stores = []
        elif node.kind == 'with':
            exprs = [i.context_expr for i in a.items]
            stores = []
        elif node.kind == 'except':
            return W
        elif isinstance(a, ast.Assign):
            exprs = [a.value] + [t for t in a.targets]
            stores = a.targets
        elif isinstance(a, ast.AugAssign):
            exprs = [a.value, a.target]
            stores = [a.target]
        elif isinstance(a, ast.AnnAssign):
            exprs = [a.value] if a.value is not None else []
            stores = [a.target] if a.value is not None else []
        elif isinstance(a, (ast.FunctionDef, ast.ClassDef, ast.AsyncFunctionDef)):
            return W
        else:
            exprs = [a]
            stores = []
        self_store_fields = set()
        for t in stores:
            for tt in (t.elts if isinstance(t, (ast.Tuple, ast.List)) else [t]):
                p = self_path(tt)
                if p:
                    self_store_fields.add(p)
        # loads and calls, in source order
        events = []
        for e in exprs:
            if e is None:
                continue
            for n in ast.walk(e):
                if isinstance(n, ast.Attribute) and isinstance(n.ctx, ast.Load):
                    p = self_path(n)
                    if p:
                        events.append((n.lineno, n.col_offset, 'load', n, p))
                elif isinstance(n, ast.Call):
                    events.append((n.end_lineno, n.end_col_offset, 'call', n, None))
        # receivers of pure container mutations (self.f.append(x)) accumulate, they do not read for a result
        accum = set()
        for e in exprs:
            if e is None:
                continue
            for n in ast.walk(e):
                if isinstance(n, ast.Call) and isinstance(n.func, ast.Attribute) and n.func.attr in FIELD_MUTATORS and n.func.attr not in ('pop', 'popleft', 'setdefault'):
                    accum.add(id(n.func.value))
        events = [ev for ev in events if not (ev[2] == 'load' and id(ev[3]) in accum)]
        events.sort(key=lambda ev: (ev[0], ev[1]))
        # attribute chains: only the longest path of a chain is a load of that field
        inner = set()
        for ev in events:
            if ev[2] == 'load':
                v = ev[3].value
                while isinstance(v, ast.Attribute):
                    inner.add(id(v))
                    v = v.value
        for ln, col, kind, n, p in events:
            if kind == 'load':
                if id(n) in inner and not self._is_field_of_longlived(cq, p):
                    pass
                # resolve owner class of the last component
                owner = {cq}
                for f in p[:-1]:
                    nxt = set()
                    for k in owner:
                        nxt |= self.w.types_of_field(k, f)
                    owner = nxt
                if not any(self.tracked(k, p[-1]) for k in owner):
                    continue
                if p in W:
                    continue
                # exempt: the value only flows back into the same field (counters)
                if isinstance(a, ast.AugAssign) and self_path(a.target) == p:
                    continue
                if isinstance(a, ast.Assign) and p in self_store_fields and len(a.targets) == 1 and self_path(a.targets[0]) == p:
                    continue
                keyr = (fi.qual, n.lineno, n.col_offset, p)
                if keyr not in reported:
                    reported.add(keyr)
                    self.exposed.append(Exposure(fi, n, p, list(chain)))
            else:
                for c, rp, m, k in self.callees_of_call(fi, cq, n):
                    if rp is None:
                        # unknown receiver / module function: analysed with an empty context, nothing learnt for W
                        if k is not None:
                            self.analyse(m, k, frozenset(), depth + 1, chain + [m.qual])
                        continue
                    pre = tuple(rp)
                    sub = frozenset(q[len(pre):] for q in W if q[:len(pre)] == pre and len(q) > len(pre))
                    res = self.analyse(m, k, sub, depth + 1, chain + [m.qual])
                    W |= {pre + q for q in res}
        for t in stores:
            for tt in (t.elts if isinstance(t, (ast.Tuple, ast.List)) else [t]):
                p = self_path(tt)
                if p and not isinstance(a, ast.AugAssign):
                    W.add(p)
        return W

    def _is_field_of_longlived(self, cq, p):
        return True

    def callees_of_call(self, fi, cq, call):
        key = (fi.qual, cq)
        if not hasattr(self, '_cmap'):
            self._cmap = {}
        if key not in self._cmap:
            m = {}
            for c, p, meth, k in self.callees(fi, cq):
                m.setdefault(id(c), []).append((c, p, meth, k))
            self._cmap[key] = m
        out = self._cmap[key].get(id(call), [])
        # several candidate classes for one receiver: keep them all (join = intersection happens at the caller)
        return out


# ----------------------------------------------------------------------------
# RNG
# ----------------------------------------------------------------------------

RNG_PREFIXES = ('random.', 'np.random.', 'numpy.random.')
RNG_SAFE = ('random.Random', 'np.random.default_rng', 'np.random.RandomState', 'numpy.random.default_rng')


def rng_calls(node):
    out = []
    for c in ast.walk(node):
        if isinstance(c, ast.Call):
            nm = call_name(c) or ''
            if nm.startswith(RNG_PREFIXES) and not nm.startswith(RNG_SAFE) and not nm.endswith('.seed'):
                out.append(c)
    return out


# ----------------------------------------------------------------------------
# process-wide state (rule GLOBALS)
# ----------------------------------------------------------------------------

MUTATING = ('append', 'extend', 'insert', 'add', 'update', 'pop', 'remove', 'clear', 'setdefault', 'popitem', 'sort', 'reverse', '__setitem__')


def global_writes(repo, fi):
    """Writes to state that outlives the call and is not reached through `self`: module-level names (global statement,
    in-place mutation), class attributes, mutable default arguments, function attributes."""
    out = []
    mod = fi.module
    module_level = set()
    for s in mod.tree.body:
        if isinstance(s, ast.Assign):
            for t in s.targets:
                if isinstance(t, ast.Name):
                    module_level.add(t.id)
        elif isinstance(s, ast.AnnAssign) and isinstance(s.target, ast.Name):
            module_level.add(s.target.id)
    local = set(fi.params)
    declared_global = set()
    for n in walk_shallow(fi.node):
        if isinstance(n, ast.Global):
            declared_global |= set(n.names)
        elif isinstance(n, ast.Name) and isinstance(n.ctx, ast.Store):
            local.add(n.id)
        elif isinstance(n, ast.comprehension):
            for x in ast.walk(n.target):
                if isinstance(x, ast.Name):
                    local.add(x.id)
    local -= declared_global
    # mutable defaults
    a = fi.node.args
    names = [x.arg for x in a.posonlyargs + a.args]
    defaults = dict(zip(names[len(names) - len(a.defaults):], a.defaults))
    for k, d in zip(a.kwonlyargs, a.kw_defaults):
        if d is not None:
            defaults[k.arg] = d
    mutable_defaults = {k for k, d in defaults.items() if isinstance(d, (ast.Dict, ast.List, ast.Set)) or
                        (isinstance(d, ast.Call) and dotted(d.func) in ('dict', 'list', 'set', 'collections.defaultdict', 'defaultdict'))}

    def base_name(e):
        while isinstance(e, (ast.Subscript, ast.Attribute)):
            e = e.value
        return e.id if isinstance(e, ast.Name) else None

    is_classmethod = any((dotted(d) or '') == 'classmethod' for d in fi.node.decorator_list)
    first_param = fi.params[0] if fi.params else None
    class_level = set()
    instance_level = set()
    if fi.cls is not None:
        ci = repo.classes.get('%s:%s' % (fi.module.name, fi.cls)) if isinstance(fi.cls, str) else fi.cls
        cnode = getattr(ci, 'node', None)
        if cnode is not None:
            for st in cnode.body:
                if isinstance(st, ast.Assign):
                    class_level |= {t.id for t in st.targets if isinstance(t, ast.Name)}
                elif isinstance(st, ast.AnnAssign) and isinstance(st.target, ast.Name) and st.value is not None:
                    class_level.add(st.target.id)
            for x in ast.walk(cnode):
                if isinstance(x, ast.Attribute) and isinstance(x.ctx, ast.Store) and isinstance(x.value, ast.Name) and x.value.id == 'self':
                    instance_level.add(x.attr)

    def through_class(e):
        # cls.X[...] in a classmethod, or self.X[...] where X exists on the class only (never bound per instance)
        chain = []
        while isinstance(e, (ast.Subscript, ast.Attribute)):
            chain.append(e)
            e = e.value
        if not isinstance(e, ast.Name) or not chain:
            return None
        root_attr = chain[-1]
        if not isinstance(root_attr, ast.Attribute):
            return None
        if is_classmethod and e.id == first_param:
            return 'class attribute %s' % root_attr.attr
        if e.id == 'self' and root_attr.attr in class_level and root_attr.attr not in instance_level and len(chain) > 1:
            return 'class-level attribute %s shared by all instances' % root_attr.attr
        return None

    def is_shared(name):
        if name in declared_global:
            return 'module-level name (global)'
        if name in mutable_defaults:
            return 'mutable default argument'
        if name not in local and name in module_level:
            return 'module-level object'
        q = repo.resolve_dotted(mod, name)
        if name not in local and q in repo.classes:
            return 'class attribute'
        if name not in local and q in repo.funcs:
            return 'function attribute'
        return None
    # a mutable default that escapes (stored into an attribute / container, returned, yielded): every call that omits the
    # argument shares the one object created at definition time
    for n in walk_shallow(fi.node):
        val = None
        if isinstance(n, ast.Assign) and any(isinstance(t, (ast.Attribute, ast.Subscript)) for t in n.targets):
            val = n.value
        elif isinstance(n, (ast.Return, ast.Yield)) and n.value is not None:
            val = n.value
        elif isinstance(n, ast.Call) and isinstance(n.func, ast.Attribute) and n.func.attr in ('append', 'extend', 'add', 'insert', 'setdefault', 'update') and n.args:
            val = n.args[-1]
        if isinstance(val, ast.Name) and val.id in mutable_defaults and val.id not in {x.id for x in walk_shallow(fi.node) if isinstance(x, ast.Name) and isinstance(x.ctx, ast.Store)}:
            out.append((n, 'mutable default argument %s escapes the call (stored / returned): shared by every call that omits it' % val.id))
    for n in walk_shallow(fi.node):
        tgts = []
        if isinstance(n, ast.Assign):
            tgts = n.targets
        elif isinstance(n, (ast.AugAssign, ast.AnnAssign)):
            tgts = [n.target]
        elif isinstance(n, ast.Delete):
            tgts = n.targets
        for t in tgts:
            for tt in (t.elts if isinstance(t, (ast.Tuple, ast.List)) else [t]):
                if isinstance(tt, ast.Name):
                    if tt.id in declared_global:
                        out.append((n, 'assignment to %s (%s)' % (tt.id, 'global')))
                elif isinstance(tt, (ast.Subscript, ast.Attribute)):
                    b = base_name(tt)
                    if b and b not in ('self', 'cls'):
                        why = is_shared(b)
                        if why:
                            out.append((n, 'store into %s (%s)' % (' '.join(src(tt).split()), why)))
                    tc = through_class(tt)
                    if tc:
                        out.append((n, 'store into %s (%s)' % (' '.join(src(tt).split()), tc)))
                    if isinstance(tt, ast.Attribute) and isinstance(tt.value, ast.Attribute) and tt.value.attr == '__class__':
                        out.append((n, 'store into a class attribute through __class__'))
        if isinstance(n, ast.Call) and isinstance(n.func, ast.Attribute) and n.func.attr in MUTATING:
            b = base_name(n.func.value)
            if b and b not in ('self', 'cls'):
                why = is_shared(b)
                if why:
                    out.append((n, 'in-place %s() on %s (%s)' % (n.func.attr, ' '.join(src(n.func.value).split()), why)))
            tc = through_class(ast.Subscript(value=n.func.value, slice=ast.Constant(value=0), ctx=ast.Load()))
            if tc:
                out.append((n, 'in-place %s() on %s (%s)' % (n.func.attr, ' '.join(src(n.func.value).split()), tc)))
    return out
