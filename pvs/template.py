"""Comparison of a function's effects with a reference (template) function.

effects(fn)     : returns / stores / augmented stores / yielded values, each with its enclosing
                  control context, locals inlined, surviving locals alpha-renamed in order of
                  appearance, parameters named by position.
semiring normal : terms over (+) = np.logaddexp | np.minimum and (x) = + are brought to a sum of
                  products (a polynomial); for the log semiring this is a complete decision of
                  equality of the expressions as functions of their atoms.
A term that differs is reported with both normal forms.
"""
import ast
import copy
import os
from .core import copy_ast

from .core import AnalysisError, FuncInfo, Module, canon, dotted, names_loaded, src, walk_shallow, target_names


class _Mod:
    def __init__(self, name='<template>', tree=None):
        self.name = name
        self.relpath = name
        self.imports = {}
        self.tree = tree


def module_constants(mod, _depth=0):
    """Module-level NAME = <number | string | -number> bindings (single assignment)."""
    out = {}
    tree = getattr(mod, 'tree', None)
    if tree is None:
        return out
    counts = {}
    for s in tree.body:
        if isinstance(s, ast.Assign) and len(s.targets) == 1 and isinstance(s.targets[0], ast.Name):
            counts[s.targets[0].id] = counts.get(s.targets[0].id, 0) + 1
            v = s.value
            if isinstance(v, ast.Constant) and isinstance(v.value, (int, float, str)) and not isinstance(v.value, bool):
                out[s.targets[0].id] = v
            elif isinstance(v, ast.UnaryOp) and isinstance(v.op, ast.USub) and isinstance(v.operand, ast.Constant):
                out[s.targets[0].id] = v
            elif isinstance(v, ast.Call) and dotted(v.func) == 're.compile' and v.args and not v.keywords \
                    and all(isinstance(a, ast.Constant) or (isinstance(a, ast.Attribute) and dotted(a) and dotted(a).startswith('re.')) for a in v.args):
                out[s.targets[0].id] = v          # a pattern compiled once at import: the immutable value of re.compile(<literal>)
        elif isinstance(s, ast.AnnAssign) and isinstance(s.target, ast.Name) and isinstance(s.value, ast.Constant) and isinstance(s.value.value, (int, float, str)):
            counts[s.target.id] = counts.get(s.target.id, 0) + 1
            out[s.target.id] = s.value
    out = {k: v for k, v in out.items() if counts.get(k) == 1}
    # constants imported from other repo modules
    repo = getattr(mod, 'repo', None)
    if repo is not None and _depth < 2:
        for alias, target in getattr(mod, 'imports', {}).items():
            if alias in out or '.' not in target:
                continue
            m2, nm = target.rsplit('.', 1)
            other = repo.modules.get(m2)
            if other is not None and other is not mod:
                oc = module_constants(other, _depth + 1)
                if nm in oc:
                    out[alias] = oc[nm]
    return out


_TREES = {}
_TEMPLATES = {}


def template_func(source, name=None, closure=False):
    from .core import normalise_tree, SIMPLE_GENERATORS
    key = (hash(source), len(source), name, closure, tuple(sorted(SIMPLE_GENERATORS.items())))
    if key in _TEMPLATES:
        return _TEMPLATES[key]
    tkey = key[:2] + key[4:]
    if tkey not in _TREES:
        _TREES[tkey] = normalise_tree(ast.parse(source))
    tree = _TREES[tkey]
    fi = _template_func(tree, name, closure)
    _TEMPLATES[key] = fi
    return fi


def _template_func(tree, name, closure):
    fns = [n for n in tree.body if isinstance(n, ast.FunctionDef)]
    if name:
        fns = [f for f in fns if f.name == name]
    if len(fns) != 1:
        raise AnalysisError('template must define exactly one function')
    fi = FuncInfo(_Mod(tree=tree), None, fns[0].name, fns[0], '<template>:' + fns[0].name)
    fi.closure = closure
    return fi


OPLUS = {'np.logaddexp': 'logaddexp', 'numpy.logaddexp': 'logaddexp', 'np.minimum': 'minimum', 'numpy.minimum': 'minimum'}


def semiring(t):
    """Sum-of-products normal form of a canon() term."""
    def poly(t):
        """-> (oplus kind or None, list of monomials), monomial = sorted tuple of factors (canon terms)."""
        if isinstance(t, tuple) and t and t[0] == 'call' and t[1][0] == 'fn' and t[1][1] in OPLUS and not t[3] and len(t[2]) == 2:
            kind = OPLUS[t[1][1]]
            monos = []
            for a in t[2]:
                k, ms = poly(a)
                if k is not None and k != kind:
                    return None, [(norm(t, shallow=True),)]
                monos.extend(ms)
            return kind, monos
        if isinstance(t, tuple) and t and t[0] == 'call' and t[1] == ('fn', 'np.add.outer') and len(t[2]) == 2 and not t[3]:
            return poly(('add', ('row', t[2][0]), ('col', t[2][1])))
        if isinstance(t, tuple) and t and t[0] == 'add':
            kind = None
            monos = [()]
            for a in t[1:]:
                k, ms = poly(a)
                if k is not None:
                    if kind is not None and kind != k:
                        return None, [(norm(t, shallow=True),)]
                    kind = k
                monos = [tuple(sorted(m + m2, key=repr)) for m in monos for m2 in ms]
            return kind, monos
        return None, [(norm(t),)]

    def norm(t, shallow=False):
        if not isinstance(t, tuple):
            return t
        if not shallow and t and (t[0] == 'add' or (t[0] == 'call' and t[1][0] == 'fn' and (t[1][1] in OPLUS or t[1][1] == 'np.add.outer'))):
            k, ms = poly(t)
            ms = sorted(ms, key=repr)
            if k is None and len(ms) == 1:
                m = ms[0]
                return m[0] if len(m) == 1 else ('prod',) + tuple(m)
            return ('poly', k) + tuple(ms)
        return tuple(norm(x) for x in t)

    return norm(t)


class Effect:
    def __init__(self, kind, ctx, target, value, node):
        self.kind, self.ctx, self.target, self.value, self.node = kind, ctx, target, value, node
        self.key = None

    def show(self):
        return '%s %s%s%s' % (self.kind, (src(self.target) + ' <- ') if self.target is not None else '',
                              src(self.value) if self.value is not None else '',
                              (' | under ' + '; '.join(c[0] + ' ' + src(c[1]) + (' in ' + src(c[2]) if len(c) > 2 and c[2] is not None else '') for c in self.ctx)) if self.ctx else '')


MUTATORS = ('append', 'extend', 'insert', 'add', 'update', 'pop', 'remove', 'sort', 'reverse', 'clear')


def mutated_locals(fi):
    """Locals that are mutated in place (subscript stores, mutating method calls): never inlined."""
    out = set()
    loads = {}
    for n in ast.walk(fi.node):
        if isinstance(n, ast.Name) and isinstance(n.ctx, ast.Load):
            loads[n.id] = loads.get(n.id, 0) + 1
    for n in walk_shallow(fi.node):
        if isinstance(n, (ast.Assign, ast.AugAssign)):
            tgts = n.targets if isinstance(n, ast.Assign) else [n.target]
            for t in tgts:
                for tt in (t.elts if isinstance(t, (ast.Tuple, ast.List)) else [t]):
                    b = tt
                    while isinstance(b, (ast.Subscript, ast.Attribute)):
                        b = b.value
                    if isinstance(tt, (ast.Subscript, ast.Attribute)) and isinstance(b, ast.Name):
                        out.add(b.id)
        elif isinstance(n, ast.Call) and isinstance(n.func, ast.Attribute) and n.func.attr in MUTATORS \
                and isinstance(n.func.value, ast.Name):
            out.add(n.func.value.id)
        elif isinstance(n, ast.Expr) and isinstance(n.value, ast.Call):
            # a call made only for its side effects may mutate the objects passed to it; that matters only for a local
            # that is read again somewhere else
            for a in list(n.value.args) + [k.value for k in n.value.keywords]:
                if isinstance(a, ast.Name) and loads.get(a.id, 0) > 1:
                    out.add(a.id)
    # temporaries made by hoisting a nested helper call stand for the expression they replaced
    return {x for x in out if not x.startswith(('__h', '__r__i'))} - set(fi.params) - {'self'}


_PURE_BUILTINS = {'len', 'int', 'float', 'str', 'bool', 'sorted', 'min', 'max', 'sum', 'abs', 'round', 'range', 'list', 'dict', 'set', 'tuple', 'zip',
                  'enumerate', 'isinstance', 'repr', 'any', 'all', 'reversed', 'divmod'}


def _collect(fi, inline_depth=60, keep=()):
    flow = fi.flow
    effects = []
    cands = []
    _ann = {}
    _ann_rev = {}
    mut = mutated_locals(fi)
    keep = set(keep) | mut

    def inl(e, at):
        if e is None:
            return None
        at = _ann.get(id(at), at)
        return flow.inline(e, at, depth=inline_depth, stop=keep)

    def terminates(body):
        if not body:
            return False
        last = body[-1]
        if isinstance(last, (ast.Return, ast.Raise, ast.Continue, ast.Break)):
            return True
        if isinstance(last, ast.If) and last.orelse:
            return terminates(last.body) and terminates(last.orelse)
        if isinstance(last, ast.Try) and not last.finalbody:
            return terminates(last.body + last.orelse) and all(terminates(h.body) for h in last.handlers)
        return False

    def visit(stmts, ctx, tail=False, drop_last_continue=False):
        """tail: this statement list ends the iteration of the enclosing loop (the loop body itself, or a branch of an `if`
        that is the last statement of such a list). A `continue` closing a tail list, or closing a branch of an `if` that
        sits directly in a tail list (what follows that `if` is placed under the negated test below), skips nothing that
        the contexts do not already say, and is not an effect."""
        ctx = list(ctx)
        if (tail or drop_last_continue) and stmts and isinstance(stmts[-1], ast.Continue):
            stmts = stmts[:-1]
        n_stmts = len(stmts)
        for i_stmt, s in enumerate(stmts):
            if isinstance(s, ast.AnnAssign) and s.value is not None:
                s2 = ast.Assign(targets=[s.target], value=s.value, lineno=s.lineno, col_offset=s.col_offset)
                s2.end_lineno, s2.end_col_offset = getattr(s, 'end_lineno', s.lineno), getattr(s, 'end_col_offset', 0)
                _ann[id(s2)] = s
                _ann_rev[id(s2)] = s
                s = s2
            if isinstance(s, ast.If):
                t_in = inl(s.test, s.test)
                branch_tail = tail and i_stmt == n_stmts - 1
                visit(s.body, ctx + [('if', t_in)], tail=branch_tail, drop_last_continue=tail)
                visit(s.orelse, ctx + [('ifnot', t_in)], tail=branch_tail, drop_last_continue=tail)
                # `if c: return ...` followed by the rest  ==  `if c: return ... else: rest`
                if terminates(s.body) and not terminates(s.orelse):
                    ctx = ctx + [('ifnot', t_in)]
                elif s.orelse and terminates(s.orelse) and not terminates(s.body):
                    ctx = ctx + [('if', t_in)]
            elif isinstance(s, ast.For):
                c = ('for', copy_ast(s.target), inl(s.iter, s))
                visit(s.body, ctx + [c], tail=True)
                visit(s.orelse, ctx)
            elif isinstance(s, ast.While):
                visit(s.body, ctx + [('while', inl(s.test, s.test))], tail=True)
            elif isinstance(s, ast.Try):
                visit(s.body, ctx + [('try', ast.Constant(value=None))])
                for h in s.handlers:
                    visit(h.body, ctx + [('except', h.type if h.type is not None else ast.Constant(value=None))])
                visit(s.orelse, ctx)
                visit(s.finalbody, ctx)
            elif isinstance(s, ast.With):
                for it in s.items:
                    nm = dotted(it.context_expr.func if isinstance(it.context_expr, ast.Call) else it.context_expr) or ''
                    # a context manager entered without binding a name is entered for what it does (a lock, numpy error
                    # state, a pool); gradient bookkeeping switches do not touch results
                    if it.optional_vars is None and nm.split('.')[-1] not in ('no_grad', 'inference_mode', 'enable_grad'):
                        effects.append(Effect('with', list(ctx), None, inl(it.context_expr, s), s))
                visit(s.body, ctx)
            elif isinstance(s, ast.Return):
                effects.append(Effect('return', list(ctx), None, inl(s.value, s) if s.value is not None else None, s))
            elif isinstance(s, ast.Raise):
                # which exception class is raised decides which handler up the stack takes it; the message does not
                exc = s.exc.func if isinstance(s.exc, ast.Call) else s.exc
                effects.append(Effect('raise', list(ctx), None, exc if isinstance(exc, (ast.Name, ast.Attribute)) else None, s))
            elif isinstance(s, ast.Assert):
                effects.append(Effect('assert', list(ctx), None, inl(s.test, s), s))
            elif isinstance(s, (ast.Break, ast.Continue)):
                effects.append(Effect(type(s).__name__.lower(), list(ctx), None, None, s))
            elif isinstance(s, ast.Assign):
                for t in s.targets:
                    for tt in (t.elts if isinstance(t, (ast.Tuple, ast.List)) else [t]):
                        if isinstance(tt, (ast.Subscript, ast.Attribute)):
                            tl = copy_ast(tt)
                            tl.ctx = ast.Load()
                            effects.append(Effect('store', list(ctx), inl(tl, s), inl(s.value, s), s))
                # loop-carried / multiply-defined locals cannot be inlined: keep as named effects
                for t in s.targets:
                    if isinstance(t, ast.Name):
                        cands.append(Effect('bind:' + t.id, list(ctx), None, inl(s.value, s), s))
                    elif isinstance(t, (ast.Tuple, ast.List)):
                        for i, nm in enumerate(target_names(t)):
                            cands.append(Effect('bind:' + nm, list(ctx), ast.Constant(value=i), inl(s.value, s), s))
            elif isinstance(s, ast.AugAssign):
                tl = copy_ast(s.target)
                tl.ctx = ast.Load()
                v = ast.BinOp(left=tl, op=s.op, right=s.value)
                ast.copy_location(v, s)
                ast.fix_missing_locations(v)
                if isinstance(s.target, ast.Name):
                    # in-place update of a name: kept apart from re-binding (aliasing of arrays / tensors)
                    cands.append(Effect('aug:' + s.target.id, list(ctx), None,
                                          ast.BinOp(left=ast.Name(id=s.target.id, ctx=ast.Load()), op=s.op, right=inl(s.value, s)), s))
                else:
                    effects.append(Effect('store', list(ctx), inl(tl, s), ast.BinOp(left=inl(tl, s), op=s.op, right=inl(s.value, s)), s))
            elif isinstance(s, ast.Expr):
                if isinstance(s.value, ast.Call):
                    effects.append(Effect('call', list(ctx), None, inl(s.value, s), s))
                elif isinstance(s.value, (ast.Yield, ast.YieldFrom)) and s.value.value is not None:
                    effects.append(Effect('yield', list(ctx), None, inl(s.value.value, s), s))
    # parameter defaults and memoising decorators are part of the behaviour
    a_ = fi.node.args
    pos = a_.posonlyargs + a_.args
    for p_, d_ in zip(pos[len(pos) - len(a_.defaults):], a_.defaults):
        effects.append(Effect('default:%d' % pos.index(p_), [], None, d_, fi.node))
    for p_, d_ in zip(a_.kwonlyargs, a_.kw_defaults):
        if d_ is not None:
            effects.append(Effect('default:' + p_.arg, [], None, d_, fi.node))
    for d_ in fi.node.decorator_list:
        nm = dotted(d_.func if isinstance(d_, ast.Call) else d_) or ''
        # a decorator replaces the function by whatever it returns: only the ones that leave the call's result alone are ignored
        if nm.split('.')[-1] not in ('staticmethod', 'classmethod', 'property', 'abstractmethod', 'jit', 'njit', 'for_examples', 'wraps', 'no_grad', 'inference_mode') \
                and not nm.endswith('.setter'):
            effects.append(Effect('decorator', [], None, d_, fi.node))
    visit(fi.node.body, [])
    # binds are effects only for locals that survive inlining somewhere (loop-carried, mutated, multiply defined)
    local_names = {d.name for ds in flow.defs_at.values() for d in ds if d.kind != 'param'}

    def free(e):
        out = set()
        for x in (e.target, e.value):
            if isinstance(x, ast.AST):
                out |= {n.id for n in ast.walk(x) if isinstance(n, ast.Name)}
        for c in e.ctx:
            for x in c[1:]:
                if isinstance(x, ast.AST):
                    out |= {n.id for n in ast.walk(x) if isinstance(n, ast.Name)}
        return out & local_names
    surviving = set()
    for e in effects:
        surviving |= free(e)
    changed = True
    used = []
    while changed:
        changed = False
        for cnd in cands:
            if cnd.kind.split(':', 1)[1] in surviving and cnd not in used:
                used.append(cnd)
                new = free(cnd) - surviving
                if new:
                    surviving |= new
                changed = True
    effects.extend(sorted(used, key=lambda e: (e.node.lineno, e.node.col_offset)))
    # an assignment whose value is never read (dead, or re-bound before any read) still EVALUATES its right-hand side: a
    # call in it is made for whatever it does (`region = assign_lines_to_regions(.., [region])[0]` fills the region)
    read_defs = set()
    for n in ast.walk(fi.node):
        if isinstance(n, ast.Name) and isinstance(n.ctx, ast.Load):
            try:
                for d in flow.defs_reaching(n.id, n):
                    read_defs.add(id(d))
            except AnalysisError:
                read_defs.add(('name', n.id))
    by_stmt = {}
    for ds in flow.defs_at.values():
        for d in ds:
            if d.kind == 'assign' and d.stmt is not None:
                by_stmt.setdefault(id(d.stmt), []).append(d)
    used_ids = {id(u) for u in used}
    for cnd in cands:
        if id(cnd) in used_ids or not cnd.kind.startswith('bind:'):
            continue
        nm = cnd.kind.split(':', 1)[1]
        ds = by_stmt.get(id(_ann_rev.get(id(cnd.node), cnd.node)), []) or by_stmt.get(id(cnd.node), [])
        ds = [d for d in ds if d.name == nm]
        if not ds or ('name', nm) in read_defs or any(id(d) in read_defs for d in ds):
            continue
        raw = cnd.node.value if isinstance(cnd.node, ast.Assign) else None

        def impure(x):
            nm_ = dotted(x.func) or ''
            return not (nm_.startswith(('np.', 'numpy.', 'math.', 'cv2.get', 'os.path.')) or nm_ in _PURE_BUILTINS)
        if raw is not None and any(isinstance(x, ast.Call) and impure(x) for x in ast.walk(raw)) and isinstance(cnd.value, ast.AST):
            effects.append(Effect('call', list(cnd.ctx), None, cnd.value, cnd.node))
    effects.sort(key=lambda e: (e.node.lineno, e.node.col_offset))
    return effects


def _multi_def(flow, name):
    n = 0
    for ds in flow.defs_at.values():
        for d in ds:
            if d.name == name and d.kind != 'param':
                n += 1
    return n > 1


class HelperInliner:
    """Replaces calls of *simple* repo helpers (whose only effect is one unconditional `return <expr>`) by that
    expression with the arguments substituted, so that extracting such a helper, or inlining one, changes nothing.
    Names are resolved from the module / class of the repository function under comparison, for both sides."""

    def __init__(self, anchor_fi, depth=2):
        self.fi = anchor_fi
        self.repo = getattr(anchor_fi.module, 'repo', None)
        self.depth = depth
        if self.repo is not None and not hasattr(self.repo, '_simple_cache'):
            self.repo._simple_cache = {}
        self._cache = self.repo._simple_cache if self.repo is not None else {}
        self._rcache = {}

    def resolve(self, call):
        if self.repo is None:
            return None, False
        f = call.func
        key = dotted(f)
        if key is None:
            return None, False
        if key not in self._rcache:
            self._rcache[key] = self._resolve(call)
        return self._rcache[key]

    def _resolve(self, call):
        f = call.func
        if isinstance(f, ast.Attribute) and isinstance(f.value, ast.Name) and f.value.id == 'self' and self.fi.cls:
            cq = '%s:%s' % (self.fi.module.name, self.fi.cls)
            m = self.repo.find_method(cq, f.attr) if cq in self.repo.classes else None
            # a static method called through self takes no receiver
            return m, (m is not None and not any(dotted(d) == 'staticmethod' for d in m.node.decorator_list))
        nm = dotted(f)
        if nm:
            q = self.repo.resolve_dotted(self.fi.module, nm)
            if q in self.repo.funcs:
                callee = self.repo.funcs[q]
                if callee.cls is None or any(dotted(d) == 'staticmethod' for d in callee.node.decorator_list):
                    return callee, False
        return None, False

    def simple(self, callee):
        if callee.qual in self._cache:
            return self._cache[callee.qual]
        self._cache[callee.qual] = None
        res = None
        try:
            if not any(isinstance(n, (ast.Yield, ast.YieldFrom, ast.Await)) for n in ast.walk(callee.node)) and callee.qual != self.fi.qual:
                c = canonical_func(callee)
                effs = [e for e in _collect(c) if not e.kind.startswith('default')]
                a = c.node.args
                if len(effs) == 1 and effs[0].kind == 'return' and not effs[0].ctx and effs[0].value is not None and not a.vararg and not a.kwarg:
                    locals_ = {d.name for ds in c.flow.defs_at.values() for d in ds if d.kind != 'param'}
                    v = effs[0].value
                    if not any(isinstance(n, ast.Name) and n.id in locals_ and n.id not in c.params for n in ast.walk(v)):
                        res = (c, v)
        except (AnalysisError, RecursionError):
            res = None
        self._cache[callee.qual] = res
        return res

    def debool(self, expr):
        """`True if f(..) else False` is `f(..)` when f is a repo function / uniquely named repo method that returns bools only."""
        repo, mod = self.repo, self.fi.module

        def bool_call(c):
            if not isinstance(c, ast.Call):
                return False
            fn = dotted(c.func) or ''
            if fn and not fn.startswith('self.'):
                q = repo.resolve_dotted(mod, fn)
                if q in repo.funcs:
                    return returns_bool(repo, repo.funcs[q])
            if isinstance(c.func, ast.Attribute):
                cands = [f for f in repo.funcs.values() if f.name == c.func.attr and f.cls]
                return len(cands) == 1 and returns_bool(repo, cands[0])
            return False
        if not any(isinstance(n, ast.IfExp) and isinstance(n.body, ast.Constant) and n.body.value is True and isinstance(n.orelse, ast.Constant)
                   and n.orelse.value is False and bool_call(n.test) for n in ast.walk(expr)):
            return expr

        class B(ast.NodeTransformer):
            def visit_IfExp(self, n):
                self.generic_visit(n)
                if isinstance(n.body, ast.Constant) and n.body.value is True and isinstance(n.orelse, ast.Constant) and n.orelse.value is False and bool_call(n.test):
                    return n.test
                return n
        return B().visit(copy_ast(expr))

    def expand(self, expr, depth=None):
        if expr is not None and isinstance(expr, ast.AST):
            try:
                expr = self.debool(expr)
            except Exception:
                pass
        depth = self.depth if depth is None else depth
        if expr is None or depth <= 0:
            return expr
        me = self

        def func_ref(v):
            # a bare reference to a single-expression repo function handed over as a value (key=self._score)
            if isinstance(v, (ast.Name, ast.Attribute)) and dotted(v):
                callee, is_m = me.resolve(ast.Call(func=v, args=[], keywords=[]))
                if callee is not None and me.simple(callee) is not None:
                    return callee, is_m
            return None

        def interesting(n):
            if not isinstance(n, ast.Call):
                return False
            if self.resolve(n)[0] is not None and self.simple(self.resolve(n)[0]) is not None:
                return True
            return any(func_ref(v) for v in list(n.args) + [k.value for k in n.keywords])
        if not any(interesting(n) for n in ast.walk(expr)):
            return expr

        def eta(v):
            fr = func_ref(v)
            if fr is None:
                return v
            callee, is_m = fr
            a = callee.node.args
            if a.vararg or a.kwarg or a.kwonlyargs:
                return v
            names = [x.arg for x in a.posonlyargs + a.args]
            if is_m or (callee.cls is not None and names and names[0] in ('self', 'cls') and not any(dotted(d) == 'staticmethod' for d in callee.node.decorator_list)):
                names = names[1:]
            n_required = len(names) - len(a.defaults)
            names = names[:max(n_required, 1)] if names else names
            lam = ast.Lambda(args=ast.arguments(posonlyargs=[], args=[ast.arg(arg=n) for n in names], vararg=None, kwonlyargs=[], kw_defaults=[], kwarg=None, defaults=[]),
                             body=ast.Call(func=v, args=[ast.Name(id=n, ctx=ast.Load()) for n in names], keywords=[]))
            return ast.fix_missing_locations(ast.copy_location(lam, v))

        class T(ast.NodeTransformer):
            def visit_Call(self, node):
                node.args = [eta(x) for x in node.args]
                for k in node.keywords:
                    k.value = eta(k.value)
                self.generic_visit(node)
                callee, is_method = me.resolve(node)
                if callee is None:
                    return node
                simp = me.simple(callee)
                if simp is None:
                    return node
                c, v = simp
                a = c.node.args
                names = [x.arg for x in a.posonlyargs + a.args]
                if is_method or (callee.cls is not None and names and names[0] in ('self', 'cls') and not any(dotted(d) == 'staticmethod' for d in callee.node.decorator_list)):
                    bound = {names[0]: node.func.value if isinstance(node.func, ast.Attribute) else ast.Name(id='self', ctx=ast.Load())}
                    names = names[1:]
                else:
                    bound = {}
                if any(isinstance(x, ast.Starred) for x in node.args) or any(k.arg is None for k in node.keywords) or len(node.args) > len(names):
                    return node
                for n_, arg in zip(names, node.args):
                    bound[n_] = arg
                kwonly = [x.arg for x in a.kwonlyargs]
                for k in node.keywords:
                    if k.arg in bound or (k.arg not in names and k.arg not in kwonly):
                        return node
                    bound[k.arg] = k.value
                allpos = a.posonlyargs + a.args
                for p_, d_ in zip(allpos[len(allpos) - len(a.defaults):], a.defaults):
                    bound.setdefault(p_.arg, d_)
                for p_, d_ in zip(a.kwonlyargs, a.kw_defaults):
                    if d_ is not None:
                        bound.setdefault(p_.arg, d_)
                need_ = set(x.arg for x in allpos + a.kwonlyargs)
                if not need_ <= set(bound):
                    return node
                shadow = set()
                for n2 in ast.walk(v):
                    if isinstance(n2, ast.comprehension):
                        shadow |= set(target_names(n2.target))
                    elif isinstance(n2, ast.Lambda):
                        shadow |= {x.arg for x in n2.args.args}
                if shadow & set(bound):
                    return node

                class S(ast.NodeTransformer):
                    def visit_Name(self, n3):
                        if isinstance(n3.ctx, ast.Load) and n3.id in bound:
                            return copy_ast(bound[n3.id])
                        return n3
                out = S().visit(copy_ast(v))
                return me.expand(out, depth - 1)
        return T().visit(copy_ast(expr))


def _fuse_comprehensions(e):
    """`f(x) for x in [y for y in S if c(y)] if d(x)`  is  `f(y) for y in S if c(y) if d(y)`: a comprehension that only
    filters (its element is its own variable) and is iterated once by another comprehension is fused into it."""
    class F(ast.NodeTransformer):
        def fuse(self, node):
            self.generic_visit(node)
            g0 = node.generators[0]
            inner = g0.iter
            if isinstance(inner, (ast.ListComp, ast.GeneratorExp)) and len(inner.generators) == 1 and isinstance(g0.target, ast.Name) \
                    and not (isinstance(inner.elt, ast.Name) and isinstance(inner.generators[0].target, ast.Name) and inner.elt.id == inner.generators[0].target.id) \
                    and not g0.is_async and len(node.generators) == 1:
                # mapping inner comprehension: `g(x) for x in [f(y) for y in S if c(y)] if d(x)` is `g(f(y)) for y in S if c(y) if d(f(y))`
                ov = g0.target.id
                ig = inner.generators[0]
                inner_bound = {x.id for x in ast.walk(ig.target) if isinstance(x, ast.Name)}
                outer_other = ({x.id for x in ast.walk(node) if isinstance(x, ast.Name)} - {x.id for x in ast.walk(inner) if isinstance(x, ast.Name)}) - {ov}
                from .core import free_names
                if not (inner_bound & outer_other) and ov not in free_names(inner):
                    elt = inner.elt

                    class M(ast.NodeTransformer):
                        def visit_Name(self, n):
                            if n.id == ov and isinstance(n.ctx, ast.Load):
                                return copy_ast(elt)
                            return n
                    if isinstance(node, ast.DictComp):
                        node.key = M().visit(node.key)
                        node.value = M().visit(node.value)
                    else:
                        node.elt = M().visit(node.elt)
                    outer_ifs = [M().visit(i) for i in g0.ifs]
                    g0.target = ig.target
                    g0.iter = ig.iter
                    g0.ifs = list(ig.ifs) + outer_ifs
                    return node
            if isinstance(inner, (ast.ListComp, ast.GeneratorExp)) and len(inner.generators) == 1 and isinstance(g0.target, ast.Name) \
                    and isinstance(inner.elt, ast.Name) and isinstance(inner.generators[0].target, ast.Name) \
                    and inner.elt.id == inner.generators[0].target.id and not g0.is_async:
                iv, ov = inner.elt.id, g0.target.id
                outer_names = {x.id for x in ast.walk(node) if isinstance(x, ast.Name)} - {ov}
                if iv != ov and iv in outer_names:
                    return node

                class R(ast.NodeTransformer):
                    def visit_Name(self, n):
                        if n.id == iv:
                            n.id = ov
                        return n
                ifs = [R().visit(copy_ast(i)) for i in inner.generators[0].ifs]
                g0.iter = inner.generators[0].iter
                g0.ifs = ifs + g0.ifs
            return node
        visit_ListComp = visit_SetComp = visit_GeneratorExp = visit_DictComp = fuse
    return F().visit(e)


def _untuple_comp_targets(e):
    """`.. for a, b in X ..` is `.. for t in X ..` with a = t[0], b = t[1] (so that `j[0] for j in enumerate(s)` and
    `i for i, v in enumerate(s)` are one form)."""
    counter = [0]

    class U(ast.NodeTransformer):
        def comp(self, node):
            for gi, g in enumerate(node.generators):
                if isinstance(g.target, ast.Tuple) and g.target.elts and all(isinstance(t, ast.Name) for t in g.target.elts):
                    var = '__tup%d' % counter[0]
                    counter[0] += 1
                    index = {t.id: i for i, t in enumerate(g.target.elts)}
                    if len(index) != len(g.target.elts):
                        continue

                    class R(ast.NodeTransformer):
                        def visit_Name(self, n):
                            if n.id in index and isinstance(n.ctx, ast.Load):
                                return ast.copy_location(ast.Subscript(value=ast.Name(id=var, ctx=ast.Load()), slice=ast.Constant(value=index[n.id]), ctx=ast.Load()), n)
                            return n
                    g.target = ast.copy_location(ast.Name(id=var, ctx=ast.Store()), g.target)
                    g.ifs = [R().visit(i) for i in g.ifs]
                    for g2 in node.generators[gi + 1:]:
                        g2.iter = R().visit(g2.iter)
                        g2.ifs = [R().visit(i) for i in g2.ifs]
                    if isinstance(node, ast.DictComp):
                        node.key = R().visit(node.key)
                        node.value = R().visit(node.value)
                    else:
                        node.elt = R().visit(node.elt)
            self.generic_visit(node)
            return node
        visit_ListComp = visit_SetComp = visit_GeneratorExp = visit_DictComp = comp
    return ast.fix_missing_locations(U().visit(e))


def _comp_rename(e):
    """Rename comprehension / lambda variables by nesting depth and position (de Bruijn-like): two copies of one
    comprehension standing side by side get the same names, so they compare equal."""
    e = _untuple_comp_targets(_fuse_comprehensions(copy_ast(e)))

    def rn(node, mapping, depth):
        if isinstance(node, (ast.ListComp, ast.SetComp, ast.GeneratorExp, ast.DictComp)):
            mapping = dict(mapping)
            k = 0
            for g in node.generators:
                rn(g.iter, mapping, depth + 1)
                for nm in target_names(g.target):
                    mapping[nm] = '_c%d_%d' % (depth, k)
                    k += 1
                rn(g.target, mapping, depth + 1)
                for i in g.ifs:
                    rn(i, mapping, depth + 1)
            if isinstance(node, ast.DictComp):
                rn(node.key, mapping, depth + 1)
                rn(node.value, mapping, depth + 1)
            else:
                rn(node.elt, mapping, depth + 1)
            return
        if isinstance(node, ast.Lambda):
            mapping = dict(mapping)
            for k, a in enumerate(node.args.args):
                mapping[a.arg] = '_c%d_%d' % (depth, k)
                a.arg = mapping[a.arg]
            rn(node.body, mapping, depth + 1)
            return
        if isinstance(node, ast.Name) and node.id in mapping:
            node.id = mapping[node.id]
            return
        for c in ast.iter_child_nodes(node):
            rn(c, mapping, depth)
    rn(e, {}, 0)
    return e


def local_signatures(fi, params, surviving=None, keep=(), helper=None):
    """Stable names for locals: a hash of the canonical form of their first definition."""
    import hashlib
    flow = fi.flow
    first = {}
    for nid in sorted(flow.defs_at):
        for d in flow.defs_at[nid]:
            if d.kind == 'param':
                continue
            ln = getattr(d.stmt, 'lineno', 0) if d.stmt is not None else 0
            if d.name not in first or ln < first[d.name][0]:
                first[d.name] = (ln, d)
    sigs = {}
    _sig_consts = dict(module_constants(fi.module)) if getattr(fi, 'module', None) is not None else {}
    try:
        _sig_consts.update(class_constants(fi, helper))      # self.NAME / Class.NAME
    except Exception:
        pass

    def sig(name, visiting):
        if name in sigs:
            return sigs[name]
        if name not in first or name in visiting:
            return 'rec'
        d = first[name][1]
        visiting = visiting | {name}
        v = d.value
        if d.kind == 'aug':
            v = d.value.value
        if v is None or not isinstance(v, ast.AST) or isinstance(v, (ast.FunctionDef, ast.ClassDef, ast.Import, ast.ImportFrom)):
            body = ('opaque', d.kind, name)
        else:
            try:
                v = flow.inline(v, d.stmt, stop=keep) if d.stmt is not None and d.kind in ('assign', 'aug', 'for', 'with') else v
            except AnalysisError:
                pass
            if helper is not None:
                v = helper.expand(v)
            v = _comp_rename(v)
            if d.kind == 'for' and isinstance(v, ast.Call) and isinstance(v.func, ast.Name) and v.func.id == 'list' and len(v.args) == 1 and not v.keywords \
                    and isinstance(v.args[0], ast.Call):
                v = v.args[0]                  # walking list(<call>) is walking the fresh result of the call
            rn = {}
            for n in ast.walk(v):
                if isinstance(n, ast.Name) and n.id in first and n.id not in params:
                    rn[n.id] = sig(n.id, visiting)
            body = (d.kind, d.path, canon(v, params, rn, {k_: v_ for k_, v_ in _sig_consts.items() if k_ not in first and k_ not in params}))
        h = 'L' + hashlib.md5(repr(body).encode()).hexdigest()[:8]
        sigs[name] = h
        return h
    for name in first:
        sig(name, frozenset())
    # disambiguate equal signatures by order of first definition
    seen = {}
    for name in sorted(first, key=lambda n: first[n][0]):
        if surviving is not None and name not in surviving:
            continue          # fully inlined temporaries never appear in an effect: they must not take a name away
        h = sigs[name]
        k = seen.get(h, 0)
        seen[h] = k + 1
        if k:
            sigs[name] = '%s_%d' % (h, k)
    return sigs


def _is_closure_template(fi):
    return bool(getattr(fi, 'closure', False))


_SWAP_OPS = {ast.NotEq: ast.Eq, ast.IsNot: ast.Is, ast.NotIn: ast.In, ast.Gt: ast.LtE, ast.GtE: ast.Lt}


def _split_versions(fi, node):
    """Live-range splitting: the assignments of one name are grouped into webs (two assignments belong together when
    some read can see both); every web is a variable of its own and gets its own name. Re-using a name for unrelated
    values (`pts = [..]; pts = ' '.join(pts)`, the same scratch name in several branches), or not, makes no difference."""
    try:
        tmp = FuncInfo(fi.module, fi.cls, fi.name, node, fi.qual)
        flow = tmp.flow
    except (AnalysisError, RecursionError):
        return node
    defs = {}
    for ds in flow.defs_at.values():
        for d in ds:
            defs.setdefault(d.name, []).append(d)
    blocked = set()
    for n in ast.walk(node):
        if n is not node and isinstance(n, (ast.FunctionDef, ast.AsyncFunctionDef, ast.Lambda, ast.ClassDef)):
            blocked |= {x.id for x in ast.walk(n) if isinstance(x, ast.Name)}
        elif isinstance(n, ast.comprehension):
            blocked |= {x.id for x in ast.walk(n.target) if isinstance(x, ast.Name)}      # bound inside the comprehension
        elif isinstance(n, (ast.Global, ast.Nonlocal)):
            blocked |= set(n.names)

    def walk_scope(n):
        for c in ast.iter_child_nodes(n):
            if isinstance(c, (ast.FunctionDef, ast.AsyncFunctionDef, ast.Lambda, ast.ClassDef)):
                continue
            yield c
            yield from walk_scope(c)

    def store_nodes(d):
        """The Name nodes through which definition d binds its name."""
        st = d.stmt
        if d.kind == 'param':
            return []
        if isinstance(st, ast.Assign):
            roots = st.targets
        elif isinstance(st, ast.AugAssign):
            roots = [st.target]
        elif isinstance(st, ast.For):
            roots = [st.target]
        else:
            return None
        return [x for r_ in roots for x in ast.walk(r_) if isinstance(x, ast.Name) and x.id == d.name and isinstance(x.ctx, ast.Store)]
    cands = {}
    for name, ds in defs.items():
        if name in blocked or len(ds) < 2 or name in ('self', 'cls'):
            continue
        if any(d.kind not in ('param', 'assign', 'aug', 'for') or store_nodes(d) is None for d in ds):
            continue
        if any(d.kind != 'param' and len(store_nodes(d)) != 1 for d in ds):
            continue
        cands[name] = ds
    if not cands:
        return node
    stmt_of = {}
    for st in walk_scope(node):
        if isinstance(st, ast.stmt) and not isinstance(st, (ast.If, ast.For, ast.While, ast.With, ast.Try)):
            for x in ast.walk(st):
                stmt_of.setdefault(id(x), st)
    parent = {}

    def find(x):
        while parent.setdefault(x, x) != x:
            parent[x] = parent[parent[x]]
            x = parent[x]
        return x

    def union(x, y):
        parent[find(x)] = find(y)
    use_defs = {}
    for n in walk_scope(node):
        if not (isinstance(n, ast.Name) and n.id in cands):
            continue
        if isinstance(n.ctx, ast.Del):
            cands.pop(n.id, None)
            continue
        if isinstance(n.ctx, ast.Store):
            st = stmt_of.get(id(n))
            if not isinstance(st, ast.AugAssign):
                continue            # plain store: a definition, handled through store_nodes
        try:
            rd = flow.defs_reaching(n.id, n)
        except AnalysisError:
            try:
                rd = flow.defs_reaching(n.id, stmt_of[id(n)])
            except (AnalysisError, KeyError):
                cands.pop(n.id, None)
                continue
        if not rd:
            cands.pop(n.id, None)
            continue
        rd = list(rd)
        for d in rd[1:]:
            union(id(rd[0]), id(d))
        if isinstance(n.ctx, ast.Store):
            # x += e reads x: the augmented definition belongs to the web of what it reads
            for d in cands.get(n.id, ()):
                if d.stmt is stmt_of.get(id(n)) and d.kind == 'aug':
                    union(id(rd[0]), id(d))
        else:
            use_defs[id(n)] = rd[0]
    for name, ds in cands.items():
        comps = {}
        for d in ds:
            comps.setdefault(find(id(d)), []).append(d)
        if len(comps) < 2:
            continue

        def first_pos(group):
            if any(d.kind == 'param' for d in group):
                return (-1, -1)
            return min((getattr(d.stmt, 'lineno', 0), getattr(d.stmt, 'col_offset', 0)) for d in group)
        ordered = sorted(comps.values(), key=first_pos)
        web = {}
        for k, group in enumerate(ordered):
            for d in group:
                web[id(d)] = k
        for d in ds:
            k = web[id(d)]
            if k:
                for x in store_nodes(d):
                    x.id = '%s__w%d' % (name, k)
        for n in walk_scope(node):
            if isinstance(n, ast.Name) and isinstance(n.ctx, ast.Load) and id(n) in use_defs and n.id == name:
                k = web.get(id(use_defs[id(n)]))
                if k:
                    n.id = '%s__w%d' % (name, k)
    return node


def _fold_temp_loops(fn):
    """`v = []` directly followed by `for t in it: a = e1; b = e2; v.append(E)` where a, b are temporaries of that
    iteration (assigned once in the function, read only inside the loop body)  ->  `v = [E[a:=e1, b:=e2] for t in it]`."""
    def uses(name, where):
        return sum(1 for x in ast.walk(where) if isinstance(x, ast.Name) and x.id == name)

    def fold(body):
        out = []
        i = 0
        while i < len(body):
            s = body[i]
            for field in ('body', 'orelse', 'finalbody'):
                sub = getattr(s, field, None)
                if isinstance(sub, list) and sub and isinstance(sub[0], ast.stmt) and not isinstance(s, (ast.FunctionDef, ast.ClassDef)):
                    setattr(s, field, fold(sub))
            for h in getattr(s, 'handlers', []) or []:
                h.body = fold(h.body)
            nxt = body[i + 1] if i + 1 < len(body) else None
            tgt = s.targets[0] if isinstance(s, ast.Assign) and len(s.targets) == 1 else None
            # `v = 0` + `for t in it: v += E`  ->  `v = sum(E for t in it)`;  `v = False` + `for t in it: if c: v = True [; break]`
            # ->  `v = any(c for t in it)`  (and the dual with True / False / all)
            if isinstance(tgt, ast.Name) and isinstance(s, ast.Assign) and isinstance(s.value, ast.Constant) and isinstance(nxt, ast.For) \
                    and not nxt.orelse and len(nxt.body) == 1 and isinstance(nxt.target, (ast.Name, ast.Tuple)):
                v = tgt.id
                b0 = nxt.body[0]
                new_val = None
                if s.value.value == 0 and type(s.value.value) is int and isinstance(b0, ast.AugAssign) and isinstance(b0.op, ast.Add) \
                        and isinstance(b0.target, ast.Name) and b0.target.id == v and not uses(v, b0.value) and not uses(v, nxt.iter):
                    gen = ast.GeneratorExp(elt=b0.value, generators=[ast.comprehension(target=nxt.target, iter=nxt.iter, ifs=[], is_async=0)])
                    new_val = ast.Call(func=ast.Name(id='sum', ctx=ast.Load()), args=[gen], keywords=[])
                elif isinstance(s.value.value, bool) and isinstance(b0, ast.If) and not b0.orelse and 1 <= len(b0.body) <= 2 \
                        and isinstance(b0.body[0], ast.Assign) and len(b0.body[0].targets) == 1 and isinstance(b0.body[0].targets[0], ast.Name) \
                        and b0.body[0].targets[0].id == v and isinstance(b0.body[0].value, ast.Constant) and b0.body[0].value.value is (not s.value.value) \
                        and (len(b0.body) == 1 or isinstance(b0.body[1], ast.Break)) and not uses(v, b0.test) and not uses(v, nxt.iter):
                    gen = ast.GeneratorExp(elt=b0.test, generators=[ast.comprehension(target=nxt.target, iter=nxt.iter, ifs=[], is_async=0)])
                    call = ast.Call(func=ast.Name(id='any', ctx=ast.Load()), args=[gen], keywords=[])
                    new_val = call if s.value.value is False else ast.UnaryOp(op=ast.Not(), operand=call)
                elif isinstance(s.value.value, bool) and isinstance(b0, ast.Assign) and len(b0.targets) == 1 and isinstance(b0.targets[0], ast.Name) \
                        and b0.targets[0].id == v and isinstance(b0.value, ast.IfExp) and isinstance(b0.value.body, ast.Constant) \
                        and b0.value.body.value is (not s.value.value) and isinstance(b0.value.orelse, ast.Name) and b0.value.orelse.id == v \
                        and not uses(v, b0.value.test) and not uses(v, nxt.iter):
                    # the same flag loop after `if c: v = K` was written as `v = K if c else v`
                    gen = ast.GeneratorExp(elt=b0.value.test, generators=[ast.comprehension(target=nxt.target, iter=nxt.iter, ifs=[], is_async=0)])
                    call = ast.Call(func=ast.Name(id='any', ctx=ast.Load()), args=[gen], keywords=[])
                    new_val = call if s.value.value is False else ast.UnaryOp(op=ast.Not(), operand=call)
                if new_val is not None:
                    loop_vars = {x.id for x in ast.walk(nxt.target) if isinstance(x, ast.Name)}
                    if all(uses(t_, fn) == uses(t_, nxt) for t_ in loop_vars):
                        new = ast.Assign(targets=s.targets, value=new_val)
                        ast.copy_location(new, nxt)
                        ast.fix_missing_locations(new)
                        out.append(new)
                        i += 2
                        continue
            is_list = isinstance(s, ast.Assign) and isinstance(s.value, ast.List) and not s.value.elts
            is_set = isinstance(s, ast.Assign) and isinstance(s.value, ast.Call) and isinstance(s.value.func, ast.Name) and s.value.func.id == 'set' \
                and not s.value.args and not s.value.keywords
            if isinstance(tgt, ast.Name) and (is_list or is_set) and isinstance(nxt, ast.For) and not nxt.orelse \
                    and len(nxt.body) >= 2 and all(isinstance(x, ast.Assign) and len(x.targets) == 1 and isinstance(x.targets[0], ast.Name) for x in nxt.body[:-1]):
                v = tgt.id
                last = nxt.body[-1]
                cond = None
                if isinstance(last, ast.If) and not last.orelse and len(last.body) == 1:
                    cond, last = last.test, last.body[0]
                temps = [x.targets[0].id for x in nxt.body[:-1]]
                ok = isinstance(last, ast.Expr) and isinstance(last.value, ast.Call) and isinstance(last.value.func, ast.Attribute) \
                    and last.value.func.attr == ('append' if is_list else 'add') \
                    and isinstance(last.value.func.value, ast.Name) and last.value.func.value.id == v and len(last.value.args) == 1 and not last.value.keywords
                ok = ok and (cond is None or not uses(v, cond))
                ok = ok and len(set(temps)) == len(temps) and v not in temps
                ok = ok and not any(uses(v, x) for x in nxt.body[:-1]) and not uses(v, last.value.args[0]) and not uses(v, nxt.iter)
                if ok:
                    loop_names = sum(uses(t, nxt) for t in temps)
                    ok = all(uses(t, fn) == uses(t, nxt) for t in temps)          # temporaries of the iteration only
                    loop_targets = {x.id for x in ast.walk(nxt.target) if isinstance(x, ast.Name)}
                    ok = ok and not (set(temps) & loop_targets)
                if ok:
                    expr = copy_ast(last.value.args[0])
                    cexpr = copy_ast(cond) if cond is not None else None
                    for a in reversed(nxt.body[:-1]):
                        nm, val = a.targets[0].id, a.value

                        class S(ast.NodeTransformer):
                            def visit_Name(self, n):
                                if n.id == nm and isinstance(n.ctx, ast.Load):
                                    return copy_ast(val)
                                return n
                        from .core import free_names
                        # capture: the temporary's definition must not mention a name the element expression binds itself
                        inner_bound = {x.id for c in ast.walk(expr) if isinstance(c, ast.comprehension) for x in ast.walk(c.target) if isinstance(x, ast.Name)}
                        if free_names(val) & inner_bound:
                            ok = False
                            break
                        expr = S().visit(expr)
                        if cexpr is not None:
                            cexpr = S().visit(cexpr)
                    if ok:
                        gens = [ast.comprehension(target=nxt.target, iter=nxt.iter, ifs=[cexpr] if cexpr is not None else [], is_async=0)]
                        comp = ast.ListComp(elt=expr, generators=gens) if is_list else ast.SetComp(elt=expr, generators=gens)
                        new = ast.Assign(targets=s.targets, value=comp)
                        ast.copy_location(new, nxt)
                        ast.copy_location(comp, nxt)
                        ast.fix_missing_locations(new)
                        out.append(new)
                        i += 2
                        continue
            out.append(s)
            i += 1
        return out
    fn.body = fold(fn.body)
    return fn


def canonical_func(fi):
    """A copy of the function in a canonical control shape: annotated assignments as plain ones; two-armed
    conditionals with a negated test (`not c`, `!=`, `is not`, `not in`, `>`, `>=`) turned around."""
    if getattr(fi, '_canonical', None) is not None:
        return fi._canonical
    node = copy_ast(fi.node)

    class C(ast.NodeTransformer):
        def visit_AnnAssign(self, n):
            self.generic_visit(n)
            if n.value is None:
                return n
            a = ast.Assign(targets=[n.target], value=n.value)
            return ast.copy_location(a, n)

        def visit_If(self, n):
            self.generic_visit(n)
            if n.orelse:
                t = n.test
                if isinstance(t, ast.UnaryOp) and isinstance(t.op, ast.Not):
                    n.test = t.operand
                    n.body, n.orelse = n.orelse, n.body
                    return self.visit_If_again(n)
                if isinstance(t, ast.Compare) and len(t.ops) == 1 and type(t.ops[0]) in _SWAP_OPS:
                    t.ops = [_SWAP_OPS[type(t.ops[0])]()]
                    n.body, n.orelse = n.orelse, n.body
            return n

        def visit_If_again(self, n):
            t = n.test
            if isinstance(t, ast.UnaryOp) and isinstance(t.op, ast.Not):
                n.test = t.operand
                n.body, n.orelse = n.orelse, n.body
                return self.visit_If_again(n)
            if isinstance(t, ast.Compare) and len(t.ops) == 1 and type(t.ops[0]) in _SWAP_OPS:
                t.ops = [_SWAP_OPS[type(t.ops[0])]()]
                n.body, n.orelse = n.orelse, n.body
            return n
    node = C().visit(node)

    def names_in(e):
        return {x.id for x in ast.walk(e) if isinstance(x, ast.Name)}

    def uses_in_function(name):
        return sum(1 for x in ast.walk(node) if isinstance(x, ast.Name) and x.id == name)

    # names certainly bound before a statement (parameters and names assigned by an earlier statement of an enclosing list)
    bound_before = {}

    def mark(body, bound):
        bound = set(bound)
        for st in body:
            bound_before[id(st)] = frozenset(bound)
            for field in ('body', 'orelse', 'finalbody'):
                sub = getattr(st, field, None)
                if isinstance(sub, list) and sub and isinstance(sub[0], ast.stmt) and not isinstance(st, (ast.FunctionDef, ast.ClassDef)):
                    mark(sub, bound | ({x.id for x in ast.walk(st.target) if isinstance(x, ast.Name)} if isinstance(st, ast.For) else set()))
            for h in getattr(st, 'handlers', []) or []:
                mark(h.body, bound)
            if isinstance(st, ast.Assign):
                for t in st.targets:
                    bound |= {x.id for x in ast.walk(t) if isinstance(x, ast.Name) and isinstance(x.ctx, ast.Store)}
    a_ = node.args
    mark(node.body, {x.arg for x in a_.posonlyargs + a_.args + a_.kwonlyargs})
    # a name stored anywhere textually earlier also counts (both arms of an earlier if / else, a loop before): `if c: v = E` is then
    # `v = E if c else v` on every path on which v exists at all
    stores_by_line = sorted((x.lineno, x.col_offset, x.id) for x in ast.walk(node) if isinstance(x, ast.Name) and isinstance(x.ctx, ast.Store) and hasattr(x, 'lineno'))
    for st in ast.walk(node):
        if isinstance(st, ast.If) and id(st) in bound_before:
            earlier = {nm for ln, col, nm in stores_by_line if (ln, col) < (st.lineno, st.col_offset)}
            bound_before[id(st)] = frozenset(bound_before[id(st)] | earlier)

    def sink_returns(body):
        """`<if / try whose every arm ends in v = e>; return v`  ->  every arm ends in `return e`."""
        for st in body:
            for field in ('body', 'orelse', 'finalbody'):
                sub = getattr(st, field, None)
                if isinstance(sub, list) and sub and isinstance(sub[0], ast.stmt) and not isinstance(st, (ast.FunctionDef, ast.ClassDef)):
                    sink_returns(sub)
            for h in getattr(st, 'handlers', []) or []:
                sink_returns(h.body)
        if len(body) >= 2 and isinstance(body[-1], ast.Return) and isinstance(body[-1].value, ast.Name) and isinstance(body[-2], (ast.If, ast.Try)):
            v = body[-1].value.id
            if uses_in_function(v) == sum(1 for x in ast.walk(body[-2]) if isinstance(x, ast.Name) and x.id == v) + 1:
                def arms(st):
                    if isinstance(st, ast.If):
                        return [st.body, st.orelse] if st.orelse else None
                    if isinstance(st, ast.Try):
                        if st.finalbody or st.orelse:
                            return None
                        return [st.body] + [h.body for h in st.handlers]
                    return None

                def convertible(lst):
                    if not lst:
                        return False
                    last = lst[-1]
                    if isinstance(last, ast.Assign) and len(last.targets) == 1 and isinstance(last.targets[0], ast.Name) and last.targets[0].id == v:
                        return not any(isinstance(x, ast.Name) and x.id == v for st in lst[:-1] for x in ast.walk(st)) \
                            and not any(isinstance(x, ast.Name) and x.id == v for x in ast.walk(last.value))
                    if isinstance(last, (ast.If, ast.Try)):
                        sub = arms(last)
                        return sub is not None and all(convertible(a) for a in sub)
                    return False

                def convert(lst):
                    last = lst[-1]
                    if isinstance(last, ast.Assign):
                        lst[-1] = ast.copy_location(ast.Return(value=last.value), last)
                    else:
                        for a in arms(last):
                            convert(a)
                top = arms(body[-2])
                if top is not None and all(convertible(a) for a in top):
                    for a in top:
                        convert(a)
                    body.pop()
    sink_returns(node.body)

    def sink_assigns(body):
        """`<if whose every arm ends in v = e>; T = v` (v read nowhere else)  ->  every arm ends in `T = e` (what folding a helper
        with several return statements back into `T = helper(..)` leaves behind)."""
        for st in body:
            for field in ('body', 'orelse', 'finalbody'):
                sub = getattr(st, field, None)
                if isinstance(sub, list) and sub and isinstance(sub[0], ast.stmt) and not isinstance(st, (ast.FunctionDef, ast.ClassDef)):
                    sink_assigns(sub)
            for h in getattr(st, 'handlers', []) or []:
                sink_assigns(h.body)
        i = 0
        while i + 1 < len(body):
            a, b = body[i], body[i + 1]
            if isinstance(a, ast.If) and a.orelse and isinstance(b, ast.Assign) and len(b.targets) == 1 and isinstance(b.value, ast.Name):
                v = b.value.id
                inside = sum(1 for x in ast.walk(a) if isinstance(x, ast.Name) and x.id == v)
                tnames = {x.id for x in ast.walk(b.targets[0]) if isinstance(x, ast.Name)}

                def ends(lst):
                    if not lst:
                        return False
                    last = lst[-1]
                    if isinstance(last, ast.Assign) and len(last.targets) == 1 and isinstance(last.targets[0], ast.Name) and last.targets[0].id == v:
                        return not any(isinstance(x, ast.Name) and x.id == v for st in lst[:-1] for x in ast.walk(st)) \
                            and not any(isinstance(x, ast.Name) and x.id == v for x in ast.walk(last.value))
                    if isinstance(last, ast.If) and last.orelse:
                        return ends(last.body) and ends(last.orelse)
                    return False

                def conv(lst):
                    last = lst[-1]
                    if isinstance(last, ast.Assign):
                        lst[-1] = ast.copy_location(ast.Assign(targets=[copy_ast(b.targets[0])], value=last.value), last)
                    else:
                        conv(last.body)
                        conv(last.orelse)
                if v not in tnames and uses_in_function(v) == inside + 1 and ends(a.body) and ends(a.orelse) \
                        and not any(isinstance(x, ast.Name) and x.id in tnames for x in ast.walk(a.test)):
                    conv(a.body)
                    conv(a.orelse)
                    del body[i + 1]
                    ast.fix_missing_locations(a)
                    continue
            i += 1
    sink_assigns(node.body)

    def join_same_returns(body):
        """`if c: A; return v` followed by `REST; return v` (the same plain name, not re-bound in REST) is `if c: A else: REST`
        followed by one `return v`: a guard clause that leaves with the value the function returns anyway."""
        changed = True
        while changed:
            changed = False
            plain = lambda v_: isinstance(v_, (ast.Name, ast.Constant)) or (
                isinstance(v_, ast.Tuple) and all(isinstance(x_, (ast.Name, ast.Constant)) for x_ in v_.elts))
            if len(body) < 3 or not (isinstance(body[-1], ast.Return) and plain(body[-1].value)):
                return
            final = ast.dump(body[-1].value)
            for i in range(len(body) - 2, -1, -1):
                st = body[i]
                if isinstance(st, ast.If) and not st.orelse and st.body and isinstance(st.body[-1], ast.Return) and st.body[-1].value is not None \
                        and ast.dump(st.body[-1].value) == final:
                    rest = body[i + 1:-1]
                    if not rest:
                        break
                    vs = {x.id for x in ast.walk(body[-1].value) if isinstance(x, ast.Name)}
                    if any(isinstance(x, ast.Name) and x.id in vs and isinstance(x.ctx, (ast.Store, ast.Del)) for r_ in rest for x in ast.walk(r_)):
                        break
                    if any(isinstance(x, ast.Return) for r_ in rest for x in ast.walk(r_)):
                        break
                    arm = st.body[:-1]
                    if arm:
                        new_if = ast.If(test=st.test, body=arm, orelse=rest)
                    else:
                        new_if = ast.If(test=ast.UnaryOp(op=ast.Not(), operand=st.test), body=rest, orelse=[])
                    body[i:-1] = [ast.fix_missing_locations(ast.copy_location(new_if, st))]
                    changed = True
                    break
    join_same_returns(node.body)

    def forward_substitute(body):
        """`t = e` directly followed by the only statement that reads t (once, at a position that is always evaluated):
        the temporary is folded into that statement, so that the shape rules below see one statement, not two."""
        changed = True
        while changed:
            changed = False
            for i in range(len(body) - 1):
                a, b = body[i], body[i + 1]
                if not (isinstance(a, ast.Assign) and len(a.targets) == 1 and isinstance(a.targets[0], ast.Name)):
                    continue
                t = a.targets[0].id
                if uses_in_function(t) != 2 or t in names_in(a.value):
                    continue
                if isinstance(b, (ast.Assign, ast.AugAssign, ast.Expr, ast.Return)) and b.value is not None:
                    roots = [('value', b.value)]
                    # a store target such as x[t] = v is evaluated after the value: fine as well
                    if isinstance(b, ast.Assign):
                        roots += [('targets', tt) for tt in b.targets if isinstance(tt, (ast.Subscript, ast.Attribute))]
                elif isinstance(b, (ast.If, ast.While)) and not isinstance(b, ast.While):
                    roots = [('test', b.test)]
                elif isinstance(b, ast.For):
                    roots = [('iter', b.iter)]
                else:
                    continue
                hits = []

                def find(n, cond):
                    if isinstance(n, ast.Name) and n.id == t and isinstance(n.ctx, ast.Load):
                        hits.append(cond)
                        return
                    if isinstance(n, (ast.Lambda, ast.ListComp, ast.SetComp, ast.DictComp, ast.GeneratorExp)):
                        for c in ast.iter_child_nodes(n):
                            find(c, True)
                        return
                    if isinstance(n, ast.IfExp):
                        find(n.test, cond)
                        find(n.body, True)
                        find(n.orelse, True)
                        return
                    if isinstance(n, ast.BoolOp):
                        find(n.values[0], cond)
                        for v in n.values[1:]:
                            find(v, True)
                        return
                    for c in ast.iter_child_nodes(n):
                        find(c, cond)
                for _, r_ in roots:
                    find(r_, False)
                if hits != [False]:
                    continue
                val = a.value

                class S(ast.NodeTransformer):
                    def visit_Name(self, n):
                        if n.id == t and isinstance(n.ctx, ast.Load):
                            return copy_ast(val)
                        return n
                if isinstance(b, (ast.Assign, ast.AugAssign, ast.Expr, ast.Return)):
                    b.value = S().visit(b.value)
                    if isinstance(b, ast.Assign):
                        b.targets = [S().visit(tt) if isinstance(tt, (ast.Subscript, ast.Attribute)) else tt for tt in b.targets]
                elif isinstance(b, ast.If):
                    b.test = S().visit(b.test)
                else:
                    b.iter = S().visit(b.iter)
                del body[i]
                changed = True
                break
        for st in body:
            for field in ('body', 'orelse', 'finalbody'):
                sub = getattr(st, field, None)
                if isinstance(sub, list) and sub and isinstance(sub[0], ast.stmt) and not isinstance(st, (ast.FunctionDef, ast.ClassDef)):
                    forward_substitute(sub)
            for h in getattr(st, 'handlers', []) or []:
                forward_substitute(h.body)
    def fold_appends(body):
        """`v = []` (or list()) directly followed by `v.append(a); v.append(b)` is `v = [a, b]`."""
        for st in body:
            for field in ('body', 'orelse', 'finalbody'):
                sub = getattr(st, field, None)
                if isinstance(sub, list) and sub and isinstance(sub[0], ast.stmt) and not isinstance(st, (ast.FunctionDef, ast.ClassDef)):
                    fold_appends(sub)
            for h in getattr(st, 'handlers', []) or []:
                fold_appends(h.body)
        i = 0
        while i < len(body):
            a = body[i]
            empty = isinstance(a, ast.Assign) and len(a.targets) == 1 and isinstance(a.targets[0], ast.Name) and (
                (isinstance(a.value, ast.List) and not a.value.elts) or
                (isinstance(a.value, ast.Call) and isinstance(a.value.func, ast.Name) and a.value.func.id == 'list' and not a.value.args and not a.value.keywords))
            if empty:
                v = a.targets[0].id
                elts = []
                j = i + 1
                # the empty list may be created later: simple statements in between that do not mention it are stepped over
                while j < len(body) and isinstance(body[j], (ast.Assign, ast.AugAssign, ast.AnnAssign)) and v not in names_in(body[j]):
                    j += 1
                first_app = j
                while j < len(body):
                    b = body[j]
                    if isinstance(b, ast.Expr) and isinstance(b.value, ast.Call) and isinstance(b.value.func, ast.Attribute) and b.value.func.attr == 'append' \
                            and isinstance(b.value.func.value, ast.Name) and b.value.func.value.id == v and len(b.value.args) == 1 and not b.value.keywords \
                            and v not in names_in(b.value.args[0]) and not isinstance(b.value.args[0], ast.Starred):
                        elts.append(b.value.args[0])
                        j += 1
                    else:
                        break
                if elts:
                    a.value = ast.copy_location(ast.List(elts=elts, ctx=ast.Load()), a.value)
                    del body[first_app:j]
                    if first_app > i + 1:
                        body.insert(first_app - 1, body.pop(i))
            i += 1
    fold_appends(node.body)

    def eliminate_flags(body):
        """`f = False; S; if f: break` where S sets `f = True` only as the last thing it does (in an arm of a conditional or in
        the else clause of a loop, never inside a nested loop body) is S with `break` in place of `f = True`; the same for
        `return ..` / `continue` instead of `break`."""
        for st in body:
            for field in ('body', 'orelse', 'finalbody'):
                sub = getattr(st, field, None)
                if isinstance(sub, list) and sub and isinstance(sub[0], ast.stmt) and not isinstance(st, (ast.FunctionDef, ast.ClassDef)):
                    eliminate_flags(sub)
            for h in getattr(st, 'handlers', []) or []:
                eliminate_flags(h.body)
        i = 0
        while i + 2 < len(body):
            a, s_, t_ = body[i], body[i + 1], body[i + 2]
            ok = isinstance(a, ast.Assign) and len(a.targets) == 1 and isinstance(a.targets[0], ast.Name) and isinstance(a.value, ast.Constant) and a.value.value is False \
                and isinstance(s_, (ast.For, ast.While, ast.If)) and isinstance(t_, ast.If) and not t_.orelse and isinstance(t_.test, ast.Name) \
                and t_.test.id == a.targets[0].id and len(t_.body) == 1 and isinstance(t_.body[0], (ast.Break, ast.Continue, ast.Return))
            if ok:
                f = a.targets[0].id
                sets = []

                def tails(lst, allowed):
                    # statements of `lst`; `allowed`: the list ends S
                    for k, x in enumerate(lst):
                        last = allowed and k == len(lst) - 1
                        if isinstance(x, ast.Assign) and len(x.targets) == 1 and isinstance(x.targets[0], ast.Name) and x.targets[0].id == f:
                            if last and isinstance(x.value, ast.Constant) and x.value.value is True:
                                sets.append((lst, k))
                            else:
                                return False
                        elif isinstance(x, ast.If):
                            if not tails(x.body, last) or not tails(x.orelse, last):
                                return False
                        elif isinstance(x, (ast.For, ast.While)):
                            if f in names_in(ast.Module(body=x.body, type_ignores=[])) or not tails(x.orelse, last):
                                return False
                        elif f in names_in(x):
                            return False
                    return True
                good = tails([s_], True)
                if good and sets and uses_in_function(f) == 2 + len(sets):
                    for lst, k in sets:
                        lst[k] = ast.copy_location(copy_ast(t_.body[0]), lst[k])
                    del body[i + 2]
                    del body[i]
                    continue
            i += 1
    eliminate_flags(node.body)
    forward_substitute(node.body)

    class D(ast.NodeTransformer):
        """`a, b = x, y` with independent sides is `a = x; b = y`; `for i, v in enumerate(xs)` over a named sequence
        is `for i in range(len(xs)): v = xs[i]` (the element name is then inlined wherever that is sound)."""
        def visit_FunctionDef(self, n):
            if n is node:
                self.generic_visit(n)
            return n

        def visit_Assign(self, n):
            if len(n.targets) == 1 and isinstance(n.targets[0], (ast.Tuple, ast.List)) and isinstance(n.value, (ast.Tuple, ast.List)) \
                    and len(n.targets[0].elts) == len(n.value.elts) and all(isinstance(t, ast.Name) for t in n.targets[0].elts) \
                    and not any(isinstance(v, ast.Starred) for v in n.value.elts):
                tnames = {t.id for t in n.targets[0].elts}
                if len(tnames) == len(n.targets[0].elts) and not any(tnames & names_in(v) for v in n.value.elts):
                    return [ast.copy_location(ast.Assign(targets=[t], value=v), n) for t, v in zip(n.targets[0].elts, n.value.elts)]
            # `a, b = t` for a named sequence t is `a = t[0]; b = t[1]`
            if len(n.targets) == 1 and isinstance(n.targets[0], (ast.Tuple, ast.List)) and isinstance(n.value, (ast.Name, ast.Attribute)) \
                    and all(isinstance(t, ast.Name) for t in n.targets[0].elts) and dotted(n.value):
                tnames = {t.id for t in n.targets[0].elts}
                if len(tnames) == len(n.targets[0].elts) and not (tnames & names_in(n.value)):
                    return [ast.copy_location(ast.Assign(targets=[t], value=ast.Subscript(value=copy_ast(n.value), slice=ast.Constant(value=i), ctx=ast.Load())), n)
                            for i, t in enumerate(n.targets[0].elts)]
            # `a, b = <expression>` is `t = <expression>; a = t[0]; b = t[1]` (the temporary is folded away again where that is sound)
            if len(n.targets) == 1 and isinstance(n.targets[0], (ast.Tuple, ast.List)) and isinstance(n.value, (ast.Call, ast.Subscript, ast.BinOp)) \
                    and all(isinstance(t, ast.Name) for t in n.targets[0].elts) and 2 <= len(n.targets[0].elts) <= 6:
                tnames = [t.id for t in n.targets[0].elts]
                tmp = 'unpack__%d' % getattr(n, 'lineno', 0)
                if len(set(tnames)) == len(tnames) and uses_in_function(tmp) == 0:
                    first_ = ast.copy_location(ast.Assign(targets=[ast.Name(id=tmp, ctx=ast.Store())], value=n.value), n)
                    rest_ = [ast.copy_location(ast.Assign(targets=[t], value=ast.Subscript(value=ast.Name(id=tmp, ctx=ast.Load()), slice=ast.Constant(value=i), ctx=ast.Load())), n)
                             for i, t in enumerate(n.targets[0].elts)]
                    return [ast.fix_missing_locations(x) for x in [first_] + rest_]
            return n

        def visit_If(self, n):
            self.generic_visit(n)
            # a flag that records which arm ran: `if c: A; v = True else: B; v = False` is `v = c; if c: A else: B`
            if n.body and n.orelse and isinstance(n.test, (ast.Compare, ast.BoolOp)) and not any(isinstance(x, (ast.Call, ast.NamedExpr)) and not (
                    isinstance(x, ast.Call) and isinstance(x.func, ast.Name) and x.func.id == 'len') for x in ast.walk(n.test)):
                la, lb = n.body[-1], n.orelse[-1]
                flag = lambda x: isinstance(x, ast.Assign) and len(x.targets) == 1 and isinstance(x.targets[0], ast.Name) and isinstance(x.value, ast.Constant) \
                    and isinstance(x.value.value, bool)
                if flag(la) and flag(lb) and la.targets[0].id == lb.targets[0].id and la.value.value != lb.value.value:
                    v = la.targets[0].id
                    rest = n.body[:-1] + n.orelse[:-1]
                    if v not in names_in(n.test) and not any(v in names_in(st) for st in rest):
                        val = n.test if la.value.value else ast.UnaryOp(op=ast.Not(), operand=n.test)
                        first = ast.copy_location(ast.Assign(targets=[ast.Name(id=v, ctx=ast.Store())], value=copy_ast(val)), n)
                        out_ = [ast.fix_missing_locations(first)]
                        if n.body[:-1] or n.orelse[:-1]:
                            if n.body[:-1]:
                                n.body, n.orelse = n.body[:-1], n.orelse[:-1]
                                out_.append(n)
                            else:
                                neg = ast.copy_location(ast.If(test=ast.UnaryOp(op=ast.Not(), operand=n.test), body=n.orelse[:-1], orelse=[]), n)
                                out_.append(ast.fix_missing_locations(neg))
                        return out_
            # both arms end by binding the same plain name: the binding is a choice made after the conditional
            # (`if c: A; v = X else: B; v = Y` is `if c: A else: B` followed by `v = X if c else Y`), for a test that the arms
            # cannot change (names / attributes / comparisons of them, no calls)
            simple_test = not any(isinstance(x, (ast.Call, ast.NamedExpr, ast.Subscript)) for x in ast.walk(n.test))
            if n.body and n.orelse and simple_test and (len(n.body) > 1 or len(n.orelse) > 1):
                peeled = []
                tnames_ = names_in(n.test)
                while n.body and n.orelse:
                    la, lb = n.body[-1], n.orelse[-1]
                    same = isinstance(la, ast.Assign) and isinstance(lb, ast.Assign) and len(la.targets) == 1 and len(lb.targets) == 1 \
                        and isinstance(la.targets[0], ast.Name) and isinstance(lb.targets[0], ast.Name) and la.targets[0].id == lb.targets[0].id
                    if not same:
                        break
                    v = la.targets[0].id
                    stored = {x.id for st in n.body[:-1] + n.orelse[:-1] for x in ast.walk(st) if isinstance(x, ast.Name) and isinstance(x.ctx, ast.Store)}
                    root_stores = {x.value.id for st in n.body + n.orelse for x in ast.walk(st)
                                   if isinstance(x, ast.Attribute) and isinstance(x.ctx, ast.Store) and isinstance(x.value, ast.Name)}
                    if v in tnames_ or (tnames_ & (stored | {v})) or (tnames_ & root_stores):
                        break
                    val = ast.copy_location(ast.IfExp(test=copy_ast(n.test), body=la.value, orelse=lb.value), la)
                    peeled.insert(0, ast.copy_location(ast.Assign(targets=[ast.Name(id=v, ctx=ast.Store())], value=val), la))
                    n.body.pop()
                    n.orelse.pop()
                if peeled:
                    out_ = []
                    if n.body and n.orelse:
                        out_.append(n)
                    elif n.body:
                        n.orelse = []
                        out_.append(n)
                    elif n.orelse:
                        out_.append(ast.copy_location(ast.If(test=ast.UnaryOp(op=ast.Not(), operand=n.test), body=n.orelse, orelse=[]), n))
                    return [ast.fix_missing_locations(x) for x in out_ + peeled]
            # a conditional update `if a < b: b = a` is `b = min(b, a)` (and `>` / max)
            if len(n.body) == 1 and not n.orelse and isinstance(n.body[0], ast.Assign) and len(n.body[0].targets) == 1 \
                    and isinstance(n.body[0].targets[0], (ast.Name, ast.Attribute)) and isinstance(n.test, ast.Compare) and len(n.test.ops) == 1 \
                    and isinstance(n.test.ops[0], (ast.Lt, ast.LtE, ast.Gt, ast.GtE)):
                a_ = n.body[0]
                tdump = ast.dump(a_.targets[0]).replace('Store()', 'Load()')
                vdump = ast.dump(a_.value)
                l_, r_ = ast.dump(n.test.left), ast.dump(n.test.comparators[0])
                less = isinstance(n.test.ops[0], (ast.Lt, ast.LtE))
                fn = None
                if (l_, r_) == (vdump, tdump):
                    fn = 'min' if less else 'max'
                elif (l_, r_) == (tdump, vdump):
                    fn = 'max' if less else 'min'
                if fn and tdump != vdump:
                    cur = copy_ast(a_.targets[0])
                    for x in ast.walk(cur):
                        if hasattr(x, 'ctx') and isinstance(x.ctx, ast.Store):
                            x.ctx = ast.Load()
                    call = ast.Call(func=ast.Name(id=fn, ctx=ast.Load()), args=[cur, a_.value], keywords=[])
                    return ast.fix_missing_locations(ast.copy_location(ast.Assign(targets=a_.targets, value=call), n))
            # a conditional re-binding `if c: v = E` is `v = E if c else v`
            if len(n.body) == 1 and not n.orelse and isinstance(n.body[0], ast.Assign) and len(n.body[0].targets) == 1 \
                    and isinstance(n.body[0].targets[0], ast.Name) \
                    and n.body[0].targets[0].id in bound_before.get(id(n), ()):
                a = n.body[0]
                v = ast.IfExp(test=n.test, body=a.value, orelse=ast.Name(id=a.targets[0].id, ctx=ast.Load()))
                return ast.copy_location(ast.Assign(targets=a.targets, value=ast.copy_location(v, n)), n)
            # loop unswitching backwards: `if c: for T in I: A  else: for T in I: B` with c untouched by the loops is
            # `for T in I: if c: A else: B`
            if len(n.body) == 1 and len(n.orelse) == 1 and isinstance(n.body[0], ast.For) and isinstance(n.orelse[0], ast.For):
                fa, fb = n.body[0], n.orelse[0]
                if not fa.orelse and not fb.orelse and isinstance(fa.target, ast.Name) and isinstance(fb.target, ast.Name) \
                        and ast.dump(fa.iter) == ast.dump(fb.iter) and not any(isinstance(x, (ast.Call, ast.Subscript)) for x in ast.walk(n.test)):
                    stored = {x.id for f_ in (fa, fb) for st in f_.body for x in ast.walk(st) if isinstance(x, ast.Name) and isinstance(x.ctx, ast.Store)}
                    stored |= {fa.target.id, fb.target.id}
                    leaves = any(isinstance(x, (ast.Break, ast.Return)) for f_ in (fa, fb) for st in f_.body for x in ast.walk(st))
                    tb_used_in_a = fb.target.id != fa.target.id and any(isinstance(x, ast.Name) and x.id == fa.target.id for st in fb.body for x in ast.walk(st))
                    if not (stored & names_in(n.test)) and not leaves and not tb_used_in_a:
                        if fb.target.id != fa.target.id:
                            old_, new_ = fb.target.id, fa.target.id

                            class R_(ast.NodeTransformer):
                                def visit_Name(self, x):
                                    if x.id == old_:
                                        return ast.copy_location(ast.Name(id=new_, ctx=x.ctx), x)
                                    return x
                            fb.body = [R_().visit(st) for st in fb.body]
                        inner = ast.copy_location(ast.If(test=n.test, body=fa.body, orelse=fb.body), n)
                        fa.body = [inner]
                        return ast.fix_missing_locations(ast.copy_location(fa, n))
            # both arms do the same thing with one differing operand: the choice moves into the operand
            if len(n.body) == 1 and len(n.orelse) == 1:
                a, b = n.body[0], n.orelse[0]
                if isinstance(a, ast.Assign) and isinstance(b, ast.Assign) and len(a.targets) == 1 and len(b.targets) == 1 \
                        and isinstance(a.targets[0], ast.Name) and isinstance(b.targets[0], ast.Name) and a.targets[0].id == b.targets[0].id \
                        and a.targets[0].id not in names_in(n.test):
                    v = ast.IfExp(test=n.test, body=a.value, orelse=b.value)
                    return ast.copy_location(ast.Assign(targets=a.targets, value=ast.copy_location(v, n)), n)
                if isinstance(a, ast.Assign) and isinstance(b, ast.Assign) and len(a.targets) == 1 and len(b.targets) == 1 \
                        and isinstance(a.targets[0], (ast.Attribute, ast.Subscript)) and ast.dump(a.targets[0]) == ast.dump(b.targets[0]):
                    v = ast.IfExp(test=n.test, body=a.value, orelse=b.value)
                    return ast.copy_location(ast.Assign(targets=a.targets, value=ast.copy_location(v, n)), n)
                if isinstance(a, ast.Return) and isinstance(b, ast.Return) and a.value is not None and b.value is not None:
                    v = ast.IfExp(test=n.test, body=a.value, orelse=b.value)
                    return ast.copy_location(ast.Return(value=ast.copy_location(v, n)), n)
                if isinstance(a, ast.Expr) and isinstance(b, ast.Expr) and isinstance(a.value, ast.Call) and isinstance(b.value, ast.Call):
                    ca, cb = a.value, b.value
                    if ast.dump(ca.func) == ast.dump(cb.func) and len(ca.args) == len(cb.args) and not ca.keywords and not cb.keywords \
                            and not any(isinstance(x, ast.Starred) for x in ca.args + cb.args):
                        diff = [i for i, (x, y) in enumerate(zip(ca.args, cb.args)) if ast.dump(x) != ast.dump(y)]
                        if len(diff) == 1:
                            i = diff[0]
                            args = list(ca.args)
                            args[i] = ast.copy_location(ast.IfExp(test=n.test, body=ca.args[i], orelse=cb.args[i]), n)
                            return ast.copy_location(ast.Expr(value=ast.copy_location(ast.Call(func=ca.func, args=args, keywords=[]), n)), n)
            return n

        def visit_For(self, n):
            self.generic_visit(n)
            it = n.iter
            # a loop that only looks for a witness and then leaves for good: `for x in xs: if c(x): <T, ends in raise / return /
            # exit()>` with T not mentioning x is `if any(c(x) for x in xs): T`
            if len(n.body) == 1 and not n.orelse and isinstance(n.body[0], ast.If) and not n.body[0].orelse and isinstance(n.target, ast.Name):
                inner = n.body[0]
                last = inner.body[-1]
                leaves = isinstance(last, (ast.Raise, ast.Return)) or (
                    isinstance(last, ast.Expr) and isinstance(last.value, ast.Call) and (dotted(last.value.func) or '') in ('exit', 'sys.exit', 'quit', 'os._exit'))
                if leaves and n.target.id not in {x.id for st in inner.body for x in ast.walk(st) if isinstance(x, ast.Name)}:
                    gen = ast.GeneratorExp(elt=inner.test, generators=[ast.comprehension(target=n.target, iter=n.iter, ifs=[], is_async=0)])
                    test = ast.Call(func=ast.Name(id='any', ctx=ast.Load()), args=[gen], keywords=[])
                    new_if = ast.If(test=test, body=inner.body, orelse=[])
                    return ast.fix_missing_locations(ast.copy_location(new_if, n))
            body_names = [x for st in n.body for x in ast.walk(st) if isinstance(x, ast.Name)]
            # the index of an enumerate that nobody reads: plain iteration
            if isinstance(it, ast.Call) and isinstance(it.func, ast.Name) and it.func.id == 'enumerate' and len(it.args) == 1 and not it.keywords \
                    and isinstance(n.target, ast.Tuple) and len(n.target.elts) == 2 and isinstance(n.target.elts[0], ast.Name) \
                    and uses_in_function(n.target.elts[0].id) == 1:
                n.target = n.target.elts[1]
                n.iter = it.args[0]
                return n
            # an index that is only ever used to fetch the element of the sequence iterated over: plain iteration
            if isinstance(it, ast.Call) and isinstance(it.func, ast.Name) and it.func.id == 'range' and len(it.args) == 1 and not it.keywords \
                    and isinstance(it.args[0], ast.Call) and isinstance(it.args[0].func, ast.Name) and it.args[0].func.id == 'len' and len(it.args[0].args) == 1 \
                    and isinstance(it.args[0].args[0], (ast.Name, ast.Attribute)) and isinstance(n.target, ast.Name):
                xs = it.args[0].args[0]
                i = n.target.id
                key = ast.dump(xs)
                subs = [x for st in n.body for x in ast.walk(st) if isinstance(x, ast.Subscript) and isinstance(x.slice, ast.Name) and x.slice.id == i
                        and ast.dump(x.value) == key]
                n_i = sum(1 for x in body_names if x.id == i)
                xs_names = names_in(xs)
                rebinds = any(isinstance(x, ast.Name) and isinstance(x.ctx, ast.Store) and x.id in (xs_names | {i}) for st in n.body for x in ast.walk(st))
                direct_store = any(isinstance(x.ctx, (ast.Store, ast.Del)) for x in subs)
                # the sequence must keep its length while it is walked (range(len(..)) is computed once, an iterator is not)
                direct_store = direct_store or any(
                    isinstance(x, ast.Call) and isinstance(x.func, ast.Attribute) and x.func.attr in ('append', 'extend', 'insert', 'pop', 'remove', 'clear', 'sort', 'reverse')
                    and ast.dump(x.func.value) == key for st in n.body for x in ast.walk(st))
                if subs and n_i == len(subs) and uses_in_function(i) == n_i + 1 and not rebinds and not direct_store:
                    elem = '%s__elem' % (xs.id if isinstance(xs, ast.Name) else xs.attr)
                    if uses_in_function(elem) == 0:
                        class E(ast.NodeTransformer):
                            def visit_Subscript(self, x):
                                self.generic_visit(x)
                                if isinstance(x.slice, ast.Name) and x.slice.id == i and ast.dump(x.value) == key:
                                    return ast.copy_location(ast.Name(id=elem, ctx=ast.Load()), x)
                                return x
                        n.body = [E().visit(st) for st in n.body]
                        n.target = ast.copy_location(ast.Name(id=elem, ctx=ast.Store()), n.target)
                        n.iter = xs
                        return n
            # `for i, x in enumerate(xs, start=k)` is `for i0, x in enumerate(xs)` with i = i0 + k
            if isinstance(it, ast.Call) and isinstance(it.func, ast.Name) and it.func.id == 'enumerate' and isinstance(n.target, ast.Tuple) \
                    and len(n.target.elts) == 2 and isinstance(n.target.elts[0], ast.Name) and (
                        (len(it.args) == 2 and not it.keywords) or (len(it.args) == 1 and len(it.keywords) == 1 and it.keywords[0].arg == 'start')):
                start = it.args[1] if len(it.args) == 2 else it.keywords[0].value
                i_name = n.target.elts[0].id
                stores_i = any(isinstance(x, ast.Name) and x.id == i_name and isinstance(x.ctx, ast.Store) for st in n.body for x in ast.walk(st))
                if isinstance(start, ast.Constant) and isinstance(start.value, int) and not isinstance(start.value, bool) and not stores_i:
                    k_ = start.value

                    class Sh(ast.NodeTransformer):
                        def visit_Name(self, x):
                            if x.id == i_name and isinstance(x.ctx, ast.Load):
                                return ast.copy_location(ast.BinOp(left=ast.Name(id=i_name, ctx=ast.Load()), op=ast.Add(), right=ast.Constant(value=k_)), x)
                            return x
                    if k_ != 0:
                        n.body = [Sh().visit(st) for st in n.body]
                    n.iter = ast.copy_location(ast.Call(func=it.func, args=[it.args[0]], keywords=[]), it)
                    ast.fix_missing_locations(n)
                    it = n.iter
            # `for k, v in d.items()` over a named mapping that the body leaves alone is `for k in d: v = d[k]`
            if isinstance(it, ast.Call) and isinstance(it.func, ast.Attribute) and it.func.attr == 'items' and not it.args and not it.keywords \
                    and isinstance(it.func.value, (ast.Name, ast.Attribute)) and dotted(it.func.value) and isinstance(n.target, ast.Tuple) \
                    and len(n.target.elts) == 2 and all(isinstance(t, ast.Name) for t in n.target.elts) and not n.orelse:
                d_ = it.func.value
                k_n, v_n = n.target.elts[0].id, n.target.elts[1].id
                body_stores = {x.id for st in n.body for x in ast.walk(st) if isinstance(x, ast.Name) and isinstance(x.ctx, ast.Store)}
                key_ = ast.dump(d_)
                touched = any((isinstance(x, ast.Subscript) and isinstance(x.ctx, (ast.Store, ast.Del)) and ast.dump(x.value) == key_) or (
                    isinstance(x, ast.Call) and isinstance(x.func, ast.Attribute) and ast.dump(x.func.value) == key_ and x.func.attr in (
                        'pop', 'update', 'clear', 'setdefault', 'popitem', '__setitem__')) for st in n.body for x in ast.walk(st))
                if k_n != v_n and not (names_in(d_) & (body_stores | {k_n, v_n})) and not ({k_n, v_n} & body_stores) and not touched:
                    bind = ast.copy_location(ast.Assign(targets=[ast.Name(id=v_n, ctx=ast.Store())], value=ast.Subscript(
                        value=copy_ast(d_), slice=ast.Name(id=k_n, ctx=ast.Load()), ctx=ast.Load())), n)
                    n.target = ast.copy_location(ast.Name(id=k_n, ctx=ast.Store()), n.target)
                    n.iter = copy_ast(d_)
                    n.body = [bind] + n.body
                    return ast.fix_missing_locations(n)
            # walking named sequences in step: `for a, b in zip(A, B)` is `for i in range(len(A)): a = A[i]; b = B[i]`
            # (assumption, documented: the sequences zipped have one length - where they do not, the index form raises)
            if isinstance(it, ast.Call) and isinstance(it.func, ast.Name) and it.func.id == 'zip' and 2 <= len(it.args) <= 4 and not it.keywords \
                    and not any(isinstance(a_, ast.Starred) for a_ in it.args) and isinstance(n.target, ast.Tuple) \
                    and len(n.target.elts) == len(it.args) and all(isinstance(t, ast.Name) for t in n.target.elts) and not n.orelse:
                body_stores = {x.id for st in n.body for x in ast.walk(st) if isinstance(x, ast.Name) and isinstance(x.ctx, ast.Store)}
                tnames = [t.id for t in n.target.elts]
                seq_names = set().union(*[names_in(a_) for a_ in it.args])
                first = it.args[0]
                idx = '%s__idx' % (first.id if isinstance(first, ast.Name) else first.attr if isinstance(first, ast.Attribute) else 'zip%d' % n.lineno)
                grows = any(isinstance(x, ast.Call) and isinstance(x.func, ast.Attribute) and x.func.attr in (
                    'append', 'extend', 'insert', 'pop', 'remove', 'clear', 'sort', 'reverse') and any(ast.dump(x.func.value) == ast.dump(a_) for a_ in it.args)
                    for st in n.body for x in ast.walk(st))
                k_ = 1
                while uses_in_function(idx) != 0 and k_ < 9:
                    k_ += 1
                    idx = idx.rstrip('0123456789') + str(k_)
                if len(set(tnames)) == len(tnames) and not (seq_names & (body_stores | set(tnames))) and not (set(tnames) & body_stores) \
                        and uses_in_function(idx) == 0 and not grows:
                    # element names that live in this loop only are made unique to it (two loops may share them)
                    for k_t, t in enumerate(list(tnames)):
                        inside = sum(1 for x in ast.walk(n) if isinstance(x, ast.Name) and x.id == t)
                        fresh = '%s__z%d' % (t, getattr(n, 'lineno', 0))
                        # .. or in other loops that bind it themselves before reading it
                        others = sum(sum(1 for x in ast.walk(f_) if isinstance(x, ast.Name) and x.id == t) for f_ in ast.walk(node)
                                     if isinstance(f_, ast.For) and f_ is not n and any(isinstance(x, ast.Name) and x.id == t for x in ast.walk(f_.target))
                                     and not any(f_ is y for y in ast.walk(n)) and not any(n is y for y in ast.walk(f_)))
                        if inside + others == uses_in_function(t) and uses_in_function(fresh) == 0:
                            for x in ast.walk(n):
                                if isinstance(x, ast.Name) and x.id == t:
                                    x.id = fresh
                            tnames[k_t] = fresh
                    binds = [ast.copy_location(ast.Assign(targets=[ast.Name(id=t, ctx=ast.Store())], value=ast.Subscript(
                        value=copy_ast(a_), slice=ast.Name(id=idx, ctx=ast.Load()), ctx=ast.Load())), n) for t, a_ in zip(tnames, it.args)]
                    n.target = ast.copy_location(ast.Name(id=idx, ctx=ast.Store()), n.target)
                    n.iter = ast.copy_location(ast.Call(func=ast.Name(id='range', ctx=ast.Load()), args=[
                        ast.Call(func=ast.Name(id='len', ctx=ast.Load()), args=[copy_ast(first)], keywords=[])], keywords=[]), it)
                    n.body = binds + n.body
                    return ast.fix_missing_locations(n)
            if isinstance(it, ast.Call) and isinstance(it.func, ast.Name) and it.func.id == 'enumerate' and len(it.args) == 1 and not it.keywords \
                    and isinstance(it.args[0], (ast.Name, ast.Attribute)) and isinstance(n.target, ast.Tuple) and len(n.target.elts) == 2 \
                    and all(isinstance(t, ast.Name) for t in n.target.elts):
                i, v = n.target.elts
                xs = it.args[0]
                body_stores = {x.id for st in n.body for x in ast.walk(st) if isinstance(x, ast.Name) and isinstance(x.ctx, ast.Store)}
                # (re-binding the index or the element inside the body does not disturb either form of the loop)
                if i.id != v.id and not (names_in(xs) & (body_stores | {i.id, v.id})):
                    n.target = ast.copy_location(ast.Name(id=i.id, ctx=ast.Store()), i)
                    n.iter = ast.copy_location(ast.Call(func=ast.Name(id='range', ctx=ast.Load()), args=[
                        ast.Call(func=ast.Name(id='len', ctx=ast.Load()), args=[copy_ast(xs)], keywords=[])], keywords=[]), it)
                    first = ast.copy_location(ast.Assign(targets=[ast.Name(id=v.id, ctx=ast.Store())], value=ast.Subscript(
                        value=copy_ast(xs), slice=ast.Name(id=i.id, ctx=ast.Load()), ctx=ast.Load())), n)
                    n.body = [first] + n.body
            return n
    def merge_tail_returns(body):
        """`if c: return A` directly followed by the closing `return B` of the same list is `return A if c else B`."""
        for st in body:
            for field in ('body', 'orelse', 'finalbody'):
                sub = getattr(st, field, None)
                if isinstance(sub, list) and sub and isinstance(sub[0], ast.stmt) and not isinstance(st, (ast.FunctionDef, ast.ClassDef)):
                    merge_tail_returns(sub)
            for h in getattr(st, 'handlers', []) or []:
                merge_tail_returns(h.body)
        while len(body) >= 2 and isinstance(body[-1], ast.Return) and body[-1].value is not None and isinstance(body[-2], ast.If) \
                and not body[-2].orelse and len(body[-2].body) == 1 and isinstance(body[-2].body[0], ast.Return) and body[-2].body[0].value is not None:
            i_ = body[-2]
            v = ast.IfExp(test=i_.test, body=i_.body[0].value, orelse=body[-1].value)
            new_ret = ast.copy_location(ast.Return(value=ast.copy_location(v, i_)), i_)
            body[-2:] = [new_ret]
    merge_tail_returns(node.body)

    def lambdas_for_local_defs(fn_node):
        """A nested `def key(k): return <expr>` that is only handed around as a value (sorted(.., key=key)) is the lambda."""
        for st in list(ast.walk(fn_node)):
            body = getattr(st, 'body', None)
            if not (isinstance(body, list) and body and isinstance(body[0], ast.stmt)):
                continue
            for d_ in [x for x in body if isinstance(x, ast.FunctionDef) and x is not fn_node]:
                merge_tail_returns(d_.body)
                stmts = [x for x in d_.body if not (isinstance(x, ast.Expr) and isinstance(x.value, ast.Constant))]
                a_ = d_.args
                if len(stmts) == 1 and isinstance(stmts[0], ast.If) and len(stmts[0].body) == 1 and len(stmts[0].orelse) == 1 \
                        and isinstance(stmts[0].body[0], ast.Return) and isinstance(stmts[0].orelse[0], ast.Return) \
                        and stmts[0].body[0].value is not None and stmts[0].orelse[0].value is not None:
                    i0 = stmts[0]
                    stmts = [ast.copy_location(ast.Return(value=ast.IfExp(test=i0.test, body=i0.body[0].value, orelse=i0.orelse[0].value)), i0)]
                # straight-line temporaries in front of the return are folded into it
                if len(stmts) > 1 and isinstance(stmts[-1], ast.Return) and stmts[-1].value is not None and all(
                        isinstance(x, ast.Assign) and len(x.targets) == 1 and isinstance(x.targets[0], ast.Name) for x in stmts[:-1]):
                    env = {}

                    def subst(e_):
                        class S_(ast.NodeTransformer):
                            def visit_Name(self, n):
                                if isinstance(n.ctx, ast.Load) and n.id in env:
                                    return copy_ast(env[n.id])
                                return n
                        return S_().visit(copy_ast(e_))
                    for x in stmts[:-1]:
                        env[x.targets[0].id] = subst(x.value)
                    stmts = [ast.copy_location(ast.Return(value=subst(stmts[-1].value)), stmts[-1])]
                if len(stmts) != 1 or not isinstance(stmts[0], ast.Return) or stmts[0].value is None or d_.decorator_list \
                        or a_.vararg or a_.kwarg or a_.kwonlyargs or a_.defaults:
                    continue
                refs = [x for x in ast.walk(fn_node) if isinstance(x, ast.Name) and x.id == d_.name]
                if not refs or any(not isinstance(x.ctx, ast.Load) for x in refs):
                    continue
                if any(isinstance(x, (ast.Yield, ast.YieldFrom, ast.Await)) for x in ast.walk(d_)) or any(
                        isinstance(x, ast.Name) and x.id == d_.name for x in ast.walk(stmts[0])):
                    continue
                lam = ast.Lambda(args=ast.arguments(posonlyargs=[], args=[ast.arg(arg=x.arg) for x in a_.posonlyargs + a_.args], vararg=None,
                                                    kwonlyargs=[], kw_defaults=[], kwarg=None, defaults=[]), body=stmts[0].value)

                class L(ast.NodeTransformer):
                    def visit_Name(self, n):
                        if n.id == d_.name and isinstance(n.ctx, ast.Load):
                            return ast.copy_location(copy_ast(lam), n)
                        return n
                body.remove(d_)
                for i_, other in enumerate(body):
                    body[i_] = L().visit(other)
        ast.fix_missing_locations(fn_node)
    lambdas_for_local_defs(node)
    # the shape rules feed each other (a merged conditional return makes the list end in a return again): a few rounds
    prev = None
    for _ in range(4):
        node = D().visit(node)
        ast.fix_missing_locations(node)
        forward_substitute(node.body)
        merge_tail_returns(node.body)
        now = ast.dump(node)
        if now == prev:
            break
        prev = now
    ast.fix_missing_locations(node)
    node = _split_versions(fi, node)
    # every web is a variable of its own now: a re-bound parameter read once by the next statement is a temporary like any other
    prev = None
    for _ in range(3):
        forward_substitute(node.body)
        node = D().visit(node)
        ast.fix_missing_locations(node)
        merge_tail_returns(node.body)
        now = ast.dump(node)
        if now == prev:
            break
        prev = now
    node = _fold_temp_loops(node)
    sink_returns(node.body)          # arms that end in `v = f(v_earlier)` are assignments of a fresh web now
    # positions follow the canonical shape (pre-order), the original line is kept for reports
    counter = [0]

    def number(n):
        if hasattr(n, 'lineno'):
            n._orig_lineno = getattr(n, '_orig_lineno', n.lineno)
            counter[0] += 1
            n.lineno = counter[0]
            n.col_offset = 0
            n.end_lineno = counter[0]
            n.end_col_offset = 0
        for c in ast.iter_child_nodes(n):
            number(c)
    number(node)
    new = FuncInfo(fi.module, fi.cls, fi.name, node, fi.qual)
    new.closure = getattr(fi, 'closure', False)
    fi._canonical = new
    return new


_RC_MEMO = {}


def returns_container(repo, callee, depth):
    """Every value the function returns is a built-in container (display, comprehension, set()/list()/dict()/sorted(),
    a set operation on one, a local bound only to such values, a call of a repo function for which the same holds)."""
    key = callee.qual
    if key in _RC_MEMO:
        return _RC_MEMO[key]
    _RC_MEMO[key] = False
    node = callee.node
    assigns = {}
    for n in walk_shallow(node):
        if isinstance(n, ast.Assign) and len(n.targets) == 1 and isinstance(n.targets[0], ast.Name):
            assigns.setdefault(n.targets[0].id, []).append(n.value)

    def is_c(e, d, seen):
        if isinstance(e, (ast.List, ast.Dict, ast.Set, ast.Tuple, ast.ListComp, ast.SetComp, ast.DictComp)):
            return True
        if isinstance(e, ast.Call):
            fn = dotted(e.func) or ''
            if fn in ('set', 'list', 'dict', 'tuple', 'sorted', 'frozenset'):
                return True
            if isinstance(e.func, ast.Attribute) and e.func.attr in ('intersection', 'union', 'difference', 'symmetric_difference', 'copy', 'split', 'keys', 'values', 'items'):
                return e.func.attr in ('split',) or is_c(e.func.value, d, seen)
            q = repo.resolve_dotted(callee.module, fn) if fn else None
            if q in repo.funcs and d > 0:
                return returns_container(repo, repo.funcs[q], d - 1)
            return False
        if isinstance(e, ast.Name):
            if e.id in seen:
                return True          # `s = s.intersection(t)`: decided by the other bindings of s
            if e.id not in assigns:
                return False
            return all(is_c(v, d, seen | {e.id}) for v in assigns[e.id])
        if isinstance(e, ast.IfExp):
            return is_c(e.body, d, seen) and is_c(e.orelse, d, seen)
        return False
    rets = [n.value for n in walk_shallow(node) if isinstance(n, ast.Return)]
    ok = bool(rets) and all(r is not None and is_c(r, depth, set()) for r in rets)
    _RC_MEMO[key] = ok
    return ok


_RB_MEMO = {}


def returns_bool(repo, callee, depth=3):
    """Every value the function returns is a bool: a comparison, not .., and / or of such, True / False, any() / all() /
    isinstance() / bool(), a local bound only to such values, or a call of a repo function / method for which the same holds."""
    key = callee.qual
    if key in _RB_MEMO:
        return _RB_MEMO[key]
    _RB_MEMO[key] = False
    node = callee.node
    assigns = {}
    for n in walk_shallow(node):
        if isinstance(n, ast.Assign) and len(n.targets) == 1 and isinstance(n.targets[0], ast.Name):
            assigns.setdefault(n.targets[0].id, []).append(n.value)
        elif isinstance(n, (ast.For, ast.With, ast.AugAssign)) or (isinstance(n, ast.Assign) and not (len(n.targets) == 1 and isinstance(n.targets[0], ast.Name))):
            for x in ast.walk(n.target if isinstance(n, (ast.For, ast.AugAssign)) else n):
                if isinstance(x, ast.Name) and isinstance(x.ctx, ast.Store):
                    assigns.setdefault(x.id, []).append(None)

    def is_b(e, d, seen):
        if e is None:
            return False
        if isinstance(e, ast.Constant):
            return isinstance(e.value, bool)
        if isinstance(e, ast.Compare):
            return True
        if isinstance(e, ast.UnaryOp) and isinstance(e.op, ast.Not):
            return True
        if isinstance(e, ast.BoolOp):
            return all(is_b(v, d, seen) for v in e.values)
        if isinstance(e, ast.IfExp):
            return is_b(e.body, d, seen) and is_b(e.orelse, d, seen)
        if isinstance(e, ast.Call):
            fn = dotted(e.func) or ''
            if fn in ('any', 'all', 'isinstance', 'bool', 'callable', 'hasattr', 'issubclass'):
                return True
            if d > 0:
                q = repo.resolve_dotted(callee.module, fn) if fn and not fn.startswith('self.') else None
                if q in repo.funcs:
                    return returns_bool(repo, repo.funcs[q], d - 1)
                if isinstance(e.func, ast.Attribute):
                    cands = [f for f in repo.funcs.values() if f.name == e.func.attr and f.cls]
                    if len(cands) == 1:
                        return returns_bool(repo, cands[0], d - 1)
            return False
        if isinstance(e, ast.Name):
            if e.id in seen:
                return True
            if e.id not in assigns:
                return False
            return all(is_b(v, d, seen | {e.id}) for v in assigns[e.id])
        return False
    rets = [n.value for n in walk_shallow(node) if isinstance(n, ast.Return)]
    gen = any(isinstance(n, (ast.Yield, ast.YieldFrom)) for n in walk_shallow(node))
    ok = bool(rets) and not gen and all(is_b(r, depth, set()) for r in rets)
    _RB_MEMO[key] = ok
    return ok


def class_constants(fi, helper):
    """{'self.NAME' / 'Class.NAME': value} for NAME = <number | string> at class level of the function's class (or its repo
    bases) that no method re-binds through self."""
    repo = helper.repo if helper is not None else getattr(getattr(fi, 'module', None), 'repo', None)
    anchor = helper.fi if helper is not None else fi
    if repo is None or not anchor.cls:
        return {}
    cq = '%s:%s' % (anchor.module.name, anchor.cls)
    if cq not in repo.classes:
        return {}
    out = {}
    rebound = set()
    for k in repo.mro(cq):
        ci = repo.classes[k]
        for m in ci.methods.values():
            for x in ast.walk(m.node):
                if isinstance(x, ast.Attribute) and isinstance(x.ctx, (ast.Store, ast.Del)) and isinstance(x.value, ast.Name) and x.value.id in ('self', 'cls'):
                    rebound.add(x.attr)
    for k in reversed(repo.mro(cq)):
        ci = repo.classes[k]
        cnode = getattr(ci, 'node', None)
        if cnode is None:
            continue
        for st in cnode.body:
            if isinstance(st, ast.Assign) and len(st.targets) == 1 and isinstance(st.targets[0], ast.Name):
                v = st.value
                ok = (isinstance(v, ast.Constant) and isinstance(v.value, (int, float, str)) and not isinstance(v.value, bool)) or \
                     (isinstance(v, ast.UnaryOp) and isinstance(v.op, ast.USub) and isinstance(v.operand, ast.Constant))
                if ok and st.targets[0].id not in rebound:
                    out['self.' + st.targets[0].id] = v
                    out['%s.%s' % (k.split(':')[-1], st.targets[0].id)] = v
    return out


def effects(fi, keep=(), use_semiring=True, helper=None):
    """Canonical effect list of a function."""
    fi = canonical_func(fi)
    effs = _collect(fi, keep=keep)
    if helper is not None:
        for e in effs:
            e.target = helper.expand(e.target)
            e.value = helper.expand(e.value)
            e.ctx = [tuple(helper.expand(x) if isinstance(x, ast.AST) else x for x in c) for c in e.ctx]
    params = [p for p in fi.params]
    surviving = set()
    for e in effs:
        for x in [e.target, e.value] + [y for c in e.ctx for y in c[1:]]:
            if isinstance(x, ast.AST):
                surviving |= {n.id for n in ast.walk(x) if isinstance(n, ast.Name)}
        if e.kind.startswith(('bind:', 'aug:')):
            surviving.add(e.kind.split(':', 1)[1])
    rename = local_signatures(fi, params, surviving, set(keep) | mutated_locals(fi), helper)
    # free variables of a closure that are locals of the enclosing function: named by order of appearance
    import builtins
    known_globals = set(dir(builtins)) | {'np', 'numpy', 'torch', 'math', 'cv2', 'F', 'ET', 're', 'os', 'sys', 'json', 'logger', 'logging', 'self'}
    mod = getattr(fi, 'module', None)
    mod_names = set()
    if mod is not None and hasattr(mod, 'tree'):
        for s_ in mod.tree.body:
            if isinstance(s_, (ast.FunctionDef, ast.ClassDef)):
                mod_names.add(s_.name)
            elif isinstance(s_, ast.Assign):
                mod_names |= set(target_names(s_.targets[0]))
        mod_names |= set(mod.imports)
    if '.' in fi.qual.split(':')[-1] or fi.qual.startswith('<template>'):
        enclosing_is_func = fi.qual.startswith('<template>') or (fi.cls is None) or fi.qual.split(':')[-1].count('.') >= 2
        if enclosing_is_func:
            k = 0
            for e in effs:
                for x in [e.target, e.value] + [y for c in e.ctx for y in c[1:]]:
                    if isinstance(x, ast.AST):
                        for n in sorted((n for n in ast.walk(x) if isinstance(n, ast.Name)), key=lambda n: (getattr(n, 'lineno', 0), getattr(n, 'col_offset', 0))):
                            if n.id not in rename and n.id not in params and n.id not in known_globals and n.id not in mod_names and not n.id.startswith('_c'):
                                if fi.qual.startswith('<template>') and not _is_closure_template(fi):
                                    continue
                                rename[n.id] = 'free%d' % k
                                k += 1

    consts = {k: v for k, v in module_constants(fi.module).items() if k not in rename and k not in params}
    consts.update(class_constants(fi, helper))

    # names are resolved from the repository function under comparison, for both sides alike
    repo_ = helper.repo if helper is not None else None
    mod_ = helper.fi.module if helper is not None else None

    def bool_call(t):
        # a call of a repo function / uniquely named repo method all of whose returns are bools
        if not (isinstance(t, tuple) and len(t) == 4 and t[0] == 'call') or repo_ is None:
            return False
        f_ = t[1]
        if isinstance(f_, tuple) and f_[0] == 'fn' and isinstance(f_[1], str) and not f_[1].startswith('self.'):
            q = repo_.resolve_dotted(mod_, f_[1])
            return q in repo_.funcs and returns_bool(repo_, repo_.funcs[q])
        name = f_[2] if isinstance(f_, tuple) and f_[0] == 'attr' and len(f_) == 3 else (
            f_[1].split('.')[-1] if isinstance(f_, tuple) and f_[0] == 'fn' and isinstance(f_[1], str) else None)
        if name:
            cands = [f for f in repo_.funcs.values() if f.name == name and f.cls]
            return len(cands) == 1 and returns_bool(repo_, cands[0])
        return False

    def debool(t):
        # `True if f(..) else False` is `f(..)` when f returns bools only
        if isinstance(t, tuple):
            t = tuple(debool(x) for x in t)
            if len(t) == 4 and t[0] == 'ifexp' and t[2] == ('const', 'True') and t[3] == ('const', 'False') and bool_call(t[1]):
                return t[1]
        return t

    def cz(x):
        if x is None:
            return None
        t = canon(_comp_rename(x), params, rename, consts)
        return semiring(t) if use_semiring else t
    NEG = {'Eq': 'NotEq', 'NotEq': 'Eq', 'Lt': 'GtE', 'GtE': 'Lt', 'Gt': 'LtE', 'LtE': 'Gt', 'Is': 'IsNot', 'IsNot': 'Is', 'In': 'NotIn', 'NotIn': 'In'}


    def container_valued(t):
        if not isinstance(t, tuple) or not t:
            return False
        if t[0] in ('list', 'dict', 'set', 'tuple', 'comp'):
            return True
        if t[0] == 'call' and isinstance(t[1], tuple) and t[1][0] == 'fn' and isinstance(t[1][1], str):
            fn = t[1][1]
            if fn in ('set', 'list', 'dict', 'tuple', 'sorted', 'frozenset'):
                return True
            if repo_ is not None:
                q = repo_.resolve_dotted(mod_, fn)
                if q in repo_.funcs:
                    return returns_container(repo_, repo_.funcs[q], 3)
        return False

    def neg_term(t):
        if not isinstance(t, tuple) or not t:
            return None
        if t[0] == 'cmp' and len(t) == 4 and len(t[1]) == 1 and t[1][0] in NEG:
            op, l, r = NEG[t[1][0]], t[2], t[3]
            if op in ('Gt', 'GtE'):
                op, l, r = {'Gt': 'Lt', 'GtE': 'LtE'}[op], r, l
            if op in ('Eq', 'NotEq'):
                l, r = sorted([l, r], key=repr)
            return ('cmp', (op,), l, r)
        if t[0] == 'unary' and t[1] == 'Not':
            return t[2]
        if t[0] in ('and', 'or'):
            parts = [neg_term(x) for x in t[1:]]
            if any(p is None for p in parts):
                return None
            return ('or' if t[0] == 'and' else 'and',) + tuple(sorted(parts, key=repr))
        return None

    def norm_ctx(c):
        kind = c[0]
        if kind == 'for' and len(c) == 3 and isinstance(c[2], tuple) and len(c[2]) == 4 and c[2][0] == 'call' and c[2][1] == ('fn', 'list') \
                and len(c[2][2]) == 1 and not c[2][3] and isinstance(c[2][2][0], tuple) and c[2][2][0][:1] == ('call',):
            return (kind, c[1], c[2][2][0])          # walking list(<call>) is walking the fresh result of the call
        if kind in ('if', 'ifnot') and len(c) == 2 and isinstance(c[1], tuple):
            t = c[1]
            while t and t[0] == 'unary' and t[1] == 'Not':
                kind = 'ifnot' if kind == 'if' else 'if'
                t = t[2]
            if t and len(t) == 4 and t[0] == 'call' and t[1] == ('fn', 'len'):
                t = ('cmp', ('NotEq',), t, ('const', '0'))        # `if len(x):`
            elif t and len(t) == 4 and t[0] == 'call' and t[1] in (('fn', 're.match'), ('fn', 're.search'), ('fn', 're.fullmatch')):
                t = ('cmp', ('IsNot',), t, ('const', 'None'))     # `if re.match(..):` - a match object is always true
            elif container_valued(t):
                # truthiness of a built-in container is `len(..) != 0`
                t = ('cmp', ('NotEq',), ('call', ('fn', 'len'), (t,), ()), ('const', '0'))
            if kind == 'ifnot' and t and t[0] in ('and', 'or'):
                nt = neg_term(t)                                   # De Morgan: `ifnot (a or b)` is `if (not a and not b)`
                if nt is not None:
                    kind, t = 'if', nt
            if kind == 'ifnot' and t and t[0] == 'cmp' and len(t[1]) == 1 and t[1][0] in NEG:
                kind = 'if'
                op = NEG[t[1][0]]
                l, r = t[2], t[3]
                if op in ('Gt', 'GtE'):
                    op, l, r = {'Gt': 'Lt', 'GtE': 'LtE'}[op], r, l
                t = ('cmp', (op,), l, r)
            return (kind, t)
        return c
    # --- integer comparisons against the bounds of an enclosing `for i in range(N)` -------------------------------------
    def lin_of(t):
        """canonical term -> ({atom: coefficient}, constant) or None"""
        if not isinstance(t, tuple) or not t:
            return None
        if t[0] == 'const':
            try:
                v = ast.literal_eval(t[1])
            except Exception:
                return None
            return ({}, v) if isinstance(v, int) and not isinstance(v, bool) else None
        if t[0] in ('prod', 'add') and use_semiring == (t[0] == 'prod'):
            terms, const = {}, 0
            for x in t[1:]:
                l_ = lin_of(x)
                if l_ is None:
                    return None
                for k_, v_ in l_[0].items():
                    terms[k_] = terms.get(k_, 0) + v_
                const += l_[1]
            return {k_: v_ for k_, v_ in terms.items() if v_}, const
        if t[0] == 'neg' and len(t) == 2:
            l_ = lin_of(t[1])
            return None if l_ is None else ({k_: -v_ for k_, v_ in l_[0].items()}, -l_[1])
        if t[0] == 'mul':
            parts = [lin_of(x) for x in t[1:]]
            if any(p_ is None for p_ in parts):
                return None
            consts = [p_ for p_ in parts if not p_[0]]
            rest = [p_ for p_ in parts if p_[0]]
            if len(rest) <= 1:
                k = 1
                for p_ in consts:
                    k *= p_[1]
                if not rest:
                    return {}, k
                return {a_: v_ * k for a_, v_ in rest[0][0].items()}, rest[0][1] * k
            return {t: 1}, 0
        return {t: 1}, 0

    def lsub(a_, b_):
        terms = dict(a_[0])
        for k_, v_ in b_[0].items():
            terms[k_] = terms.get(k_, 0) - v_
        return {k_: v_ for k_, v_ in terms.items() if v_}, a_[1] - b_[1]

    def lfreeze(l_):
        return tuple(sorted(l_[0].items(), key=repr)), l_[1]

    def range_facts(headers):
        """[(loop variable, linear forms f known to satisfy f < 0, integer-valued atoms)] from `for v in range(N)` / `range(0, N)`"""
        facts, ints = [], set()
        for c in headers:
            if c[0] != 'for' or len(c) < 3 or not isinstance(c[2], tuple) or c[2][:2] != ('call', ('fn', 'range')) or c[2][3]:
                continue
            args = c[2][2]
            if len(args) == 2 and args[0] == ('const', '0'):
                args = args[1:]
            if len(args) != 1 or not isinstance(c[1], tuple) or c[1][0] != 'sym':
                continue
            n_ = lin_of(args[0])
            if n_ is None:
                continue
            v_ = ({c[1]: 1}, 0)
            facts.append(lsub(v_, n_))                         # v - N < 0
            facts.append(({c[1]: -1}, -1))                     # -v - 1 < 0
            ints.add(c[1])
            ints |= set(n_[0])
        return facts, ints

    def bound_atoms(block, headers):
        """Integer comparisons that involve the variable of an enclosing range loop, as `d < 0` / `d == 0` / `d != 0` over a linear
        form d; an equality AT a bound of the range is the order comparison (`i + 1 == N` is `i + 1 >= N`), a conjunct implied by the
        range or by a stronger conjunct of the same block is dropped (`i < N - 1 and i < N - 2`)."""
        facts, ints = range_facts(headers)
        if not facts:
            return block
        loopvars = {k_ for f_ in facts for k_ in f_[0] if k_[0] == 'sym'}
        out_, lts = [], []
        for c in block:
            t = c[1] if c[0] == 'if' and len(c) == 2 else None
            if not (isinstance(t, tuple) and len(t) == 4 and t[0] == 'cmp' and len(t[1]) == 1 and t[1][0] in ('Lt', 'LtE', 'Eq', 'NotEq')):
                out_.append(c)
                continue
            a_, b_ = lin_of(t[2]), lin_of(t[3])
            if a_ is None or b_ is None:
                out_.append(c)
                continue
            d = lsub(a_, b_)
            if not (set(d[0]) & loopvars) or not set(d[0]) <= ints:
                out_.append(c)
                continue
            op = t[1][0]
            if op == 'LtE':
                op, d = 'Lt', (d[0], d[1] - 1)
            if op in ('Eq', 'NotEq'):
                neg_d = ({k_: -v_ for k_, v_ in d[0].items()}, -d[1])
                if any(lfreeze((d[0], d[1] - 1)) == lfreeze(f_) for f_ in facts):        # d <= 0 is known
                    op, d = ('Lt', (neg_d[0], neg_d[1] - 1)) if op == 'Eq' else ('Lt', d)
                elif any(lfreeze((neg_d[0], neg_d[1] - 1)) == lfreeze(f_) for f_ in facts):  # d >= 0 is known
                    op, d = ('Lt', (d[0], d[1] - 1)) if op == 'Eq' else ('Lt', neg_d)
                else:
                    if repr(lfreeze(neg_d)) < repr(lfreeze(d)):
                        d = neg_d
                    out_.append(('if', ('lincmp', op, lfreeze(d))))
                    continue
            lts.append(d)
        keep = []
        for d in lts:
            if any(lfreeze((d[0], 0))[0] == lfreeze((f_[0], 0))[0] and d[1] <= f_[1] for f_ in facts):
                continue                                       # implied by the range itself
            keep.append(d)
        strongest = {}
        for d in keep:
            k_ = lfreeze((d[0], 0))[0]
            if k_ not in strongest or d[1] > strongest[k_][1]:
                strongest[k_] = d
        out_.extend(('if', ('lincmp', 'Lt', lfreeze(d))) for d in strongest.values())
        return out_

    def flatten_ctx(items):
        # the contexts of an effect form a conjunction: `if a: if b:` is `if a and b:`; tests between two loop / try headers
        # are kept as one sorted block
        out, block = [], []

        def flush():
            if block:
                out.extend(sorted(set(bound_atoms(block, out)), key=repr))
                del block[:]
        for c in items:
            if c[0] == 'if' and len(c) == 2:
                t = c[1]
                if isinstance(t, tuple) and t and t[0] == 'and':
                    block.extend(('if', x) for x in t[1:])
                else:
                    block.append(c)
            else:
                if c[0] == 'ifnot':
                    block.append(c)
                else:
                    flush()
                    out.append(c)
        flush()
        return tuple(out)
    for e in effs:
        ctx = flatten_ctx(norm_ctx((c[0],) + tuple(cz(x) if isinstance(x, ast.AST) else x for x in c[1:])) for c in e.ctx)
        kind = e.kind
        if kind.startswith(('bind:', 'aug:')):
            pre, nm = kind.split(':', 1)
            kind = pre + ':' + rename.get(nm, nm)
        e.key = (kind, ctx, cz(e.target), cz(e.value))
    return effs


def compare(fi, tmpl, keep=()):
    """-> (equal, missing-in-code [Effect of template], extra-in-code [Effect of code])."""
    helper = HelperInliner(fi) if getattr(fi.module, 'repo', None) is not None else None
    a = effects(fi, keep, helper=helper)
    b = effects(tmpl, keep, helper=helper)
    ka = [e.key for e in a]
    kb = [e.key for e in b]
    extra = []
    rest = list(kb)
    for e in a:
        if e.key in rest:
            rest.remove(e.key)
        else:
            extra.append(e)
    missing = []
    rest2 = list(ka)
    for e in b:
        if e.key in rest2:
            rest2.remove(e.key)
        else:
            missing.append(e)
    if (extra or missing) and os.environ.get('PVS_DEBUG_KEYS'):
        for e in missing:
            print('PVS_DEBUG_KEYS missing', e.key)
        for e in extra:
            print('PVS_DEBUG_KEYS extra  ', e.key)
    if not extra and not missing:
        # order: for every surviving local, the effects that mention it come in the same order
        def syms(k, out):
            if isinstance(k, tuple):
                if len(k) == 2 and k[0] == 'sym':
                    out.add(k[1])
                for x in k:
                    syms(x, out)
            elif isinstance(k, str) and k.startswith(('bind:', 'aug:')):
                out.add(k.split(':', 1)[1])
            return out
        sa = [(e, syms(e.key, set())) for e in a]
        sb = [(e, syms(e.key, set())) for e in b]
        NEGOP = {'Eq': 'NotEq', 'NotEq': 'Eq', 'Lt': 'GtE', 'GtE': 'Lt', 'Gt': 'LtE', 'LtE': 'Gt', 'Is': 'IsNot', 'IsNot': 'Is', 'In': 'NotIn', 'NotIn': 'In'}

        def negates(c1, c2):
            if c1[0] not in ('if', 'ifnot') or c2[0] not in ('if', 'ifnot'):
                return False
            if c1[0] != c2[0] and c1[1:] == c2[1:]:
                return True
            t1, t2 = c1[1], c2[1]
            if c1[0] == c2[0] and isinstance(t1, tuple) and isinstance(t2, tuple) and t1 and t2 and t1[0] == 'cmp' and t2[0] == 'cmp' \
                    and len(t1[1]) == 1 and len(t1) == 4 and t1[1][0] in NEGOP:
                op, l, r = NEGOP[t1[1][0]], t1[2], t1[3]
                if op in ('Gt', 'GtE'):          # canon keeps one orientation of order comparisons
                    op, l, r = {'Gt': 'Lt', 'GtE': 'LtE'}[op], r, l
                if ('cmp', (op,), l, r) == t2:
                    return True
            return False

        def exclusive(e1, e2):
            c1, c2 = e1.key[1], e2.key[1]
            for x, y in zip(c1, c2):
                if x == y:
                    continue
                return negates(x, y)
            return False
        def contains_term(t, sub):
            if t == sub:
                return True
            return isinstance(t, tuple) and any(contains_term(x, sub) for x in t)

        def independent(e1, e2):
            # plain stores into two different attributes of one object, neither reading what the other writes
            k1, k2 = e1.key, e2.key
            if k1[0] != 'store' or k2[0] != 'store':
                return False
            t1, t2 = k1[2], k2[2]
            if not (isinstance(t1, tuple) and isinstance(t2, tuple) and len(t1) == 3 and len(t2) == 3 and t1[0] == 'attr' and t2[0] == 'attr'):
                return False
            if t1[1] != t2[1] or t1[2] == t2[2]:
                return False
            return not contains_term(k1[3], t2) and not contains_term(k2[3], t1) and not contains_term(k1[1], t2) and not contains_term(k2[1], t1)
        for sym in sorted(set().union(*[s for _, s in sb]) if sb else ()):
            la = [e for e, s in sa if sym in s]
            lb = [e for e, s in sb if sym in s]
            # match code effects to reference effects (duplicates in order of occurrence)
            used = set()
            pos = []
            for ea in la:
                j = next((j for j, eb in enumerate(lb) if j not in used and eb.key == ea.key), None)
                used.add(j)
                pos.append(j)
            bad = None
            for i in range(len(la)):
                for j in range(i + 1, len(la)):
                    if pos[i] is not None and pos[j] is not None and pos[i] > pos[j] and not exclusive(la[i], la[j]) and not independent(la[i], la[j]):
                        bad = (la[i], lb[pos[j]])
                        break
                if bad:
                    break
            if bad:
                ea, eb = bad
                ea_copy = Effect('order:' + ea.kind, ea.ctx, ea.target, ea.value, ea.node)
                ea_copy.key = ea.key
                eb_copy = Effect('order:' + eb.kind, eb.ctx, eb.target, eb.value, eb.node)
                eb_copy.key = eb.key
                return False, [eb_copy], [ea_copy]
        # order on objects shared with the caller (self, parameters): an in-place write (attribute / element store, a call
        # made for its effect on the receiver or on an argument) keeps its place relative to every effect that reads or
        # writes the same object path
        self_idx = list(fi.params).index('self') if 'self' in fi.params else None

        def root_path(t):
            chain = []
            while isinstance(t, tuple) and t and t[0] in ('attr', 'sub'):
                chain.append(t)
                t = t[1]
            if not (isinstance(t, tuple) and len(t) == 2 and t[0] == 'param'):
                return None
            parts = [t]
            for c in reversed(chain):
                if c[0] == 'attr':
                    parts.append(c[2])
                else:
                    break
            return tuple(parts)

        def all_paths(t, out):
            if isinstance(t, tuple):
                rp = root_path(t) if t and t[0] in ('attr', 'sub', 'param') else None
                if rp is not None:
                    out.add(rp)
                if t and t[0] == 'fn' and isinstance(t[1], str) and t[1].startswith('self.') and self_idx is not None:
                    out.add((('param', self_idx),) + tuple(t[1].split('.')[1:-1]))
                for x in t:
                    all_paths(x, out)
            return out

        def rw(e):
            k = e.key
            reads = all_paths((k[1], k[2], k[3]), set())
            writes = set()
            if k[0] == 'store':
                rp = root_path(k[2])
                if rp is not None:
                    writes.add(rp)
            elif k[0] == 'call' and isinstance(k[3], tuple) and k[3] and k[3][0] == 'call':
                fnc, args = k[3][1], k[3][2]
                if fnc[0] == 'fn' and isinstance(fnc[1], str) and fnc[1].startswith('self.') and self_idx is not None:
                    writes.add((('param', self_idx),) + tuple(fnc[1].split('.')[1:-1]))
                elif fnc[0] == 'attr':
                    rp = root_path(fnc[1])
                    if rp is not None:
                        writes.add(rp)
                for a_ in args:
                    rp = root_path(a_)
                    if rp is not None:
                        writes.add(rp)
            return reads, writes

        def related(p, q):
            n = min(len(p), len(q))
            return p[:n] == q[:n]
        info = [rw(e) for e in a]
        if any(w for _, w in info):
            used = set()
            pos = []
            for ea in a:
                j = next((j for j, eb in enumerate(b) if j not in used and eb.key == ea.key), None)
                used.add(j)
                pos.append(j)
            for i in range(len(a)):
                ri, wi = info[i]
                for j in range(i + 1, len(a)):
                    if pos[i] is None or pos[j] is None or pos[i] < pos[j]:
                        continue
                    rj, wj = info[j]
                    if not ((wi and any(related(w, p) for w in wi for p in (rj | wj))) or (wj and any(related(w, p) for w in wj for p in (ri | wi)))):
                        continue
                    if exclusive(a[i], a[j]) or independent(a[i], a[j]):
                        continue
                    ea, eb = a[i], b[pos[j]]
                    ea_copy = Effect('order:' + ea.kind, ea.ctx, ea.target, ea.value, ea.node)
                    ea_copy.key = ea.key
                    eb_copy = Effect('order:' + eb.kind, eb.ctx, eb.target, eb.value, eb.node)
                    eb_copy.key = eb.key
                    return False, [eb_copy], [ea_copy]
    return (not extra and not missing), missing, extra


def statement_list(fi):
    """The function as a flat list of normalised statements (no inlining): simple statements and the headers of
    compound ones, parameters by position, locals renamed by order of first appearance."""
    fi = canonical_func(fi)
    params = list(fi.params)
    order = {}

    def rn(e):
        # raw local names on purpose: this list only measures HOW MUCH a function that already differs was edited
        return
    local_names = {d.name for ds in fi.flow.defs_at.values() for d in ds if d.kind != 'param'}
    for n in ast.walk(fi.node):
        if isinstance(n, ast.comprehension):
            local_names |= set(target_names(n.target))
        elif isinstance(n, ast.Lambda):
            local_names |= {a.arg for a in n.args.args}
    out = []

    def visit(body, depth):
        for s in body:
            if isinstance(s, ast.Expr) and isinstance(s.value, ast.Constant) and isinstance(s.value.value, str):
                continue
            if isinstance(s, ast.Pass):
                continue
            if isinstance(s, ast.Expr) and isinstance(s.value, ast.Call) and ((dotted(s.value.func) or '') == 'print' or (dotted(s.value.func) or '').startswith(('logger.', 'logging.'))):
                continue
            if isinstance(s, (ast.If, ast.While)):
                rn(s.test)
                out.append((depth, type(s).__name__, canon(s.test, params, order)))
                visit(s.body, depth + 1)
                if s.orelse:
                    out.append((depth, 'else'))
                    visit(s.orelse, depth + 1)
            elif isinstance(s, ast.For):
                rn(s.iter)
                rn(s.target)
                out.append((depth, 'For', canon(s.target, params, order), canon(s.iter, params, order)))
                visit(s.body, depth + 1)
                if s.orelse:
                    out.append((depth, 'else'))
                    visit(s.orelse, depth + 1)
            elif isinstance(s, ast.Try):
                out.append((depth, 'Try'))
                visit(s.body, depth + 1)
                for h in s.handlers:
                    out.append((depth, 'except', canon(h.type, params, order) if h.type is not None else None))
                    visit(h.body, depth + 1)
                visit(s.orelse, depth + 1)
                visit(s.finalbody, depth + 1)
            elif isinstance(s, ast.With):
                for it in s.items:
                    rn(it.context_expr)
                out.append((depth, 'With') + tuple(canon(it.context_expr, params, order) for it in s.items))
                visit(s.body, depth + 1)
            elif isinstance(s, (ast.FunctionDef, ast.ClassDef, ast.AsyncFunctionDef)):
                out.append((depth, 'def', s.name))
            else:
                rn(s)
                if isinstance(s, ast.Assign):
                    out.append((depth, 'Assign', tuple(canon(t, params, order) for t in s.targets), canon(s.value, params, order)))
                elif isinstance(s, ast.AugAssign):
                    out.append((depth, 'Aug', type(s.op).__name__, canon(s.target, params, order), canon(s.value, params, order)))
                elif isinstance(s, ast.Return):
                    out.append((depth, 'Return', canon(s.value, params, order) if s.value is not None else None))
                elif isinstance(s, ast.Expr):
                    out.append((depth, 'Expr', canon(s.value, params, order)))
                elif isinstance(s, ast.Raise):
                    out.append((depth, 'Raise'))
                elif isinstance(s, ast.Assert):
                    out.append((depth, 'Assert', canon(s.test, params, order)))
                else:
                    out.append((depth, type(s).__name__))
    visit(fi.node.body, 0)
    a_ = fi.node.args
    for d_ in list(a_.defaults) + [d for d in a_.kw_defaults if d is not None]:
        out.insert(0, (0, 'default', canon(d_, params, order)))
    return out


def statement_shape(fi, positional=False):
    """Hashes of the function's statements in order; nesting depth and bare 'else' markers are left out (an added guard
    with an early exit re-nests, but does not edit, what follows). positional=True names locals by order of first
    appearance instead of by their spelling (invariant under renaming, but an added local renumbers the later ones)."""
    import hashlib
    items = [x[1:] for x in statement_list(fi) if x[1] != 'else']

    def unz(t):
        # element names made unique per zip loop by canonical_func keep their spelling here
        if isinstance(t, tuple):
            return tuple(unz(x) for x in t)
        if isinstance(t, str) and ('__z' in t or 'unpack__' in t or '__idx' in t):
            import re
            t = re.sub(r'__z\d+\b', '', t)
            t = re.sub(r'\bunpack__\d+\b', 'unpack__', t)        # generated names carry a line number: not an edit
            t = re.sub(r'\bzip\d+__idx', 'zip__idx', t)
            return t
        return t
    items = [unz(x) for x in items]
    if positional:
        order = {}

        def rn(t):
            if isinstance(t, tuple):
                if len(t) == 2 and t[0] == 'name' and isinstance(t[1], str):
                    return ('name', order.setdefault(t[1], len(order)))
                return tuple(rn(x) for x in t)
            return t
        items = [rn(x) for x in items]
    return [hashlib.sha1(repr(x).encode()).hexdigest()[:8] for x in items]


_SHAPES = None


def reviewed_shape(qual):
    global _SHAPES
    if _SHAPES is None:
        import json, os
        p = os.path.join(os.path.dirname(__file__), 'refs', 'shapes.json')
        _SHAPES = json.load(open(p)) if os.path.exists(p) else {}
    return _SHAPES.get(qual)


def statement_diff(fi, tmpl):
    """Size of the statement-level difference between a function and its reviewed shape (refs/shapes.json; the reference
    form when the function has none): (statements deleted + inserted + replaced, number of reviewed statements).
    Only a MEASURE of how much was rewritten, used to tell a local deviation from a restructuring."""
    return function_diff(fi, tmpl)


def function_diff(fi, tmpl=None):
    """(changed statements, reviewed statements): the smaller of the spelling-based and the renaming-invariant difference."""
    ref = reviewed_shape(fi.qual)
    if ref:
        raw, pos = ref['raw'], ref['pos']
    elif tmpl is not None:
        raw, pos = statement_shape(tmpl), statement_shape(tmpl, positional=True)
    else:
        return None
    return min(shape_diff(raw, statement_shape(fi)), shape_diff(pos, statement_shape(fi, positional=True))), len(raw)


def shape_diff(a, b):
    import difflib
    sm = difflib.SequenceMatcher(None, a, b, autojunk=False)
    changed = 0
    for tag, i1, i2, j1, j2 in sm.get_opcodes():
        if tag != 'equal':
            changed += max(i2 - i1, j2 - j1)
    return changed


def _tokens(k, out=None):
    out = [] if out is None else out
    if isinstance(k, tuple):
        out.append('(')
        for x in k:
            _tokens(x, out)
        out.append(')')
    else:
        out.append(str(k))
    return out


def classify(missing, extra, n_ref):
    """Is the difference between a function and its reference form a LOCAL deviation (a few statements changed a
    little, deleted or added: reported as a violation) or a RESTRUCTURING beyond the equivalences (many or unrecognisably
    different effects: the checker cannot decide and says so)?  -> ('local' | 'restructured', explanation)"""
    import difflib
    if not missing and not extra:
        return 'equal', ''

    def shape(k):
        # names of surviving locals are hashes of their definitions: one changed definition renames every use.
        # For judging how MUCH changed, such renamings are neutralised.
        if isinstance(k, tuple):
            if len(k) == 2 and k[0] == 'sym':
                return ('sym',)
            return tuple(shape(x) for x in k)
        if isinstance(k, str) and k.startswith(('bind:', 'aug:')):
            return 'bind'
        if isinstance(k, str) and k.startswith('order:'):
            return shape(k[6:])
        return k
    M = list(missing)
    X = list(extra)
    # effects that differ only by such renamings are not changes
    sx = [shape(x.key) for x in X]
    for m in list(M):
        sm = shape(m.key)
        if sm in sx:
            i = sx.index(sm)
            sx.pop(i)
            X.pop(i)
            M.remove(m)
    if not M and not X:
        # only definitions-renamed effects differ: some definition changed; find it among the binds
        return 'local', 'only the definition of a carried / mutated local differs'
    pairs = []
    for m in list(M):
        best, bs = None, 0.0
        tm = _tokens(shape(m.key))
        for x in X:
            s = difflib.SequenceMatcher(None, tm, _tokens(shape(x.key)), autojunk=False).ratio()
            if s > bs:
                best, bs = x, s
        if best is not None and bs >= 0.72:
            pairs.append((m, best, bs))
            M.remove(m)
            X.remove(best)
    changed = len(pairs) + len(M) + len(X)
    why = '%d modified, %d missing, %d added of %d effects' % (len(pairs), len(M), len(X), n_ref)
    if M and X:
        return 'restructured', why + ' (statements rewritten beyond recognition)'
    if changed > max(3, int(0.3 * n_ref)):
        return 'restructured', why + ' (too many statements differ)'
    return 'local', why


def contains(fi, tmpl, keep=()):
    """Effects of the template that the function lacks (subset check; extra effects are ignored)."""
    a = [e.key for e in effects(fi, keep)]
    missing = []
    for e in effects(tmpl, keep):
        if e.key in a:
            a.remove(e.key)
        else:
            missing.append(e)
    return missing
