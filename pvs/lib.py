"""Matchers shared by the rule modules."""
import ast

from .core import AnalysisError, SelfCheckError, call_name, dotted, is_const, names_loaded, norm_stmt, src, walk_shallow, parents_map


def calls_in(node, suffix=None, exact=None):
    out = []
    for n in ast.walk(node):
        if isinstance(n, ast.Call):
            nm = call_name(n)
            if exact is not None:
                if nm == exact or (isinstance(exact, (set, tuple, list)) and nm in exact):
                    out.append(n)
            elif suffix is None or (nm is not None and (nm == suffix or nm.endswith('.' + suffix))):
                out.append(n)
    out.sort(key=lambda c: (c.lineno, c.col_offset))
    return out


def method_calls(node, method):
    """Calls `<anything>.method(...)` (also when the receiver is not a dotted name)."""
    out = [n for n in ast.walk(node) if isinstance(n, ast.Call) and isinstance(n.func, ast.Attribute)
           and n.func.attr == method]
    out.sort(key=lambda c: (c.lineno, c.col_offset))
    return out


def stmts_in(node):
    """All statements inside `node` in source order (not descending into nested defs)."""
    out = [n for n in walk_shallow(node) if isinstance(n, ast.stmt) and n is not node]
    out.sort(key=lambda s: (s.lineno, s.col_offset))
    return out


def attr_stores(node, attr=None):
    """(stmt, target Attribute, value) for `X.attr = value` / `X.attr += value` statements."""
    out = []
    for s in walk_shallow(node):
        if isinstance(s, ast.Assign):
            for t in s.targets:
                for tt in (t.elts if isinstance(t, (ast.Tuple, ast.List)) else [t]):
                    if isinstance(tt, ast.Attribute) and (attr is None or tt.attr == attr):
                        out.append((s, tt, s.value))
        elif isinstance(s, (ast.AugAssign, ast.AnnAssign)):
            if isinstance(s.target, ast.Attribute) and (attr is None or s.target.attr == attr) and s.value is not None:
                out.append((s, s.target, s.value))
    out.sort(key=lambda x: (x[0].lineno, x[0].col_offset))
    return out


def const_str(node):
    return node.value if isinstance(node, ast.Constant) and isinstance(node.value, str) else None


def get_kw(call, name, pos=None):
    for k in call.keywords:
        if k.arg == name:
            return k.value
    if pos is not None and len(call.args) > pos:
        return call.args[pos]
    return None


def enclosing_stmt(pm, node):
    while node is not None and not isinstance(node, ast.stmt):
        node = pm.get(node)
    return node


def ancestors(pm, node):
    node = pm.get(node)
    while node is not None:
        yield node
        node = pm.get(node)


def guards_of(pm, node, stop=None):
    """(test, polarity) of the If / While / IfExp / comprehension-if constructs that syntactically enclose `node`."""
    out = []
    child = node
    for a in ancestors(pm, node):
        if a is stop:
            break
        if isinstance(a, ast.If) or isinstance(a, ast.While):
            if any(child is s for s in a.body):
                out.append((a.test, True))
            elif any(child is s for s in a.orelse):
                out.append((a.test, False))
        elif isinstance(a, ast.IfExp):
            if child is a.body:
                out.append((a.test, True))
            elif child is a.orelse:
                out.append((a.test, False))
        child = a
    return out


def mentions_attr(node, attr):
    return any(isinstance(n, ast.Attribute) and n.attr == attr for n in ast.walk(node))


def attrs_mentioned(node):
    return {n.attr for n in ast.walk(node) if isinstance(n, ast.Attribute)}


def is_none_test(test):
    """('is', expr) / ('isnot', expr) for `expr is None` / `expr is not None`; else None."""
    if isinstance(test, ast.Compare) and len(test.ops) == 1 and is_const(test.comparators[0], None) \
            and test.comparators[0].value is None:
        if isinstance(test.ops[0], ast.Is):
            return ('is', test.left)
        if isinstance(test.ops[0], ast.IsNot):
            return ('isnot', test.left)
    return None


def find_loops(node, kind=(ast.For,)):
    out = [n for n in walk_shallow(node) if isinstance(n, kind)]
    out.sort(key=lambda s: (s.lineno, s.col_offset))
    return out


def same(a, b):
    return ast.dump(a) == ast.dump(b)


def dump_noctx(n):
    return ' '.join(src(n).split())


class Rules:
    """Runs rule functions, turning AnalysisError of one rule into an analysis error of that rule only."""

    def __init__(self, repo, chk):
        self.repo = repo
        self.chk = chk

    def run(self, name, fn, *a, soft_for=(), **k):
        """soft_for: functions this rule is about. When every one of them was proven equal (modulo renaming, inlining ...)
        to its reviewed reference form, an unrecognised idiom inside the rule is a limitation of the rule's matcher,
        not of the code: the rule's obligations are implied by the equivalence and the rule is skipped."""
        chk = self.chk._chk if isinstance(self.chk, Soft) else self.chk
        try:
            fn(*a, **k)
        except AnalysisError as e:
            quals = [self.repo.func(q).qual for q in soft_for if self.repo.has_func(q)]
            if quals and all(q in chk.equiv for q in quals):
                chk.soft_skipped.add(name)
                chk.ob(name, self.repo.func(soft_for[0]), None, 'matcher of rule %s does not recognise this (renamed / restructured) form: %s; '
                       'its obligations are implied by the proven equality with the reference form' % (name, e), True, construct='implied ' + name, nontrivial=False)
            else:
                chk.error(name, str(e), matcher=not isinstance(e, SelfCheckError))
        except Exception as e:  # a crash of one rule is an analysis error of that rule, never a verdict
            import traceback
            tb = traceback.extract_tb(e.__traceback__)[-1]
            chk.error(name, 'internal %s: %s (%s:%d)' % (type(e).__name__, e, tb.filename.split('/')[-1], tb.lineno), matcher=True)


def need(cond, msg):
    if not cond:
        raise AnalysisError(msg)


def need_selfcheck(cond, msg):
    if not cond:
        raise SelfCheckError(msg)


def single(items, what):
    items = list(items)
    if len(items) != 1:
        raise AnalysisError('expected exactly one %s, found %d' % (what, len(items)))
    return items[0]


def deep_sources(repo, fi, expr, at, depth=2):
    """Local derivation closure of `expr`, continued into the return values of repo functions it calls.
    Returns a list of (FuncInfo, expression)."""
    from .core import walk_shallow as _ws
    out = []
    seen = set()

    def go(fi, expr, at, depth):
        try:
            srcs = fi.flow.sources(expr, at)
        except AnalysisError:
            srcs = [expr]
        for e in srcs:
            if id(e) in seen:
                continue
            seen.add(id(e))
            out.append((fi, e))
            if depth <= 0:
                continue
            for c in ast.walk(e):
                if isinstance(c, ast.Call):
                    nm = dotted(c.func)
                    callee = None
                    if nm:
                        q = repo.resolve_dotted(fi.module, nm)
                        callee = repo.funcs.get(q) if q else None
                        if callee is None and nm.startswith('self.') and fi.cls:
                            callee = repo.find_method('%s:%s' % (fi.module.name, fi.cls), nm[5:])
                    if callee is not None and callee is not fi:
                        for r in _ws(callee.node):
                            if isinstance(r, ast.Return) and r.value is not None:
                                go(callee, r.value, r, depth - 1)
    go(fi, expr, at, depth)
    return out


class Soft:
    """Proxy of a Check whose obligations are `soft`: a failure on a function that was proven equal to its
    reviewed reference form (for which the obligation holds) is a renaming artefact, not a violation."""

    def __init__(self, chk):
        self._chk = chk

    def ob(self, *a, **k):
        k.setdefault('soft', True)
        return self._chk.ob(*a, **k)

    def __getattr__(self, name):
        return getattr(self._chk, name)
