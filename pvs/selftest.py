"""Thorough tier: the checker is tested both ways on variants of the CURRENT /repo sources.

  must-kill : (a) the seeded changes committed under /verif/seeded/<id>/patch.diff for this property,
              (b) the per-property table of specific breaks in pvs/seeds_table.py (text edits, skipped when the
                  text is no longer there);  every one must add a VIOLATION          -> else SELFTEST-FAIL (exit 2)
  benign    : alpha-renaming of all locals, `ast.unparse` re-formatting, inserted logging / pass statements,
              hoisting of sub-expressions into temporaries; every one must reproduce the base verdict
                                                                                      -> else SELFTEST-FAIL (exit 2)
  generic   : statement deletion, comparison / constant / argument / sign mutations applied to the functions the
              check analysed; the kill ratio is measured and reported (not judged): the boundary of static reach.

Variants are written to a fresh temporary directory outside /repo and /verif, analysed (never executed) by worker
processes and deleted.
"""
import ast
import copy
import glob
import json
import os
import random
import shutil
import subprocess
import sys
import tempfile
from concurrent.futures import ProcessPoolExecutor

from .core import PKG_DIRS, REPO
from .report import VERIF

WORKERS = 16


# ----------------------------------------------------------------------------
# variant construction
# ----------------------------------------------------------------------------

def base_files(repo):
    return {m.relpath: m.source for m in repo.modules.values()}


def write_tree(files, overrides):
    tmp = tempfile.mkdtemp(prefix='pvs_selftest_')
    for rel, text in files.items():
        text = overrides.get(rel, text)
        p = os.path.join(tmp, rel)
        os.makedirs(os.path.dirname(p), exist_ok=True)
        with open(p, 'w', encoding='utf-8') as f:
            f.write(text)
    return tmp


def analyse_variant(args):
    """Worker: analyse one variant tree; returns (name, exit class, violated constructs, errors)."""
    name, prop, files, overrides = args
    tmp = write_tree(files, overrides)
    trace = os.environ.get('PVS_TRACE')
    if trace:
        with open(trace, 'a') as f:
            f.write('start %s\n' % name)
    try:
        from .__main__ import run_property
        from .report import load_known, match_known
        chk, repo = run_property(prop, 'quick', 0, root=tmp)
        chk.settle_equivalence(repo)
        chk.settle_restructuring(repo)
        known = load_known()
        viol = []
        counts = {}
        for o in chk.obs:
            counts[o.rule] = counts.get(o.rule, 0) + 1
            if not o.ok and match_known(known, prop, o) is None:
                viol.append('%s|%s|%s' % (o.rule, o.anchor.split(':')[-1], o.construct))
        errs = ['%s: %s' % e for e in chk.errors]
        for rule, minimum in chk.minimums.items():
            if counts.get(rule, 0) < minimum and rule not in chk.soft_skipped and not chk.all_equivalent and not chk.restructured:
                errs.append('%s: matched %d < %d' % (rule, counts.get(rule, 0), minimum))
        if trace:
            with open(trace, 'a') as f:
                f.write('done %s\n' % name)
        return name, viol, errs
    except Exception as e:  # pragma: no cover
        return name, [], ['internal %s: %s' % (type(e).__name__, e)]
    finally:
        shutil.rmtree(tmp, ignore_errors=True)


# -- benign transformations ----------------------------------------------------

class _Renamer(ast.NodeTransformer):
    def __init__(self, names, suffix):
        self.names = names
        self.suffix = suffix

    def visit_Name(self, node):
        if node.id in self.names:
            node.id = node.id + self.suffix
        return node

    def visit_ExceptHandler(self, node):
        if node.name in self.names:
            node.name = node.name + self.suffix
        self.generic_visit(node)
        return node


def _local_names(fn):
    """Names bound inside `fn` (not parameters, not global / nonlocal), safe to rename in the whole subtree."""
    params = set()
    for n in ast.walk(fn):
        if isinstance(n, (ast.FunctionDef, ast.AsyncFunctionDef, ast.Lambda)):
            a = n.args
            params |= {x.arg for x in a.posonlyargs + a.args + a.kwonlyargs}
            if a.vararg:
                params.add(a.vararg.arg)
            if a.kwarg:
                params.add(a.kwarg.arg)
    bound = set()
    banned = set(params)
    for n in ast.walk(fn):
        if isinstance(n, ast.Name) and isinstance(n.ctx, ast.Store):
            bound.add(n.id)
        elif isinstance(n, (ast.Global, ast.Nonlocal)):
            banned |= set(n.names)
        elif isinstance(n, ast.ExceptHandler) and n.name:
            bound.add(n.name)
        elif isinstance(n, (ast.FunctionDef, ast.ClassDef)) and n is not fn:
            banned.add(n.name)
        elif isinstance(n, (ast.Import, ast.ImportFrom)):
            for al in n.names:
                banned.add((al.asname or al.name).split('.')[0])
    return bound - banned - {'self', 'cls', '_'}


def alpha_rename(source, suffix='_rn'):
    tree = ast.parse(source)
    for n in ast.walk(tree):
        if isinstance(n, (ast.FunctionDef, ast.AsyncFunctionDef)):
            # only outermost functions / methods: nested defs are renamed as part of their parent
            pass
    def top_functions(body):
        for s in body:
            if isinstance(s, (ast.FunctionDef, ast.AsyncFunctionDef)):
                yield s
            elif isinstance(s, ast.ClassDef):
                yield from top_functions(s.body)
            elif isinstance(s, (ast.If, ast.Try)):
                for f in ('body', 'orelse', 'finalbody'):
                    yield from top_functions(getattr(s, f, []) or [])
                for h in getattr(s, 'handlers', []) or []:
                    yield from top_functions(h.body)
    for fn in top_functions(tree.body):
        names = _local_names(fn)
        if names:
            _Renamer(names, suffix).visit(fn)
    return ast.unparse(tree)


def reformat(source):
    return ast.unparse(ast.parse(source))


def add_noise(source):
    """Insert a logging call and a pass at the start of every function body (after the docstring)."""
    tree = ast.parse(source)
    for n in ast.walk(tree):
        if isinstance(n, (ast.FunctionDef, ast.AsyncFunctionDef)):
            i = 1 if (n.body and isinstance(n.body[0], ast.Expr) and isinstance(n.body[0].value, ast.Constant) and isinstance(n.body[0].value.value, str)) else 0
            noise = ast.parse("print('entering %s')\npass" % n.name).body
            decos = {ast.unparse(d) for d in n.decorator_list}
            if any('jit' in d for d in decos):
                noise = ast.parse('pass').body
            n.body[i:i] = noise
    ast.fix_missing_locations(tree)
    return ast.unparse(tree)


def hoist_temps(source, rnd):
    """Bind the right-hand side of some `x = a <op> b` assignments through a fresh temporary."""
    tree = ast.parse(source)
    counter = [0]

    def process(body):
        out = []
        for s in body:
            for field in ('body', 'orelse', 'finalbody'):
                sub = getattr(s, field, None)
                if isinstance(sub, list) and sub and isinstance(sub[0], ast.stmt) and not isinstance(s, ast.ClassDef):
                    setattr(s, field, process(sub))
            if isinstance(s, ast.ClassDef):
                s.body = [process([x])[0] if isinstance(x, (ast.FunctionDef, ast.AsyncFunctionDef)) else x for x in s.body]
            for h in getattr(s, 'handlers', []) or []:
                h.body = process(h.body)
            if isinstance(s, ast.Assign) and len(s.targets) == 1 and isinstance(s.targets[0], ast.Name) and isinstance(s.value, (ast.BinOp, ast.Call)) \
                    and not any(isinstance(x, (ast.Yield, ast.Await, ast.NamedExpr)) for x in ast.walk(s.value)) and rnd.random() < 0.5:
                counter[0] += 1
                tmp = '_pvs_tmp%d' % counter[0]
                out.append(ast.Assign(targets=[ast.Name(id=tmp, ctx=ast.Store())], value=s.value, lineno=s.lineno, col_offset=s.col_offset))
                out.append(ast.Assign(targets=s.targets, value=ast.Name(id=tmp, ctx=ast.Load()), lineno=s.lineno, col_offset=s.col_offset))
            else:
                out.append(s)
        return out
    tree.body = [process([x])[0] if isinstance(x, (ast.FunctionDef, ast.AsyncFunctionDef, ast.ClassDef)) else x for x in tree.body]
    ast.fix_missing_locations(tree)
    return ast.unparse(tree)


def _terminates(body):
    if not body:
        return False
    last = body[-1]
    if isinstance(last, (ast.Return, ast.Raise, ast.Continue, ast.Break)):
        return True
    if isinstance(last, ast.If) and last.orelse:
        return _terminates(last.body) and _terminates(last.orelse)
    return False


def restructure(source, rnd):
    """Control-flow re-phrasings that keep behaviour: `if c: return X; rest` -> `if c: return X else: rest`;
    `if c: A else: B` -> `if not c: B else: A`; `x = v` -> `x: object = v`."""
    tree = ast.parse(source)

    def process(body, in_func):
        out = []
        i = 0
        while i < len(body):
            s = body[i]
            for field in ('body', 'orelse', 'finalbody'):
                sub = getattr(s, field, None)
                if isinstance(sub, list) and sub and isinstance(sub[0], ast.stmt):
                    setattr(s, field, process(sub, in_func or isinstance(s, (ast.FunctionDef, ast.AsyncFunctionDef))))
            for h in getattr(s, 'handlers', []) or []:
                h.body = process(h.body, in_func)
            if in_func and isinstance(s, ast.If) and not s.orelse and _terminates(s.body) and i + 1 < len(body) and rnd.random() < 0.6 \
                    and not any(isinstance(x, (ast.FunctionDef, ast.ClassDef)) for x in body[i + 1:]):
                rest = process(body[i + 1:], in_func)
                s.orelse = rest
                out.append(s)
                return out
            if in_func and isinstance(s, ast.If) and s.orelse and not (len(s.orelse) == 1 and isinstance(s.orelse[0], ast.If)) and rnd.random() < 0.5:
                s.test = ast.UnaryOp(op=ast.Not(), operand=s.test)
                s.body, s.orelse = s.orelse, s.body
            if in_func and isinstance(s, ast.Assign) and len(s.targets) == 1 and isinstance(s.targets[0], ast.Name) and rnd.random() < 0.3:
                s = ast.AnnAssign(target=s.targets[0], annotation=ast.Name(id='object', ctx=ast.Load()), value=s.value, simple=1,
                                  lineno=s.lineno, col_offset=s.col_offset)
            out.append(s)
            i += 1
        return out
    tree.body = process(tree.body, False)
    ast.fix_missing_locations(tree)
    return ast.unparse(tree)


# -- generic breaking operators ---------------------------------------------------

CMP_SWAP = {ast.Lt: ast.LtE, ast.LtE: ast.Lt, ast.Gt: ast.GtE, ast.GtE: ast.Gt, ast.Eq: ast.NotEq, ast.NotEq: ast.Eq,
            ast.Is: ast.IsNot, ast.IsNot: ast.Is, ast.In: ast.NotIn, ast.NotIn: ast.In}


def generic_mutants(source, func_lines, rnd, limit):
    """Yield (description, mutated source) for single-point mutations inside the given line ranges."""
    tree = ast.parse(source)
    sites = []
    for n in ast.walk(tree):
        ln = getattr(n, 'lineno', None)
        if ln is None or not any(a <= ln <= b for a, b in func_lines):
            continue
        if isinstance(n, ast.Compare) and len(n.ops) == 1 and type(n.ops[0]) in CMP_SWAP:
            sites.append(('cmp', n))
        elif isinstance(n, ast.Constant) and isinstance(n.value, int) and not isinstance(n.value, bool) and abs(n.value) <= 4:
            sites.append(('const', n))
        elif isinstance(n, ast.BinOp) and isinstance(n.op, (ast.Add, ast.Sub)):
            sites.append(('sign', n))
        elif isinstance(n, ast.Call) and len(n.args) >= 2 and all(isinstance(a, ast.Name) for a in n.args[:2]) and n.args[0].id != n.args[1].id:
            sites.append(('args', n))
        elif isinstance(n, (ast.Assign, ast.AugAssign, ast.Expr)) and not (isinstance(n, ast.Expr) and isinstance(n.value, ast.Constant)):
            sites.append(('del', n))
        elif isinstance(n, ast.If):
            sites.append(('neg', n))
    # two adjacent simple statements where the second reads a name, or an object, the first writes: swapped
    for n in ast.walk(tree):
        for field in ('body', 'orelse', 'finalbody'):
            b = getattr(n, field, None)
            if not (isinstance(b, list) and b and isinstance(b[0], ast.stmt)):
                continue
            for s1, s2 in zip(b, b[1:]):
                ln = getattr(s1, 'lineno', None)
                if ln is None or not any(a_ <= ln <= b_ for a_, b_ in func_lines):
                    continue
                if not all(isinstance(x, (ast.Assign, ast.AugAssign)) for x in (s1, s2)):
                    continue
                w = set()
                for t in (s1.targets if isinstance(s1, ast.Assign) else [s1.target]):
                    e = t
                    while isinstance(e, (ast.Subscript, ast.Attribute)) and not (isinstance(e, ast.Attribute) and isinstance(e.value, ast.Name) and e.value.id == 'self'):
                        e = e.value
                    w |= {ast.dump(e).replace('Store()', 'Load()')} if isinstance(e, (ast.Name, ast.Attribute)) else set()
                r = {ast.dump(x) for x in ast.walk(s2.value) if isinstance(x, (ast.Name, ast.Attribute))}
                if w & r:
                    sites.append(('swap', s1))
    rnd.shuffle(sites)
    out = []
    for kind, node in sites:
        if len(out) >= limit:
            break
        t2 = copy.deepcopy(tree)
        target = None
        for m in ast.walk(t2):
            if type(m) is type(node) and getattr(m, 'lineno', None) == node.lineno and getattr(m, 'col_offset', None) == node.col_offset \
                    and getattr(m, 'end_col_offset', None) == getattr(node, 'end_col_offset', None):
                target = m
                break
        if target is None:
            continue
        desc = '%s at line %d: %s' % (kind, node.lineno, ' '.join(ast.unparse(node).split())[:70])
        if kind == 'cmp':
            target.ops = [CMP_SWAP[type(target.ops[0])]()]
        elif kind == 'const':
            target.value = target.value + 1
        elif kind == 'sign':
            target.op = ast.Sub() if isinstance(target.op, ast.Add) else ast.Add()
        elif kind == 'args':
            target.args[0], target.args[1] = target.args[1], target.args[0]
        elif kind == 'neg':
            target.test = ast.UnaryOp(op=ast.Not(), operand=target.test)
        elif kind == 'swap':
            done = False
            for m in ast.walk(t2):
                for field in ('body', 'orelse', 'finalbody'):
                    b = getattr(m, field, None)
                    if isinstance(b, list) and target in b:
                        i = b.index(target)
                        if i + 1 < len(b):
                            b[i], b[i + 1] = b[i + 1], b[i]
                            done = True
                        break
                if done:
                    break
            if not done:
                continue
        elif kind == 'del':
            class Del(ast.NodeTransformer):
                def generic_visit(self, n):
                    for field, old in ast.iter_fields(n):
                        if isinstance(old, list):
                            new = []
                            for v in old:
                                if v is target:
                                    new.append(ast.Pass())
                                else:
                                    if isinstance(v, ast.AST):
                                        v = self.visit(v)
                                    new.append(v)
                            old[:] = new
                        elif isinstance(old, ast.AST):
                            self.visit(old)
                    return n
            Del().visit(t2)
        ast.fix_missing_locations(t2)
        try:
            text = ast.unparse(t2)
            compile(text, '<mutant>', 'exec')
        except Exception:
            continue
        out.append((desc, text))
    return out


# ----------------------------------------------------------------------------
# driver
# ----------------------------------------------------------------------------

def apply_patch_text(files, patch_path):
    """Apply a unified diff to an in-memory tree using `patch` in a temp dir; returns overrides or None."""
    tmp = write_tree(files, {})
    try:
        r = subprocess.run(['patch', '-p1', '-s', '-d', tmp, '-i', patch_path], capture_output=True, text=True)
        if r.returncode != 0:
            return None
        over = {}
        for rel, text in files.items():
            with open(os.path.join(tmp, rel), encoding='utf-8') as f:
                new = f.read()
            if new != text:
                over[rel] = new
        return over
    finally:
        shutil.rmtree(tmp, ignore_errors=True)


def run(prop, repo, chk, seed):
    rnd = random.Random(seed)
    files = base_files(repo)
    from .report import load_known, match_known
    _known = load_known()
    base_viol = sorted('%s|%s|%s' % (o.rule, o.anchor.split(':')[-1], o.construct) for o in chk.obs
                       if not o.ok and match_known(_known, prop, o) is None)
    analysed = sorted(chk.functions)
    mods = {}
    for q in analysed:
        fi = repo.funcs.get(q)
        if fi is not None:
            mods.setdefault(fi.module.relpath, []).append((fi.node.lineno, fi.node.end_lineno))
    jobs = []
    kinds = {}

    def add(kind, name, overrides):
        jobs.append((name, prop, files, overrides))
        kinds[name] = kind
    # must-kill: seeded patches committed under /verif/seeded
    for pd in sorted(glob.glob(os.path.join(VERIF, 'seeded', prop + '*', 'patch.diff'))):
        over = apply_patch_text(files, pd)
        name = 'seeded:' + os.path.basename(os.path.dirname(pd))
        if over:
            add('must', name, over)
        else:
            kinds[name] = 'skipped'
    # must-kill: table of specific breaks
    try:
        from .seeds_table import TABLE
    except Exception:
        TABLE = {}
    for i, (rel, old, new, what) in enumerate(TABLE.get(prop, [])):
        text = files.get(rel)
        name = 'table:%d %s' % (i, what)
        if text is None or text.count(old) < 1:
            kinds[name] = 'skipped'
            continue
        mutated = text.replace(old, new, 1)
        try:
            compile(mutated, rel, 'exec')
        except SyntaxError:
            kinds[name] = 'skipped'
            continue
        add('must', name, {rel: mutated})
    # benign / generic variants are made for the twelve modules that hold most of the analysed functions (the dependency cone
    # of a pipeline-wide property spans two dozen modules; every module is still covered by the must-kill set and the rules)
    variant_mods = sorted(sorted(mods, key=lambda r_: (-len(mods[r_]), r_))[:12])
    for rel in variant_mods:
        try:
            add('benign', 'alpha-rename:' + rel, {rel: alpha_rename(files[rel])})
            add('benign', 'reformat:' + rel, {rel: reformat(files[rel])})
            add('benign', 'noise:' + rel, {rel: add_noise(files[rel])})
            # the gated variants use fixed random streams (1, 2): a self-test must give the same verdict on the same tree
            add('benign', 'hoist:' + rel, {rel: hoist_temps(files[rel], random.Random(1))})
            add('benign', 'restructure:' + rel, {rel: restructure(files[rel], random.Random(2))})
            if seed:
                # VERIF_SEED explores further random re-phrasings; their outcome is measured and reported, not gated
                add('explore', 'hoist[seed %d]:%s' % (seed, rel), {rel: hoist_temps(files[rel], random.Random(seed + 1))})
                add('explore', 'restructure[seed %d]:%s' % (seed, rel), {rel: restructure(files[rel], random.Random(seed + 2))})
        except SyntaxError:
            pass
    # generic
    per_mod = max(6, 48 // max(1, len(variant_mods)))
    for rel in variant_mods:
        for desc, text in generic_mutants(files[rel], mods[rel], rnd, per_mod):
            add('generic', 'generic:%s %s' % (rel, desc), {rel: text})
    results = {}
    with ProcessPoolExecutor(max_workers=WORKERS) as ex:
        for name, viol, errs in ex.map(analyse_variant, jobs, chunksize=1):
            results[name] = (viol, errs)
    fails = []
    must = [n for n, k in kinds.items() if k == 'must']
    for n in must:
        viol, errs = results[n]
        new = [v for v in viol if v not in base_viol]
        # a wholesale rewrite is answered with "restructured, cannot decide" (exit 2, function named): reported, not silent
        if not new and not any('RESTRUCTURED' in e for e in errs):
            fails.append('must-kill variant not detected: %s%s' % (n, (' (analysis errors: %s)' % errs[:2]) if errs else ''))
    benign = [n for n, k in kinds.items() if k == 'benign']
    for n in benign:
        viol, errs = results[n]
        if sorted(viol) != base_viol or errs:
            fails.append('benign variant changed the verdict: %s -> new %s errors %s' % (n, [v for v in viol if v not in base_viol][:3], errs[:2]))
    explore = [n for n, k in kinds.items() if k == 'explore']
    explore_loud = [n for n in explore if sorted(results[n][0]) != base_viol or results[n][1]]
    gen = [n for n, k in kinds.items() if k == 'generic']
    killed = [n for n in gen if [v for v in results[n][0] if v not in base_viol] or results[n][1]]
    survivors = [n for n in gen if n not in killed]
    chk.extra['selftest'] = {
        'must_kill': len(must), 'must_kill_detected': len(must) - sum(1 for f in fails if f.startswith('must')),
        'benign': len(benign), 'benign_silent': len(benign) - sum(1 for f in fails if f.startswith('benign')),
        'explored_rephrasings': len(explore), 'explored_rephrasings_silent': len(explore) - len(explore_loud),
        'explored_rephrasings_not_recognised': explore_loud[:20],
        'generic': len(gen), 'generic_killed': len(killed),
        'generic_survivors_sample': survivors[:25],
        'skipped': [n for n, k in kinds.items() if k == 'skipped'],
        'seed': seed, 'workers': WORKERS,
        'note': 'generic survivors are measured, not judged: they mark the boundary of what the structural rules can see',
    }
    print('SELFTEST %s: must-kill %d/%d, benign silent %d/%d, generic killed %d/%d' % (
        prop, chk.extra['selftest']['must_kill_detected'], len(must), chk.extra['selftest']['benign_silent'], len(benign), len(killed), len(gen)))
    for f in fails:
        print('SELFTEST-FAIL ' + f)
        chk.error('selftest', f)
