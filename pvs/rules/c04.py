"""C04 - greedy transcription is the CTC collapse of the arg-max path (structural clauses)."""
import ast

from ..core import call_name, dotted, src, walk_shallow, is_const, const_value
from ..lib import Soft, Rules, need
from . import refcheck

WHAT = {
    'greedy_call': 'arg-max per frame, groupby collapse of repeats, then blanks dropped, then mapped through the letters',
    'greedy_decode_ctc': 'blank frame prepended, class ids shifted by one, repeats and blanks zeroed in the shifted domain, shift undone, negatives dropped',
}


def run(repo, chk):
    chk.explanation = ('ORDER: the stand-alone decoder collapses repeats before dropping blanks; OFFSET: in the engine decoder the class-id '
                       'shift, the blank constant, the drop sentinel and the prepended frame cancel exactly (integer offset algebra on the constants found in the source). '
                       'WRAP: no cyclic shift (torch.roll / np.roll) of the arg-max path stands in for the prepended blank frame.')
    chk.note_undecided('agreement of the two decoders on every tensor (equality of two array programs)', 'the unusable 2-D branch of greedy_decode_ctc')
    R = Rules(repo, chk)
    refcheck.run_all(R, repo, chk, 'RECUR', 'greedy_ref.py', WHAT)
    refcheck.run_all(R, repo, chk, 'RECUR', 'nets_ref.py', {'py_init': 'the character table handed to the greedy decoder ends with the blank'}, only=('py_init',))
    refcheck.run_all(R, repo, chk, 'RECUR', 'decsetup_ref.py', {'greedy_init': 'blank index = position of the blank symbol'}, only=('greedy_init', 'assert_letters_valid'))
    refcheck.run_all(R, repo, chk, 'RECUR', 'ocr_ref.py', {'py_run_ocr': 'the engine decodes greedily exactly the network output it returns (all frames)'}, only=('py_run_ocr',))
    R.run('ORDER', order, repo, chk)
    R.run('OFFSET', offset, repo, Soft(chk))
    R.run('WRAP', wrap, repo, chk)
    chk.expect('RECUR', 6)
    chk.expect('ORDER', 3)
    chk.expect('OFFSET', 7)


def cyclic_shifts(node):
    out = []
    for c in ast.walk(node):
        if isinstance(c, ast.Call):
            nm = call_name(c) or ''
            if nm in ('torch.roll', 'np.roll', 'numpy.roll') or (isinstance(c.func, ast.Attribute) and c.func.attr == 'roll'):
                out.append(c)
    return out


def wrap(repo, chk):
    """WRAP: "a frame that repeats its predecessor starts no new symbol" needs a predecessor for the first frame that is a
    blank. A cyclic shift (torch.roll / np.roll) of the arg-max path hands the first frame the LAST frame of the line (without
    `dims`, of the previous line of the batch) as predecessor: a leading symbol equal to it is dropped. The shift is accepted
    only if position 0 of the comparison is overwritten afterwards."""
    from ..lib import need_selfcheck
    fi = repo.func('pero_ocr.ocr_engine.pytorch_ocr_engine:greedy_decode_ctc')
    rolls = cyclic_shifts(fi.node)
    fixes = [s_ for s_ in ast.walk(fi.node) if isinstance(s_, ast.Assign) and any(
        isinstance(t, ast.Subscript) and (is_const(t.slice, 0) or (isinstance(t.slice, ast.Tuple) and t.slice.elts and is_const(t.slice.elts[-1], 0)))
        for t in s_.targets) and any(r.lineno < s_.lineno for r in rolls)]
    for r in rolls:
        chk.ob('WRAP', fi, r, 'the first frame of a line is compared with a blank predecessor, not with a wrapped-around frame', bool(fixes),
               '%s shifts the path cyclically: frame 0 is compared with the last frame; no later store into position 0 repairs it' % ' '.join(src(r).split()),
               construct='cyclic shift in greedy_decode_ctc', robust=True)
    chk.ob('WRAP', fi, fi.node, 'no cyclic shift of the arg-max path stands in for the prepended blank frame', not rolls or bool(fixes), construct='cyclic shifts', robust=True)
    sample = ast.parse("def f(best):\n    mask = best == torch.roll(best, shifts=1, dims=1)\n    best[mask] = 0\n    return np.roll(best, 1)\n")
    need_selfcheck(len(cyclic_shifts(sample)) == 2, 'WRAP recogniser no longer fires on its embedded positive example')


def order(repo, chk):
    fi = repo.func('pero_ocr.decoding.decoders:GreedyDecoder.__call__')
    gb = [c for c in ast.walk(fi.node) if isinstance(c, ast.Call) and (call_name(c) or '').endswith('groupby')]
    need(len(gb) == 1, 'expected one groupby call')
    srcs = fi.flow.sources(gb[0].args[0], gb[0])
    filt_before = any(isinstance(x, ast.Attribute) and x.attr == '_blank_ind' for e in srcs for x in ast.walk(e))
    am = any(isinstance(x, ast.Call) and isinstance(x.func, ast.Attribute) and x.func.attr == 'argmax' and
             any(k.arg == 'axis' and is_const(k.value, 1) for k in x.keywords) for e in srcs for x in ast.walk(e))
    chk.ob('ORDER', fi, gb[0], 'repeats are merged on the raw arg-max path (blank not filtered yet)', not filt_before, construct='groupby before blank filter')
    chk.ob('ORDER', fi, gb[0], 'the path is the arg-max over the symbol axis (axis=1 of T x C)', am, construct='argmax axis')
    # the blank filter iterates something derived from groupby
    comps = [g for g in ast.walk(fi.node) if isinstance(g, (ast.GeneratorExp, ast.ListComp)) and
             any(isinstance(x, ast.Attribute) and x.attr == '_blank_ind' for i in g.generators for t in i.ifs for x in ast.walk(t))]
    need(comps, 'no comprehension filtering the blank found')
    g = comps[0]
    it_src = fi.flow.sources(g.generators[0].iter, g)
    ok = any(x is gb[0] for e in it_src for x in ast.walk(e))
    test = g.generators[0].ifs[0]
    ok2 = isinstance(test, ast.Compare) and isinstance(test.ops[0], ast.NotEq)
    chk.ob('ORDER', fi, g, 'blanks are dropped after the merge, and only blanks (!= blank index)', ok and ok2, construct='blank filter after groupby')
    idx = [x for x in ast.walk(g.elt) if isinstance(x, ast.Subscript) and isinstance(x.value, ast.Attribute) and x.value.attr == '_letters']
    ok = bool(idx) and isinstance(idx[0].slice, ast.Name) and idx[0].slice.id == g.generators[0].target.id
    chk.ob('ORDER', fi, g, 'surviving ids are mapped through the character table', ok, construct='letters lookup')


def offset(repo, chk):
    fi = repo.func('pero_ocr.ocr_engine.pytorch_ocr_engine:greedy_decode_ctc')
    scores = fi.params[0]
    top_if = next((s for s in fi.node.body if isinstance(s, ast.If)), None)
    need(top_if is not None and top_if.orelse, 'greedy_decode_ctc: 2-D / 3-D branch not found')
    br = top_if.orelse
    t = [' '.join(src(s).split()) for s in br]
    cat = [c for s in br for c in ast.walk(s) if isinstance(c, ast.Call) and (call_name(c) or '').endswith('cat')]
    need(cat, 'no torch.cat in the 3-D branch')
    ax = next((k.value for k in cat[0].keywords if k.arg in ('axis', 'dim')), None)
    ok = ax is not None and is_const(ax, 2) and '%s[:, :, 0:1]' % scores in src(cat[0])
    chk.ob('OFFSET', fi, cat[0], 'one frame is prepended on the time axis (axis 2 of N x C x T)', ok, construct='prepend frame')
    stores = [s for s in br if isinstance(s, ast.Assign) and isinstance(s.targets[0], ast.Subscript)]
    vals = {}
    for s in stores:
        vals[' '.join(src(s.targets[0]).split())] = const_value(s.value) if isinstance(s.value, (ast.Constant, ast.UnaryOp)) else None
    lo = vals.get('%s[:, :, 0]' % scores)
    hi = vals.get('%s[:, -1, 0]' % scores)
    ok = lo is not None and hi is not None and hi > lo
    chk.ob('OFFSET', fi, stores[0] if stores else fi.node, 'the prepended frame is forced to blank (all classes low, last class high)', ok,
           'stores %s' % vals, construct='prepended frame = blank')
    # after the branch: best = argmax(scores, 1) + k
    body = fi.node.body
    tt = ' '.join(' '.join(src(s).split()) for s in body)
    k = None
    for s in body:
        if isinstance(s, ast.Assign) and isinstance(s.value, ast.BinOp) and isinstance(s.value.op, ast.Add) and 'argmax' in src(s.value.left) and isinstance(s.value.right, ast.Constant):
            k = s.value.right.value
            am = s.value.left
            chk.ob('OFFSET', fi, s, 'arg-max over the class axis (axis 1)', len(am.args) >= 2 and is_const(am.args[1], 1), construct='argmax class axis')
    need(k is not None, 'class-id shift (argmax + k) not found')
    bv = next(s.targets[0].id for s in body if isinstance(s, ast.Assign) and isinstance(s.value, ast.BinOp) and 'argmax' in src(s.value.left)
              and isinstance(s.targets[0], ast.Name))
    # blank constant compared in the shifted domain: (C-1) + k == shape[1] requires k == 1
    blank_cmp = [c for s in body for c in ast.walk(s) if isinstance(c, ast.Compare) and 'shape[1]' in src(c)]
    ok = bool(blank_cmp) and k == 1 and ' '.join(src(blank_cmp[0].comparators[0]).split()) == '%s.shape[1]' % scores
    chk.ob('OFFSET', fi, blank_cmp[0] if blank_cmp else fi.node, 'blank is compared as (C-1)+shift = shape[1] in the shifted domain', ok,
           'shift %s, compared with %s' % (k, src(blank_cmp[0].comparators[0]) if blank_cmp else None), construct='blank constant')
    ok = '%s[:, :-1] == %s[:, 1:]' % (bv, bv) in tt and '%s = %s[:, 1:]' % (bv, bv) in tt
    chk.ob('OFFSET', fi, fi.node, 'repeat mask compares frame t-1 with t; exactly the prepended frame is dropped', ok, construct='repeat mask / drop first frame')
    # sentinel 0 in shifted domain becomes -1 after un-shifting, filter keeps >= 0
    unshift = [s for s in body if isinstance(s, ast.Assign) and isinstance(s.value, ast.BinOp) and isinstance(s.value.op, ast.Sub) and isinstance(s.value.right, ast.Constant)]
    k2 = unshift[0].value.right.value if unshift else None
    sent = [s for s in body if isinstance(s, ast.Assign) and isinstance(s.targets[0], ast.Subscript) and isinstance(s.value, ast.Constant) and
            isinstance(s.targets[0].value, ast.Name) and s.targets[0].value.id == bv]
    sv = {s.value.value for s in sent}
    ok = k2 == k and sv == {0} and len(sent) == 2
    chk.ob('OFFSET', fi, unshift[0] if unshift else fi.node, 'shift is undone by the same constant; dropped frames carry sentinel 0 -> -1', ok,
           'shift %s unshift %s sentinels %s' % (k, k2, sorted(sv)), construct='unshift / sentinel')
    filt = [c for s in ast.walk(fi.node) for c in [s] if isinstance(c, ast.Compare) and isinstance(c.ops[0], ast.GtE) and is_const(c.comparators[0], 0)]
    chk.ob('OFFSET', fi, filt[0] if filt else fi.node, 'only ids >= 0 are kept and mapped through chars', bool(filt) and any(isinstance(x, ast.Subscript) and isinstance(x.value, ast.Name) and x.value.id == fi.params[1] for x in ast.walk(fi.node)), construct='keep >= 0')
