"""C08 - a page's result does not depend on processing history or schedule (structural clauses)."""
import ast

from ..core import AnalysisError, call_name, dotted, src, walk_shallow
from ..lib import Rules, need, need_selfcheck, calls_in, method_calls
from ..lifetime import World, ResetAnalysis, rng_calls, self_path, global_writes
from . import refcheck, pf_common

PP = 'pero_ocr.document_ocr.page_parser'
# fields whose re-initialisation is decided elsewhere: one named symbol each, with the reason
DELEGATED = {
    'linear_cache': 'attention caches are (re)allocated at the first decoding step of every batch: decided by C20.IDXPAIR',
    'memory_tgt': 'layer memory: row t-1 written before rows [:t] are returned, dropped on batch-size change: decided by C20.IDXPAIR',
}
WHAT = {
    'pd_init': 'PageDecoder starts without LM state or previous line',
    'pd_process_page': 'LM state AND previous line are forgotten at the start of every page, unconditionally',
    'decode_line': 'confident lines are skipped and reset the LM state; carried LM state is re-primed from the previous line of THIS page only',
    'pp_process_page': 'stages run in a fixed order on the page handed in',
    'update_confidences': 'line confidence is recomputed from the line\'s own logits',
}


def world_of(repo):
    if getattr(repo, '_c08_world', None) is None:
        repo._c08_world = World(repo, PP + ':PageParser')
    return repo._c08_world


def run(repo, chk):
    chk.explanation = ('RESET: closure of objects that live as long as the PageParser (constructor calls, factories, constructor-argument '
                       'propagation); fields stored outside __init__ on the per-page call graph; forward must-write analysis over access paths '
                       'from PageParser.process_page, entered context-sensitively into callees: a load of such a field not definitely written '
                       'earlier in the same page is an upward-exposed read, i.e. state leaking from an earlier page (all histories at once). '
                       'RNG: no call into the global random generators reachable from the entry point. SIBLING/PAIR: sequential and pooled '
                       'dispatch are the same call; ids and images stay aligned under --skip-processed.')
    chk.note_undecided('purity of the torch modules in eval mode (assumed)', 'GPU non-determinism')
    chk.assumptions = ['objects created in a constructor live as long as their owner', 'torch modules are pure functions of their inputs in eval mode']
    R = Rules(repo, chk)
    R.run('RESET', reset, repo, chk)
    R.run('RNG', rng, repo, chk)
    R.run('GLOBALS', module_state, repo, chk)
    R.run('SIBLING', pf_common.sibling_dispatch, repo, chk, 'SIBLING')
    R.run('PAIR', pf_common.pair_filters, repo, chk, 'PAIR')
    refcheck.run_all(R, repo, chk, 'RECUR', 'pagedec_ref.py', WHAT)
    refcheck.run_all(R, repo, chk, 'RECUR', 'driver_ref.py', {'pp_init': 'every stage object is created once per parser from the configuration', 'comp_call': 'a page is loaded afresh for every call; nothing is kept between calls'}, only=('pp_init', 'filter_confident_lines', 'layout_parser_factory', 'line_cropper_factory', 'ocr_factory', 'pageocr_init', 'comp_call', 'comp_init'))
    refcheck.run_all(R, repo, chk, 'RECUR', 'nets_ref.py', {}, only=('get_maps_with_optimal_resolution', 'pn_get_maps', 'pn_init'))
    chk.expect('RESET', 9)
    chk.expect('RNG', 2)
    chk.expect('GLOBALS', 2)
    chk.expect('SIBLING', 4)
    chk.expect('PAIR', 3)
    chk.expect('RECUR', 16)


def reset(repo, chk):
    w = world_of(repo)
    need(len(w.classes) >= 25, 'long-lived closure shrank to %d classes' % len(w.classes))
    ra = ResetAnalysis(w, PP + ':PageParser', 'process_page')
    exposed = ra.run()
    chk.extra['long_lived_classes'] = sorted(c.split(':')[1] for c in w.classes)
    chk.extra['methods_on_page_call_graph'] = len(ra.reached)
    by_field = {}
    for e in exposed:
        by_field.setdefault((ra._decl_for(e), e.path[-1]) if hasattr(ra, '_decl_for') else e.path[-1], []).append(e)
    fields = sorted(ra.page_stores)
    need(len(fields) >= 7, 'fewer page-dependent fields than confirmed by reading: %s' % fields)
    for (cq, f) in fields:
        stores = ra.page_stores[(cq, f)]
        ex = [e for e in exposed if e.path[-1] == f]
        cname = cq.split(':')[1]
        if f in DELEGATED:
            chk.ob('RESET', stores[0][0], stores[0][1], '%s.%s: re-initialisation delegated (%s)' % (cname, f, DELEGATED[f]), True,
                   construct='field %s.%s' % (cname, f), nontrivial=False)
            continue
        if not ex:
            chk.ob('RESET', stores[0][0], stores[0][1], '%s.%s is page-dependent (%d store(s)); every read in a page follows a write of the same page, '
                   'or only feeds the field itself' % (cname, f, len(stores)), True, construct='field %s.%s' % (cname, f))
        for e in ex[:1]:
            chain = ' -> '.join(x.split(':')[1] for x in e.chain[-4:])
            chk.ob('RESET', e.fi, e.node, '%s.%s is read before any write of the current page' % (cname, f), False,
                   'upward-exposed read at %s via %s; stored at %s: the value left by the previously processed page influences this one'
                   % (e.fi.loc(e.node), chain, ', '.join(sorted({fi.loc(s) for fi, s in stores}))[:200]),
                   construct='field %s.%s' % (cname, f))


def rng(repo, chk):
    w = world_of(repo)
    ra = ResetAnalysis(w, PP + ':PageParser', 'process_page')
    seen = set()
    n = 0
    for q, cq in sorted(ra.reached, key=str):
        if q in seen:
            continue
        seen.add(q)
        fi = repo.funcs[q]
        for c in rng_calls(fi.node):
            n += 1
            chk.ob('RNG', fi, c, 'no draw from the global random generators on the page-processing call graph', False,
                   '%s makes the result of processing one page differ from run to run' % call_name(c), construct='rng ' + call_name(c) + ' in ' + fi.name)
    chk.ob('RNG', repo.funcs[ra.entry.qual], ra.entry.node, '%d functions reachable from PageParser.process_page draw nothing from random / numpy.random global state' % len(seen),
           n == 0, construct='rng reachability')
    # embedded positive example: the recogniser must fire
    sample = ast.parse("def f(b):\n    return [x + random.uniform(0.001, 0.999) for x in b] + [np.random.rand()]\n")
    need_selfcheck(len(rng_calls(sample)) == 2, 'RNG recogniser no longer fires on its embedded positive example')
    chk.ob('RNG', None, None, 'recogniser fires on the embedded positive example (random.uniform, np.random.rand)', True, construct='rng positive example', nontrivial=False)


def module_state(repo, chk):
    w = world_of(repo)
    ra = ResetAnalysis(w, PP + ':PageParser', 'process_page')
    seen = set()
    n = 0
    for q, cq in sorted(ra.reached, key=str):
        if q in seen:
            continue
        seen.add(q)
        fi = repo.funcs[q]
        for node, what in global_writes(repo, fi):
            n += 1
            chk.ob('GLOBALS', fi, node, 'no function on the page-processing call graph writes process-wide state', False,
                   what + ': state that outlives the page and is shared by every page processed afterwards', construct='global write in %s: %s' % (fi.name, what))
    # objects built while a page is processed (lines, regions, hypotheses ...) come from constructors all over the
    # library; short-lived classes are not followed by the call graph above, so the library is scanned as a whole.
    # Definitions nested in a function are re-created by every call of it: their defaults do not outlive that call.
    for q, fi in sorted(repo.funcs.items()):
        if q in seen or not q.startswith('pero_ocr.'):
            continue
        tail = q.split(':')[1].split('.')
        if any((q.split(':')[0] + ':' + '.'.join(tail[:k])) in repo.funcs for k in range(1, len(tail))):
            continue
        seen.add(q)
        for node, what in global_writes(repo, fi):
            n += 1
            chk.ob('GLOBALS', fi, node, 'no library function writes process-wide state', False,
                   what + ': state that outlives the page and is shared by every page processed afterwards', construct='global write in %s: %s' % (fi.name, what))
    entry = repo.funcs[ra.entry.qual]
    chk.ob('GLOBALS', entry, entry.node, '%d functions (everything reachable from PageParser.process_page, and every library function) write no module-level object, class attribute, function attribute or mutable default argument' % len(seen),
           n == 0, construct='global writes')
    import ast as _ast
    sample = repo.funcs.get(PP + ':get_prob')
    from ..core import FuncInfo
    mod = repo.module('pero_ocr.document_ocr.page_parser')
    tree = _ast.parse("def f(x, _memo={}):\n    _memo[x] = 1\n    logger.cache.append(x)\n    return _memo\n")
    fake = FuncInfo(mod, None, 'f', tree.body[0], PP + ':<positive example>')
    need_selfcheck(len(global_writes(repo, fake)) == 3, 'GLOBALS recogniser lost its positive example (store into and escape of a mutable default, in-place call on a module object)')

    # module-level mutable objects on the decoding path must not be mutated in place
    m = repo.module('pero_ocr.decoding.decoders')
    bad = []
    for n in ast.walk(m.tree):
        if isinstance(n, ast.Call) and isinstance(n.func, ast.Attribute) and n.func.attr in ('append', 'extend', 'insert', 'pop', 'remove', 'clear'):
            t = src(n.func.value)
            if 'EMPTY_PREFIX' in t or t.startswith(('A_prev[', 'prefixes[', 'A_new[')) or t in ('prefix',):
                bad.append(n)
        if isinstance(n, ast.AugAssign) and ('EMPTY_PREFIX' in src(n.target) or src(n.target).startswith(('A_prev[', 'A_new[', 'prefixes['))):
            bad.append(n)
    fi = repo.func('pero_ocr.decoding.decoders:find_new_prefixes')
    chk.ob('GLOBALS', fi, bad[0] if bad else fi.node, 'the shared EMPTY_PREFIX list / beam prefixes are never mutated in place (extension builds a new list)',
           not bad, construct='EMPTY_PREFIX immutable')
