"""C05 - forced alignment is a valid, minimum-cost CTC alignment (structural clauses)."""
import ast

from ..core import call_name, dotted, src, walk_shallow, is_const, parents_map
from ..lib import Rules, need, guards_of
from . import refcheck

F = 'pero_ocr.core.force_alignment'
WHAT = {
    'force_align': 'states = blank-interleaved labels; HMM from the labels; Viterbi over the expanded costs; result mapped back through the state sequence',
    'hmm_trans_from_string': 'CTC topology: self loop, next state, skip over a blank only between different labels',
    'complete_state_seq': 'blank among the labels is rejected; odd states carry the labels',
    'initial_cost': 'alignment may start in the first blank or the first label',
    'final_cost': 'alignment may end in the last label or the last blank',
    'backtrack': 'states are read back through rows len-1 .. 1 of the back-pointers',
    'expand_logits': 'cost columns re-indexed by state symbol',
    'compute_update': "new[i] = min over allowed (j -> i) of cost[j] + frame[i]; back[i] = the arg-min j",
    'viterbi_align': 'first frame = initial cost + frame 0; updates for frames 1..; final cost added; infeasible -> ValueError before backtracking',
    'align_text': 'position of character i = its most probable frame among the frames aligned to it',
}


def run(repo, chk):
    chk.explanation = ('Forced-alignment helpers equal their reference forms (CTC HMM topology, Viterbi update with (from, to) index roles, '
                       'open start / end states); the skip transition is control-dependent on "labels differ"; infeasibility raises before backtracking.')
    chk.note_undecided('optimality of the alignment, exact feasibility boundary, strictly increasing positions (values of the DP)')
    R = Rules(repo, chk)
    refcheck.run_all(R, repo, chk, 'RECUR', 'fa_ref.py', WHAT)
    R.run('CDEP', cdep, repo, chk)
    R.run('GUARD', guard, repo, chk)
    chk.expect('RECUR', 10)
    chk.expect('CDEP', 2)
    chk.expect('GUARD', 3)


def cdep(repo, chk):
    fi = repo.func(F + ':hmm_trans_from_string')
    pm = parents_map(fi.node)
    skips = []
    for s in walk_shallow(fi.node):
        if isinstance(s, ast.Assign) and isinstance(s.targets[0], ast.Subscript) and isinstance(s.targets[0].slice, ast.Tuple):
            a, b = s.targets[0].slice.elts
            if isinstance(b, ast.BinOp) and isinstance(b.op, ast.Add) and is_const(b.right, 2) and src(b.left) == src(a):
                skips.append(s)
    need(skips, 'no skip transition A[i, i+2] found')
    for s in skips:
        gs = guards_of(pm, s)
        differ = any(pol and isinstance(t, ast.Compare) and isinstance(t.ops[0], ast.NotEq) and
                     all(isinstance(x, ast.Subscript) for x in (t.left, t.comparators[0])) for t, pol in gs)
        chk.ob('CDEP', fi, s, 'blank may be skipped only when the neighbouring labels differ', differ,
               'enclosing tests: %s' % [src(t) for t, p in gs], construct='skip needs different labels')
        row = src(s.targets[0].slice.elts[0])
        odd = any(pol and ('%s %% 2 == 1' % row) in ' '.join(src(t).split()) for t, pol in gs)
        chk.ob('CDEP', fi, s, 'skip transitions start in label states only (odd states)', odd, construct='skip from label states')


def guard(repo, chk):
    fi = repo.func(F + ':viterbi_align')
    cfg = fi.cfg
    rets = [n for n in cfg.nodes if n.kind == 'return']
    tests = [n for n in cfg.nodes if n.kind == 'test' and 'inf' in src(n.ast) and isinstance(n.ast, ast.Compare)]
    need(rets and tests, 'viterbi_align: return / infeasibility test not found')
    t = tests[-1]
    raising = [m for m, lab in cfg.succ[t.id] if lab is True and cfg.nodes[m].kind == 'raise']
    ok = bool(raising) and all(cfg.must_pass(r.id, [t.id], skip_exc=True) for r in rets)
    chk.ob('GUARD', fi, t.ast, 'an infinite best final cost raises before any back-tracking', ok, construct='infeasible raises')
    ok2 = isinstance(t.ast.ops[0], ast.Eq) and any(call_name(c) in ('np.amin', 'np.min', 'min') for c in ast.walk(t.ast) if isinstance(c, ast.Call))
    chk.ob('GUARD', fi, t.ast, 'the test looks at the minimum over the final states', ok2, construct='infeasible test = min')
    fi2 = repo.func(F + ':complete_state_seq')
    cfg2 = fi2.cfg
    tests = [n for n in cfg2.nodes if n.kind == 'test' and isinstance(n.ast, ast.Compare) and isinstance(n.ast.ops[0], ast.In)
             and src(n.ast.left) == fi2.params[1] and src(n.ast.comparators[0]) == fi2.params[0]]
    ok = bool(tests) and all(cfg2.nodes[m].kind == 'raise' for m, lab in cfg2.succ[tests[0].id] if lab is True) and \
        all(cfg2.must_pass(r.id, [tests[0].id], skip_exc=True) for r in cfg2.nodes if r.kind == 'return')
    chk.ob('GUARD', fi2, tests[0].ast if tests else fi2.node, 'blank among the labels is rejected before anything is returned', ok, construct='blank in labels raises')
    fi3 = repo.func(F + ':hmm_trans_from_string')
    ok = any(isinstance(s, ast.If) and any(isinstance(x, ast.Raise) for x in s.body) and '< 1' in src(s.test) or '== 0' in src(s.test)
             for s in fi3.node.body if isinstance(s, ast.If))
    chk.ob('GUARD', fi3, fi3.node, 'an empty label sequence is rejected', ok, construct='empty labels raise')


