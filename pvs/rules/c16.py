"""C16 - every reported confidence is a probability derived from normalised posteriors (structural clauses)."""
import ast

from ..core import AnalysisError, call_name, dotted, src, walk_shallow, is_const
from ..lib import Soft, Rules, need, deep_sources, calls_in
from . import refcheck

CE = 'pero_ocr.core.confidence_estimation'
PP = 'pero_ocr.document_ocr.page_parser'
B = 'pero_ocr.decoding.bag_of_hypotheses'
NORMALISERS = ('log_softmax', 'normalize_logits', 'get_full_logprobs', 'F.log_softmax', 'torch.log_softmax')
REDUCERS = ('np.logaddexp.reduce', 'logsumexp', 'scipy.special.logsumexp', 'np.logaddexp.reduce')

WHAT = {
    'normalize_logits': 'x - logsumexp(x, axis=1)[:, newaxis]: row-normalised log-probabilities',
    'get_line_confidence': 'label probability minus the best competing probability in the character\'s span, clipped at 0',
    'line_confident_enough': 'worst best-symbol probability of the row-normalised posteriors, compared once with the threshold',
    'compute_line_confidence': 'row-normalise, best symbol per frame, worst of the per-symbol best probabilities',
    'get_prob': 'minimum over symbols of the maximum probability within each run of equal symbols',
    'posteriors': 'total scores minus their logsumexp (sum of exp = 1), recomputed from the current scores and weight on every call',
    'confidence': 'exp(max posterior)',
    'transcript_confidence': 'exp(posterior of the transcript), 0 when absent',
}


def is_normaliser_expr(e):
    """x - logsumexp(x ...)[...] or a call of a known normaliser."""
    if isinstance(e, ast.Call):
        nm = call_name(e) or ''
        if nm in NORMALISERS or nm.split('.')[-1] in ('log_softmax', 'normalize_logits', 'get_full_logprobs'):
            return True
    if isinstance(e, ast.BinOp) and isinstance(e.op, ast.Sub):
        red = [c for c in ast.walk(e.right) if isinstance(c, ast.Call) and (call_name(c) or '') in REDUCERS]
        if red:
            # the thing normalised is the thing reduced
            arg = red[0].args[0] if red[0].args else None
            return arg is not None and src(arg) == src(e.left)
    return False


def normalised(repo, fi, expr, at, _depth=0):
    """True / False / None(unknown): does `expr` derive from row-normalised log-probabilities?"""
    srcs = deep_sources(repo, fi, expr, at)
    for f, e in srcs:
        for sub in ast.walk(e):
            if is_normaliser_expr(sub):
                return True
    # through a parameter: all callers must pass a normalised value
    params = set(fi.params)
    used = {n.id for f, e in srcs if f is fi for n in ast.walk(e) if isinstance(n, ast.Name) and n.id in params and n.id != 'self'}
    if used and _depth < 2:
        verdicts = []
        for p in used:
            idx = fi.params.index(p)
            for q, caller in repo.funcs.items():
                for c in calls_in(caller.node):
                    nm = call_name(c) or ''
                    if nm.split('.')[-1] != fi.name or caller is fi:
                        continue
                    off = 1 if (fi.cls and fi.params and fi.params[0] == 'self' and '.' in nm) else 0
                    arg = None
                    if len(c.args) > idx - off >= 0:
                        arg = c.args[idx - off]
                    for k in c.keywords:
                        if k.arg == p:
                            arg = k.value
                    if arg is None:
                        continue
                    verdicts.append(normalised(repo, caller, arg, c, _depth + 1))
        if verdicts and all(v is True for v in verdicts):
            return True
        if any(v is False for v in verdicts):
            return False
    return False if not used else None


def run(repo, chk):
    chk.explanation = ('PROV: every exp() that produces a reported confidence is applied to values deriving from a row normaliser '
                       '(log_softmax, x - logsumexp(x), get_full_logprobs), followed through helper functions and call sites; '
                       'clip at 0; threshold used in a single order comparison (MONO); the estimators equal their reference forms.')
    chk.note_undecided('value 1 for one-hot rows', 'numerical round-off of exp / logsumexp')
    R = Rules(repo, chk)
    refcheck.run_all(R, repo, chk, 'RECUR', 'conf_ref.py', WHAT)
    refcheck.run_all(R, repo, chk, 'RECUR', 'logits_ref.py', {'log_softmax': 'the row normaliser every confidence goes through: x - logaddexp.reduce(x, axis=1)'}, only=('log_softmax', 'get_dense_logits', 'get_full_logprobs'))
    refcheck.run_all(R, repo, chk, 'RECUR', 'fa_ref.py', {}, only=('align_text',))
    R.run('PROV', prov, repo, Soft(chk))
    R.run('FACTS', facts, repo, Soft(chk))
    R.run('MONO', mono, repo, chk)
    chk.expect('PROV', 5)
    chk.expect('FACTS', 3)
    chk.expect('MONO', 2)
    chk.expect('RECUR', 18)


SINKS = [CE + ':get_line_confidence', CE + ':get_line_confidence_transformer', CE + ':get_letter_confidence',
         PP + ':PageParser.compute_line_confidence', PP + ':line_confident_enough']


def prov(repo, chk):
    for q in SINKS:
        fi = repo.func(q)
        exps = [c for c in ast.walk(fi.node) if isinstance(c, ast.Call) and (call_name(c) or '') in ('np.exp', 'math.exp', 'numpy.exp', 'torch.exp')]
        if q.endswith('get_letter_confidence'):
            # log-domain sink: returned values derive from normalize_logits
            rets = [s for s in walk_shallow(fi.node) if isinstance(s, ast.Return)]
            v = normalised(repo, fi, rets[-1].value, rets[-1])
            chk.ob('PROV', fi, rets[-1], 'returned log-confidences derive from row-normalised log-probabilities', v is True, construct='log sink')
            continue
        need(exps, q + ': no exp() found (probability sink expected)')
        for c in exps:
            v = normalised(repo, fi, c.args[0], c)
            chk.ob('PROV', fi, c, 'exp() is applied to row-normalised log-probabilities', v is True,
                   'the argument %s does not provably derive from a normaliser; a confidence computed from raw logits is not a probability' % src(c.args[0]),
                   construct='exp ' + ' '.join(src(c).split()))
        # what is returned derives from the exp
        rets = [s for s in walk_shallow(fi.node) if isinstance(s, ast.Return) and s.value is not None]
        for r in rets:
            if isinstance(r.value, ast.Call) and (call_name(r.value) or '').endswith('get_line_confidence_transformer'):
                continue
            srcs = deep_sources(repo, fi, r.value, r)
            ok = any(x in exps for f, e in srcs for x in ast.walk(e)) or any(isinstance(x, ast.Call) and (call_name(x) or '') in ('np.exp', 'math.exp') for f, e in srcs for x in ast.walk(e))
            # arrays filled element-wise (confidences[i] = ...)
            if not ok and isinstance(r.value, ast.Name):
                for s in walk_shallow(fi.node):
                    if isinstance(s, ast.Assign) and isinstance(s.targets[0], ast.Subscript) and isinstance(s.targets[0].value, ast.Name) and s.targets[0].value.id == r.value.id:
                        ss = deep_sources(repo, fi, s.value, s)
                        ok = ok or any(x in exps for f, e in ss for x in ast.walk(e))
            chk.ob('PROV', fi, r, 'the reported value derives from those probabilities', ok, construct='return ' + ' '.join(src(r).split())[:80])
    # bag posteriors: normalised by the logsumexp of exactly the list normalised
    post = repo.func(B + ':BagOfHypotheses.posteriors')
    lse = [c for c in ast.walk(post.node) if isinstance(c, ast.Call) and (call_name(c) or '').endswith('logsumexp')]
    need(lse, 'posteriors: no logsumexp')
    comp = [n for n in ast.walk(post.node) if isinstance(n, ast.ListComp)]
    ok = bool(comp) and src(comp[0].generators[0].iter) == src(lse[0].args[0]) and isinstance(comp[0].elt, ast.BinOp) and isinstance(comp[0].elt.op, ast.Sub)
    if ok:
        ok = 'total_scores' in src(post.flow.resolve(lse[0].args[0], lse[0]))
    chk.ob('PROV', post, lse[0], 'posteriors = totals minus the logsumexp of the same totals (they sum to 1)', ok, construct='posterior normaliser')


def facts(repo, chk):
    fi = repo.func(CE + ':get_line_confidence')
    st = [s for s in walk_shallow(fi.node) if isinstance(s, ast.Assign) and isinstance(s.targets[0], ast.Subscript) and
          isinstance(s.value, ast.Call) and dotted(s.value.func) in ('max', 'np.maximum')]
    need(st, 'get_line_confidence: no clipped store found')
    for s in st:
        ok = any(is_const(a, 0) or is_const(a, 0.0) for a in s.value.args)
        chk.ob('FACTS', fi, s, 'per-character confidence is clipped below at 0', ok, construct='clip at 0')
        diff = [a for a in s.value.args if isinstance(a, ast.BinOp) and isinstance(a.op, ast.Sub)]
        chk.ob('FACTS', fi, s, 'confidence = label probability minus competing probability (<= 1)', bool(diff), construct='difference of probabilities')
    # masked competitor excludes the blank column and the label itself
    t = ' '.join(src(fi.node).split())
    chk.ob('FACTS', fi, fi.node, 'competitors exclude the label column and the blank column', 'masked_probs[:, label] = 0' in t and 'masked_probs[:, :-1].max()' in t,
           construct='competitor mask')
    conf = repo.func(B + ':BagOfHypotheses.confidence')
    chk.ob('FACTS', conf, conf.node, 'bag confidence is exp of the maximum posterior', 'math.exp(max(' in ' '.join(src(conf.node).split()) or 'exp(max(' in src(conf.node),
           construct='confidence = exp(max)')


def mono(repo, chk):
    fi = repo.func(PP + ':line_confident_enough')
    thr = fi.params[1]
    uses = [n for n in ast.walk(fi.node) if isinstance(n, ast.Name) and n.id == thr and isinstance(n.ctx, ast.Load)]
    cmps = [c for c in ast.walk(fi.node) if isinstance(c, ast.Compare) and any(isinstance(x, ast.Name) and x.id == thr for x in ast.walk(c))]
    ok = len(uses) == 1 and len(cmps) == 1 and len(cmps[0].ops) == 1 and isinstance(cmps[0].ops[0], (ast.Gt, ast.GtE, ast.Lt, ast.LtE))
    chk.ob('MONO', fi, cmps[0] if cmps else fi.node, 'the threshold occurs exactly once, as one side of an order comparison', ok,
           '%d use(s) of the threshold, %d comparison(s)' % (len(uses), len(cmps)), construct='threshold used once')
    if cmps:
        c = cmps[0]
        other = c.comparators[0] if any(isinstance(x, ast.Name) and x.id == thr for x in ast.walk(c.left)) else c.left
        dep = any(isinstance(x, ast.Name) and x.id == thr for f, e in deep_sources(repo, fi, other, c) for x in ast.walk(e))
        chk.ob('MONO', fi, c, 'the compared value does not depend on the threshold', not dep, construct='other side independent')
        bare = (isinstance(c.left, ast.Name) and c.left.id == thr) or (isinstance(c.comparators[0], ast.Name) and c.comparators[0].id == thr)
        chk.ob('MONO', fi, c, 'the threshold enters the comparison unmodified', bare, construct='bare threshold')
