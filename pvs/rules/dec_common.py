"""Shared analyses of pero_ocr/decoding/decoders.py for C02 / C03."""
import ast
import os

from ..core import AnalysisError, call_name, dotted, is_const, src, walk_shallow, norm_stmt, canon
from ..lib import calls_in, method_calls, need, find_loops, mentions_attr
from ..template import compare, template_func, classify, statement_diff, effects as _effects

D = 'pero_ocr.decoding.decoders'
DEC = D + ':CTCPrefixLogRawNumpyDecoder'
REF = os.path.join(os.path.dirname(os.path.dirname(__file__)), 'refs', 'decoders_ref.py')


def ref_source():
    with open(REF) as f:
        return f.read()


BENIGN_CALLS = ('logger.', 'logging.', 'print', 'warnings.warn', 'sys.stderr.write', 'sys.stdout.write')


def benign_extra(e):
    """An extra effect that cannot change results: logging / printing."""
    if e.kind == 'call' and isinstance(e.value, ast.Call):
        nm = call_name(e.value) or ''
        return nm == 'print' or any(nm.startswith(b) for b in BENIGN_CALLS)
    return False


def template_check(repo, chk, rule, qual, name, what, ref=None, keep=()):
    """The function has exactly the effects of its reference form (modulo renaming, inlining of locals,
    commutativity / associativity, distribution over the semiring); logging-only extras are ignored."""
    fi = repo.func(qual)
    chk.templated.add(fi.qual)
    tail = fi.qual.split(':')[-1]
    nested = tail.count('.') >= (2 if fi.cls else 1)
    ok, missing, extra = compare(fi, template_func(ref or ref_source(), name, closure=nested), keep=keep)
    extra = [e for e in extra if not benign_extra(e)]
    missing = [e for e in missing if not benign_extra(e)]      # a log line that went away (or moved) changes no result
    ok = not missing and not extra
    if ok:
        chk.equiv.add(fi.qual)
        chk.ob(rule, fi, fi.node, what, True, construct='template ' + name)
        return True
    tmpl = template_func(ref or ref_source(), name, closure=nested)
    ch, n_st = statement_diff(fi, tmpl)
    detail = '%d of %d statements differ from the reviewed form | expected: ' % (ch, n_st) + ' || '.join(e.show() for e in missing)[:700] + \
        '  ## found instead: ' + ' || '.join(e.show() for e in extra)[:700]
    node = extra[0].node if extra else fi.node
    o = chk.ob(rule, fi, node, what, False, detail, construct='template ' + name)
    if o is not None:
        o.stmtdiff = (ch, n_st)
    return False


def guard_normalised(repo, chk, rule, qual):
    """Every use of the logits parameter is behind `if deviation(logits) > tol: raise`."""
    fi = repo.func(qual)
    cfg = fi.cfg
    param = [p for p in fi.params if p != 'self'][0]
    guard = None
    for n in cfg.nodes:
        if n.kind == 'test' and isinstance(n.ast, ast.Compare) and len(n.ast.ops) == 1:
            c = n.ast
            left_dev = any(call_name(x) == 'logprobs_max_deviation' and x.args and isinstance(x.args[0], ast.Name)
                           and x.args[0].id == param for x in ast.walk(c.left) if isinstance(x, ast.Call))
            right_dev = any(call_name(x) == 'logprobs_max_deviation' and x.args and isinstance(x.args[0], ast.Name)
                            and x.args[0].id == param for x in ast.walk(c.comparators[0]) if isinstance(x, ast.Call))
            if not (left_dev or right_dev):
                # deviation computed into a local first
                for side, flag in ((c.left, 'l'), (c.comparators[0], 'r')):
                    if isinstance(side, ast.Name):
                        d = fi.flow.unique_def(side.id, side)
                        if d is not None and d.value is not None and any(
                                call_name(x) == 'logprobs_max_deviation' for x in ast.walk(d.value) if isinstance(x, ast.Call)):
                            left_dev = flag == 'l'
                            right_dev = flag == 'r'
            if left_dev and isinstance(c.ops[0], (ast.Gt, ast.GtE)):
                guard = (n, True)
            elif right_dev and isinstance(c.ops[0], (ast.Lt, ast.LtE)):
                guard = (n, True)
            elif left_dev and isinstance(c.ops[0], (ast.Lt, ast.LtE)):
                guard = (n, False)
            elif right_dev and isinstance(c.ops[0], (ast.Gt, ast.GtE)):
                guard = (n, False)
    if guard is None:
        chk.ob(rule, fi, fi.node, 'unnormalised input is rejected before decoding', False,
               'no test of logprobs_max_deviation(%s) against a tolerance found' % param, construct='normalisation guard')
        return
    gnode, pol = guard
    # the branch on which the deviation is too large must raise
    bad_succ = [m for m, lab in cfg.succ[gnode.id] if lab == pol]
    raises = all(cfg.nodes[m].kind == 'raise' for m in bad_succ) and bad_succ
    chk.ob(rule, fi, gnode.ast, 'deviation above tolerance raises', bool(raises), construct='guard raises')
    # uses of the parameter that can be reached without passing the guard's good edge
    good_edges = [(gnode.id, m, lab) for m, lab in cfg.succ[gnode.id] if lab == (not pol)]
    r = cfg.reach([cfg.entry], avoid_edges=good_edges, skip_exc=True)
    early = []
    for n in cfg.nodes:
        if n.id in r and n.id != gnode.id and n.ast is not None and n.kind not in ('raise',):
            exprs = [n.ast.iter] if n.kind == 'for' else [n.ast]
            for e in exprs:
                for x in ast.walk(e):
                    if isinstance(x, ast.Name) and x.id == param and isinstance(x.ctx, ast.Load):
                        # allowed: as the argument of the deviation function
                        early.append(n)
    early = [n for n in early if not all(
        call_name(c) == 'logprobs_max_deviation' for c in ast.walk(n.ast) if isinstance(c, ast.Call) and any(
            isinstance(x, ast.Name) and x.id == param for x in ast.walk(c)))]
    chk.ob(rule, fi, early[0].ast if early else gnode.ast, 'no use of the input precedes the normalisation guard', not early,
           'used before the guard at line(s) %s' % [getattr(n.stmt, 'lineno', 0) for n in early], construct='guard dominates uses')
    # tolerance comes from the parameter (default 1e-5), not a loosened constant
    tol = gnode.ast.comparators[0] if not isinstance(gnode.ast.comparators[0], ast.Call) else gnode.ast.left
    ok = True
    if isinstance(tol, ast.Constant):
        ok = isinstance(tol.value, (int, float)) and tol.value <= 1e-3
    elif isinstance(tol, ast.Name):
        a = fi.node.args
        names = [x.arg for x in a.args]
        if tol.id in names:
            i = names.index(tol.id) - (len(names) - len(a.defaults))
            if i >= 0 and isinstance(a.defaults[i], ast.Constant):
                ok = a.defaults[i].value <= 1e-3
    chk.ob(rule, fi, gnode.ast, 'tolerance is a small constant / parameter default (<= 1e-3)', ok, construct='tolerance')


class CallModel:
    """Roles of the variables in CTCPrefixLogRawNumpyDecoder.__call__."""

    def __init__(self, repo):
        self.fi = fi = repo.func(DEC + '.__call__')
        flow = fi.flow
        loops = [l for l in find_loops(fi.node) if any(isinstance(x, ast.Name) and x.id == fi.params[1] for x in ast.walk(l.iter))]
        need(loops, 'frame loop over the logits parameter not found in __call__')
        self.loop = loops[0]
        self.loop_nid = fi.cfg.node_of(self.loop)
        # selection variable: result of top_k(...)
        tk = [c for c in ast.walk(self.loop) if isinstance(c, ast.Call) and (call_name(c) or '').split('.')[-1] == 'top_k']
        need(len(tk) == 1, 'expected one top_k call in the frame loop, found %d' % len(tk))
        self.topk = tk[0]
        self.topk_nid = fi.cfg.node_of(self.topk)
        st = fi.cfg.nodes[self.topk_nid].ast
        need(isinstance(st, ast.Assign) and isinstance(st.targets[0], ast.Name), 'top_k result is not bound to a name')
        self.sel = st.targets[0].id
        # loop-carried variables: defined before the loop and (re)defined inside it
        body_nodes = self._body_nodes()
        inside = {}
        for nid in body_nodes:
            for d in flow.defs_at.get(nid, []):
                inside.setdefault(d.name, []).append(d)
        before = flow.rd_in[self.loop_nid]
        self.carried = {}
        for name, ds in inside.items():
            outer = [d for d in before.get(name, ()) if d.node not in body_nodes]
            if outer:
                self.carried[name] = ds
        self.body_nodes = body_nodes
        # Pb / Pnb roles from their initial values
        self.role = {}
        for name in self.carried:
            for d in before.get(name, ()):
                if d.node in body_nodes or d.value is None or d.kind != 'assign':
                    continue
                t = ' '.join(src(d.value).split())
                if 'LOG_ZERO' in t or 'inf' in t:
                    self.role.setdefault('Pnb', name)
                elif t in ('np.asarray([0.0])', 'np.array([0.0])', 'np.zeros(1)', 'np.zeros((1,))') :
                    if any(isinstance(g[0], ast.AST) and mentions_attr(g[0], '_lm') for g in []):
                        pass
                    self.role.setdefault('zero:' + name, name)
        # distinguish Pb from Plm among zero-initialised: Plm's initial def is under `if self._lm`
        zeros = [v for k, v in self.role.items() if k.startswith('zero:')]
        for name in zeros:
            uses_lm = any(d.value is not None and any(call_name(c) and 'compute_Plm' in call_name(c) for c in ast.walk(d.value) if isinstance(c, ast.Call))
                          or (d.value is not None and any(isinstance(x, ast.Name) and 'lm' in x.id.lower() for x in ast.walk(d.value)))
                          for d in self.carried[name] if d.kind == 'assign')
            self.role['Plm' if uses_lm else 'Pb'] = name
        for k in list(self.role):
            if k.startswith('zero:'):
                del self.role[k]

    def _body_nodes(self):
        cfg = self.fi.cfg
        ids = set()
        for s in ast.walk(self.loop):
            if s is self.loop:
                continue
            nid = cfg.owner_map().get(id(s))
            if nid is not None and nid != self.loop_nid:
                ids.add(nid)
        return ids

    def after_selection(self, nid):
        cfg = self.fi.cfg
        return nid in cfg.reach([self.topk_nid], avoid_nodes=[self.loop_nid]) and nid != self.topk_nid


def loopstate(repo, chk, rule, want_lm):
    """Loop-carried beam state is re-derived from the selection on every non-shortcut iteration."""
    m = CallModel(repo)
    fi = m.fi
    flow = fi.flow
    cfg = fi.cfg
    lm_like = {'Plm', 'h_prev', 'lm_preds'}
    n_checked = 0
    for name, ds in sorted(m.carried.items()):
        is_lm = (m.role.get('Plm') == name) or any(
            d.value is not None and any(isinstance(x, ast.Attribute) and x.attr == '_lm' for x in ast.walk(d.value)) for d in ds) \
            or name in lm_like
        if name in ('t',) or is_lm != want_lm:
            continue
        # definitions reaching the loop head from inside the loop (i.e. carried to the next frame)
        carried_defs = [d for d in flow.rd_in[m.loop_nid].get(name, ()) if d.node in m.body_nodes]
        for d in carried_defs:
            if not m.after_selection(d.node):
                # shortcut path (all symbols pruned): allowed when the iteration ends without selecting
                r = cfg.reach([d.node], avoid_nodes=[m.loop_nid])
                ok = m.topk_nid not in r
                chk.ob(rule, fi, d.stmt, "'%s' updated on the all-pruned shortcut, which never reaches the selection" % name, ok,
                       construct='shortcut ' + name)
                n_checked += 1
                continue
            v = d.value.value if d.kind == 'aug' else d.value
            srcs = flow.sources(v, d.stmt) if v is not None else []
            derives = any(isinstance(x, ast.Name) and x.id == m.sel for e in srcs for x in ast.walk(e)) or \
                any(x is m.topk for e in srcs for x in ast.walk(e))
            chk.ob(rule, fi, d.stmt, "per-beam state '%s' is re-derived from the selection '%s'" % (name, m.sel), derives,
                   'a beam-indexed array that is not permuted by the selection goes out of step with the prefixes',
                   construct='carried ' + name)
            n_checked += 1
        # a carried variable must not skip the update on the selecting path: every path topk -> loop head defines it
        if carried_defs and any(m.after_selection(d.node) for d in carried_defs):
            def_nodes = [d.node for d in carried_defs if m.after_selection(d.node)]
            r = cfg.reach([m.topk_nid], avoid_nodes=def_nodes, skip_exc=True)
            guards_lm = True
            if m.loop_nid in r:
                # allowed only when the skipping path is the `not self._lm` branch
                p = cfg.path(m.topk_nid, m.loop_nid, avoid_nodes=def_nodes, skip_exc=True)
                tests = [cfg.nodes[x].ast for x in p if cfg.nodes[x].kind == 'test']
                guards_lm = any(mentions_attr(t, '_lm') for t in tests)
            chk.ob(rule, fi, carried_defs[0].stmt, "'%s' is updated on every selecting iteration" % name, guards_lm,
                   construct='always updated ' + name)
            n_checked += 1
    return n_checked
