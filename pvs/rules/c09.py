"""C09 - saved logits restore exactly; dense reconstruction is uniform (structural clauses)."""
import ast

from ..core import call_name, dotted, src, walk_shallow, is_const, const_value
from ..lib import Soft, Rules, need, attr_stores, const_str
from . import refcheck

L = 'pero_ocr.core.layout'
WHAT = {
    'log_softmax': 'x - logaddexp.reduce(x, axis=1)[:, newaxis] (row normalisation over the class axis)',
    'get_dense_logits': 'toarray(), stored zeros replaced by the floor value',
    'get_full_logprobs': 'row-normalised dense logits',
    '_gen_logits': 'per line: (id -> logits), line_characters (id -> characters), logit_coords (id -> coords); a missing component raises',
    'load_logits': 'bytes or file; legacy files without characters / coords; lines absent from the file are skipped',
    'save_logits': 'pickle of the generated dict', 'save_logits_bytes': 'pickle bytes of the generated dict',
    'itf_prepare_dense_logits': 'dense, zeros -> floor, log_softmax over the class axis',
    'pp_prepare_dense_logits': 'missing logits raise MissingLogits; otherwise the line\'s normalised dense logits',
}


def run(repo, chk):
    chk.explanation = ('TABLE: the three per-line components are stored and restored under the same keys into the same TextLine fields; '
                       'GUARD: absent lines are skipped before any store, missing components raise; SIBLING: all densifiers use one '
                       'sentinel (0, the sparsifier\'s), one floor (-80) and the class axis.')
    chk.note_undecided('bit-identical matrices (pickle / scipy)', 're-decoding equality (float behaviour)')
    R = Rules(repo, chk)
    refcheck.run_all(R, repo, chk, 'RECUR', 'logits_ref.py', WHAT)
    R.run('TABLE', table, repo, Soft(chk), soft_for=[L + ':PageLayout.load_logits', L + ':PageLayout._gen_logits'])
    R.run('GUARD', guard, repo, Soft(chk), soft_for=[L + ':PageLayout.load_logits', L + ':PageLayout._gen_logits'])
    R.run('SIBLING', sibling, repo, Soft(chk))
    chk.expect('TABLE', 6)
    chk.expect('GUARD', 4)
    chk.expect('SIBLING', 6)
    chk.expect('RECUR', 9)


def table(repo, chk):
    gen = repo.func(L + ':PageLayout._gen_logits')
    load = repo.func(L + ':PageLayout.load_logits')
    # writer: accumulator lists of (line.id, line.FIELD) -> stored under KEY (or at top level)
    acc = {}
    for s in walk_shallow(gen.node):
        if isinstance(s, ast.AugAssign) and isinstance(s.target, ast.Name) and isinstance(s.value, ast.ListComp) and isinstance(s.value.elt, ast.Tuple):
            k, v = s.value.elt.elts
            if isinstance(k, ast.Attribute) and isinstance(v, ast.Attribute):
                acc[s.target.id] = (k.attr, v.attr, s)
        if isinstance(s, ast.Expr) and isinstance(s.value, ast.Call) and isinstance(s.value.func, ast.Attribute) and s.value.func.attr == 'append' \
                and isinstance(s.value.args[0], ast.Tuple) and isinstance(s.value.func.value, ast.Name):
            k, v = s.value.args[0].elts
            if isinstance(k, ast.Attribute) and isinstance(v, ast.Attribute):
                acc[s.value.func.value.id] = (k.attr, v.attr, s)
    need(len(acc) == 3, '_gen_logits: expected three (id, component) accumulators, found %s' % sorted(acc))
    written = {}     # key ('' = top level) -> field
    for s in walk_shallow(gen.node):
        if isinstance(s, ast.Assign) and isinstance(s.value, ast.Call) and dotted(s.value.func) == 'dict' and s.value.args and isinstance(s.value.args[0], ast.Name) \
                and s.value.args[0].id in acc:
            t = s.targets[0]
            key = '' if isinstance(t, ast.Name) else const_str(t.slice) if isinstance(t, ast.Subscript) else None
            written[key] = acc[s.value.args[0].id]
    for key, (kf, vf, node) in sorted(written.items()):
        chk.ob('TABLE', gen, node, 'component %r is keyed by the line id' % (key or '<top level>'), kf == 'id', 'keyed by line.%s' % kf,
               construct='writer key ' + (key or 'top'))
    need(set(written) == {'', 'line_characters', 'logit_coords'}, '_gen_logits: components stored under %s' % sorted(map(str, written)))
    # reader: line.FIELD = X[line.id] where X is logits_dict / logits_dict[KEY]
    srcmap = {}
    for s in walk_shallow(load.node):
        if isinstance(s, ast.Assign) and isinstance(s.targets[0], ast.Name) and isinstance(s.value, ast.Subscript) and const_str(s.value.slice):
            srcmap[s.targets[0].id] = const_str(s.value.slice)
    dict_name = None
    for s in walk_shallow(load.node):
        if isinstance(s, ast.Assign) and isinstance(s.targets[0], ast.Name) and isinstance(s.value, ast.Call) and (call_name(s.value) or '').startswith('pickle.load'):
            dict_name = s.targets[0].id
    need(dict_name, 'load_logits: unpickled dict not found')
    read = {}
    for s, t, v in attr_stores(load.node):
        if isinstance(v, ast.Subscript) and isinstance(v.value, ast.Name) and isinstance(v.slice, ast.Attribute):
            key = '' if v.value.id == dict_name else srcmap.get(v.value.id)
            read[key] = (v.slice.attr, t.attr, s)
    for key in ('', 'line_characters', 'logit_coords'):
        w = written.get(key)
        r = read.get(key)
        ok = w is not None and r is not None and w[1] == r[1] and r[0] == 'id'
        chk.ob('TABLE', load, r[2] if r else load.node, 'component %r: written from line.%s, restored into line.%s by line id' % (key or '<top level>', w[1] if w else None, r[1] if r else None),
               ok, construct='pairing ' + (key or 'top'))


def guard(repo, chk):
    load = repo.func(L + ':PageLayout.load_logits')
    cfg = load.cfg
    stores = [s for s, t, v in attr_stores(load.node) if t.attr in ('logits', 'characters', 'logit_coords')]
    need(len(stores) == 3, 'load_logits: expected 3 field stores')
    tests = [n for n in cfg.nodes if n.kind == 'test' and isinstance(n.ast, ast.Compare) and isinstance(n.ast.ops[0], ast.NotIn) and 'id' in src(n.ast.left)]
    need(tests, 'load_logits: no `line.id not in dict` test')
    t = tests[0]
    skip_edges = [(t.id, m, lab) for m, lab in cfg.succ[t.id] if lab is False]
    r = cfg.reach([cfg.entry], avoid_edges=skip_edges, skip_exc=True)
    ok = all(cfg.node_of(s) not in r for s in stores) and all(cfg.nodes[m].kind == 'continue' for m, lab in cfg.succ[t.id] if lab is True)
    chk.ob('GUARD', load, t.ast, 'a line absent from the file is skipped before any of its fields is touched', ok, construct='absent line untouched')
    gen = repo.func(L + ':PageLayout._gen_logits')
    for comp in ('logits', 'characters', 'logit_coords'):
        found = False
        for n in walk_shallow(gen.node):
            if isinstance(n, ast.If) and isinstance(n.test, ast.Compare) and isinstance(n.test.ops[0], ast.Is) and isinstance(n.test.left, ast.Attribute) \
                    and n.test.left.attr == comp and any(isinstance(x, ast.Raise) for x in n.body):
                found = True
        chk.ob('GUARD', gen, gen.node, 'a line whose %s is None is reported (raise) instead of being saved silently' % comp, found, construct='missing ' + comp)


def _floor_and_sentinel(fi):
    """(floor value source, sentinel compared) of `x[x == S] = F`."""
    for s in walk_shallow(fi.node):
        if isinstance(s, ast.Assign) and isinstance(s.targets[0], ast.Subscript) and isinstance(s.targets[0].slice, ast.Compare):
            c = s.targets[0].slice
            return s, s.value, c
    return None, None, None


def _resolve_const(repo, fi, e):
    if isinstance(e, ast.Name):
        # parameter default or module constant
        a = fi.node.args
        names = [x.arg for x in a.args]
        if e.id in names:
            i = names.index(e.id) - (len(names) - len(a.defaults))
            if i >= 0:
                return const_value(a.defaults[i])
        for s in fi.module.tree.body:
            if isinstance(s, ast.Assign) and isinstance(s.targets[0], ast.Name) and s.targets[0].id == e.id:
                return const_value(s.value)
        return None
    try:
        return const_value(e)
    except ValueError:
        return None


def sibling(repo, chk):
    dens = [repo.func(L + ':TextLine.get_dense_logits'), repo.func('pero_ocr.decoding.decoding_itf:prepare_dense_logits')]
    for fi in dens:
        s, val, cmp_ = _floor_and_sentinel(fi)
        need(s is not None, fi.qual + ': no `x[x == 0] = floor` statement')
        floor = _resolve_const(repo, fi, val)
        sent_ok = isinstance(cmp_.ops[0], ast.Eq) and is_const(cmp_.comparators[0], 0)
        chk.ob('SIBLING', fi, s, 'pruned entries are recognised by the sparsifier\'s sentinel (== 0)', sent_ok, construct='sentinel')
        chk.ob('SIBLING', fi, s, 'pruned entries get the floor value -80', floor is not None and float(floor) == -80.0, 'floor %s' % floor, construct='floor')
    # the sparsifier writes 0 for posteriors < 1e-4
    eng = repo.func('pero_ocr.ocr_engine.line_ocr_engine:BaseEngineLineOCR.process_lines')
    sp = [s for s in walk_shallow(eng.node) if isinstance(s, ast.Assign) and isinstance(s.targets[0], ast.Subscript) and isinstance(s.targets[0].slice, ast.Compare)
          and isinstance(s.value, ast.Constant)]
    need(sp, 'process_lines: sparsifying store not found')
    c = sp[0].targets[0].slice
    ok = is_const(sp[0].value, 0) and isinstance(c.ops[0], ast.Lt) and abs(float(const_value(c.comparators[0])) - 1e-4) < 1e-12
    chk.ob('SIBLING', eng, sp[0], 'sparse storage prunes exactly the entries whose posterior is < 1e-4 and writes the sentinel 0', ok, construct='sparsifier')
    post = eng.flow.inline(c.left, sp[0])
    ok = isinstance(post, ast.Call) and (call_name(post) or '').endswith('softmax') and any(k.arg == 'axis' and is_const(k.value, 1) for k in post.keywords) \
        and post.args and src(post.args[0]) == src(sp[0].targets[0].value)
    chk.ob('SIBLING', eng, sp[0], 'the posterior is the softmax over the class axis of the same logits', ok,
           construct='sparsifier posterior')
    # normalisation axis
    ls = repo.func(L + ':log_softmax')
    ok = any(isinstance(c, ast.Call) and (call_name(c) or '') == 'np.logaddexp.reduce' and any(k.arg == 'axis' and is_const(k.value, 1) for k in c.keywords) for c in ast.walk(ls.node))
    chk.ob('SIBLING', ls, ls.node, 'layout.log_softmax normalises over axis 1 (classes)', ok, construct='log_softmax axis')
    itf = repo.func('pero_ocr.decoding.decoding_itf:prepare_dense_logits')
    ok = any(isinstance(c, ast.Call) and (call_name(c) or '').endswith('log_softmax') and any(k.arg == 'dim' and is_const(k.value, -1, 1) for k in c.keywords) for c in ast.walk(itf.node))
    chk.ob('SIBLING', itf, itf.node, 'decoding_itf normalises over the class axis (dim=-1)', ok, construct='itf axis')
    full = repo.func(L + ':TextLine.get_full_logprobs')
    t = ' '.join(src(full.node).split())
    chk.ob('SIBLING', full, full.node, 'get_full_logprobs = log_softmax(get_dense_logits(floor))', 'log_softmax(' in t and 'get_dense_logits(' in t, construct='full logprobs')
