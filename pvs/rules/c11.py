"""C11 - lines are assigned to the regions they lie in, clipped, with unique ids (structural clauses)."""
import ast

from ..core import AnalysisError, call_name, dotted, src, walk_shallow, is_const, parents_map
from ..lib import Rules, Soft, need, find_loops, guards_of, is_none_test
from . import refcheck

H = 'pero_ocr.layout_engines.layout_helpers'
PP = 'pero_ocr.document_ocr.page_parser'
WHAT = {
    'assign_lines_to_regions': 'bounding-box pre-filter, clip by the region, place only when both intersections exist, id = region id + line index',
    'mask_textline_by_region': 'no intersection -> nothing; invalid shapes repaired by convex hull; multi-part intersections keep the largest piece; baseline piece must be a LineString longer than 2',
    'le_process_page': 'regions / lines cleared when re-detected; per orientation fresh regions; merge and straight-line passes clear a region\'s lines before re-assigning',
    'tes_process_page': 'simple extractor numbers lines per region',
}


def run(repo, chk):
    chk.explanation = ('ATOMS: every comparison of the bounding-box pre-filter is a separating-axis atom (max_A[ax] <= min_B[ax] or min_A[ax] >= max_B[ax]) and the '
                       'reject formula is a monotone combination negated once, so it can only reject disjoint boxes; PROV/GUARD: placed geometry is the intersection and '
                       'is placed only when both pieces exist; TYPESTATE: a region list handed to assign_lines_to_regions is fresh or cleared on every path, loops to fixpoint.')
    chk.note_undecided('"wholly inside => placed unchanged" (shapely numerics)')
    R = Rules(repo, chk)
    refcheck.run_all(R, repo, chk, 'RECUR', 'assign_ref.py', WHAT)
    refcheck.run_all(R, repo, chk, 'RECUR', 'geom_ref.py', {}, only=('resample_baselines', 'get_rotation', 'rotate_coords', 'retrace_region', 'le_ext_init'))
    refcheck.run_all(R, repo, chk, 'RECUR', 'layoutdec_ref.py', {'baseline_to_textline': 'the outline handed to the assigner is built around the baseline'}, only=('baseline_to_textline',))
    refcheck.run_all(R, repo, chk, 'RECUR', 'page_ref.py', {'rl_init': 'a new region starts without lines', 'tl_init': 'a new line keeps the id it was given'}, only=('rl_init', 'tl_init', 'lines_iterator'))
    R.run('ATOMS', atoms, repo, chk)
    R.run('PROV', prov, repo, Soft(chk), soft_for=[H + ':assign_lines_to_regions'])
    R.run('TYPESTATE', typestate, repo, chk)
    chk.expect('RECUR', 15)
    chk.expect('ATOMS', 5)
    chk.expect('PROV', 4)
    chk.expect('TYPESTATE', 3)


def _roles(fi):
    """array name -> ('min'|'max', entity) from the row-fill idiom."""
    roles = {}
    for l in find_loops(fi.node):
        if not (isinstance(l.iter, ast.Call) and dotted(l.iter.func) == 'zip' and isinstance(l.target, ast.Tuple)):
            continue
        tnames = [t.id if isinstance(t, ast.Name) else None for t in l.target.elts]
        args = [src(a) for a in l.iter.args]
        ent = args[0]
        for s in l.body:
            if isinstance(s, ast.Assign) and isinstance(s.targets[0], ast.Subscript) and isinstance(s.targets[0].value, ast.Name) and s.targets[0].value.id in tnames:
                v = s.value
                kind = None
                for c in ast.walk(v):
                    if isinstance(c, ast.Call) and isinstance(c.func, ast.Attribute) and c.func.attr in ('min', 'max') and any(k.arg == 'axis' and is_const(k.value, 0) for k in c.keywords):
                        kind = c.func.attr
                # enlarging margins keep soundness only if min is lowered / max is raised
                if isinstance(v, ast.BinOp):
                    if kind == 'min' and not isinstance(v.op, ast.Sub):
                        kind = None
                    if kind == 'max' and not isinstance(v.op, ast.Add):
                        kind = None
                if kind:
                    arr = l.iter.args[tnames.index(s.targets[0].value.id)]
                    if isinstance(arr, ast.Name):
                        roles[arr.id] = (kind, ent)
    return roles


def _atom(c, roles):
    """-> (ok, description) for one comparison of the pre-filter."""
    if not (isinstance(c, ast.Compare) and len(c.ops) == 1):
        return False, 'not a simple comparison'

    def side(e):
        if isinstance(e, ast.Subscript) and isinstance(e.value, ast.Name) and e.value.id in roles and isinstance(e.slice, ast.Tuple):
            ax = [x.value for x in e.slice.elts if isinstance(x, ast.Constant) and isinstance(x.value, int)]
            bpos = [i for i, x in enumerate(e.slice.elts) if src(x) in ('np.newaxis', 'None')]
            return roles[e.value.id] + (ax[-1] if ax else None, bpos[0] if bpos else None)
        return None
    a, b = side(c.left), side(c.comparators[0])
    if a is None or b is None:
        return False, 'operands are not min/max arrays of the two entity sets'
    (ka, ea, xa, pa), (kb, eb, xb, pb) = a, b
    if pa is None or pb is None or pa == pb:
        return False, 'the two sides are not broadcast against each other (one element of each set per cell)'
    ea, eb = '%s@%d' % (ea, pa), '%s@%d' % (eb, pb)
    if xa != xb or xa is None:
        return False, 'axes differ (%s vs %s)' % (xa, xb)
    op = c.ops[0]
    if isinstance(op, (ast.LtE, ast.Lt)) and ka == 'max' and kb == 'min':
        return True, 'max_%s[%d] <= min_%s[%d]' % (ea, xa, eb, xb)
    if isinstance(op, (ast.GtE, ast.Gt)) and ka == 'min' and kb == 'max':
        return True, 'min_%s[%d] >= max_%s[%d]' % (ea, xa, eb, xb)
    return False, '%s_%s %s %s_%s does not imply the boxes are disjoint' % (ka, ea, type(op).__name__, kb, eb)


def _check_filter(fi, chk, tag):
    roles = _roles(fi)
    need(len(roles) >= 2, '%s: min/max arrays of the row-fill idiom not found' % fi.name)
    # the candidate formula: last assignment to `candidates` before its use must be logical_not(F) with F monotone over atoms
    # the variable whose nonzero() entries are iterated is the candidate matrix; its definitions, with temporaries inlined
    nz = [c for c in ast.walk(fi.node) if isinstance(c, ast.Call) and isinstance(c.func, ast.Attribute) and c.func.attr == 'nonzero' and isinstance(c.func.value, ast.Name)]
    need(nz, '%s: candidate matrix (.nonzero()) not found' % fi.name)
    var = nz[0].func.value.id
    defs = [s for s in walk_shallow(fi.node) if isinstance(s, ast.Assign) and isinstance(s.targets[0], ast.Name) and s.targets[0].id == var]
    need(defs, '%s: pre-filter formula not found' % fi.name)
    vals = [fi.flow.inline(s.value, s, stop={var} | set(roles)) for s in defs]
    cmp_defs = [(s, v) for s, v in zip(defs, vals) if any(isinstance(c, ast.Compare) for c in ast.walk(v))]
    need(cmp_defs, '%s: pre-filter formula not found' % fi.name)
    f, fval = cmp_defs[0]
    atoms_ = [c for c in ast.walk(fval) if isinstance(c, ast.Compare)]
    for c in atoms_:
        ok, why = _atom(c, roles)
        chk.ob('ATOMS', fi, c, 'pre-filter comparison is a separating-axis atom: %s' % (why if ok else ' '.join(src(c).split())), ok,
               '' if ok else why + '; a wrong atom rejects pairs of boxes that do intersect, so lines inside a region are never placed',
               construct='%s atom %s' % (tag, ' '.join(src(c).split())))
    # monotone structure + exactly one negation
    mono = True
    for n in ast.walk(fval):
        if isinstance(n, ast.Call):
            nm = call_name(n) or ''
            if nm not in ('np.logical_and', 'np.logical_or'):
                mono = False
        elif isinstance(n, ast.UnaryOp) and isinstance(n.op, (ast.Not, ast.Invert)):
            mono = False
    negs = [v for v in vals if isinstance(v, ast.Call) and (call_name(v) or '') == 'np.logical_not' and v.args and src(v.args[0]) == var]
    inv = [v for v in vals if isinstance(v, ast.UnaryOp) and isinstance(v.op, ast.Invert) and src(v.operand) == var]
    chk.ob('ATOMS', fi, f, 'the reject formula combines atoms with and/or only and is negated exactly once', mono and len(negs) + len(inv) == 1,
           construct='%s formula shape' % tag)


def atoms(repo, chk):
    _check_filter(repo.func(H + ':assign_lines_to_regions'), chk, 'assign')
    # the same idiom in make_clusters validates the recogniser on a second instance
    _check_filter(repo.func('pero_ocr.layout_engines.cnn_layout_engine:LayoutEngine.make_clusters'), chk, 'clusters')


def prov(repo, chk):
    fi = repo.func(H + ':assign_lines_to_regions')
    pm = parents_map(fi.node)
    ctor = [c for c in ast.walk(fi.node) if isinstance(c, ast.Call) and call_name(c) == 'TextLine']
    need(len(ctor) == 1, 'expected one TextLine(...) in assign_lines_to_regions')
    kw = {k.arg: k.value for k in ctor[0].keywords}
    mask = [s for s in walk_shallow(fi.node) if isinstance(s, ast.Assign) and isinstance(s.value, ast.Call) and call_name(s.value) == 'mask_textline_by_region'
            and isinstance(s.targets[0], ast.Tuple)]
    need(mask, 'mask_textline_by_region result is not unpacked')
    b_is, t_is = [e.id for e in mask[0].targets[0].elts]
    ok = isinstance(kw.get('baseline'), ast.Name) and kw['baseline'].id == b_is and isinstance(kw.get('polygon'), ast.Name) and kw['polygon'].id == t_is
    chk.ob('PROV', fi, ctor[0], 'the placed baseline and outline are the intersections with the region (not the detected ones)', ok,
           'baseline=%s polygon=%s' % (src(kw.get('baseline')) if kw.get('baseline') is not None else None, src(kw.get('polygon')) if kw.get('polygon') is not None else None),
           construct='placed geometry')
    margs = [src(a) for a in mask[0].value.args]
    ok = len(margs) == 3 and margs[2].endswith('.polygon')
    chk.ob('PROV', fi, mask[0], 'the line is clipped by the polygon of the region it is placed in', ok, construct='clip by region polygon')
    app = [c for c in ast.walk(fi.node) if isinstance(c, ast.Call) and isinstance(c.func, ast.Attribute) and c.func.attr == 'append' and 'lines' in src(c.func.value)]
    need(app, 'no region.lines.append')
    gs = guards_of(pm, app[0])
    both = False
    for t, pol in gs:
        if pol and isinstance(t, ast.BoolOp) and isinstance(t.op, ast.And):
            nts = [is_none_test(v) for v in t.values]
            names = {src(n[1]) for n in nts if n and n[0] == 'isnot'}
            both = {b_is, t_is} <= names
    chk.ob('PROV', fi, app[0], 'a line is placed only when both the baseline piece and the outline piece exist', both, construct='both pieces required')
    ok = src(app[0].func.value).split('.')[0] == margs[2].split('.')[0]
    chk.ob('PROV', fi, app[0], 'the line is appended to the region it was clipped by', ok, construct='append to clipping region')
    idk = kw.get('id')
    ok = idk is not None and '.id' in src(idk) and 'line_id' in src(idk)
    chk.ob('PROV', fi, ctor[0], 'line id = region id + index of the detected line', ok, construct='line id scheme')


def _flag_eval(test, env):
    """Value of a test that only involves configuration flags self.<name> under `env`, else None."""
    if isinstance(test, ast.Attribute) and isinstance(test.value, ast.Name) and test.value.id == 'self' and test.attr in env:
        return env[test.attr]
    if isinstance(test, ast.UnaryOp) and isinstance(test.op, ast.Not):
        v = _flag_eval(test.operand, env)
        return None if v is None else (not v)
    if isinstance(test, ast.BoolOp):
        vals = [_flag_eval(v, env) for v in test.values]
        if isinstance(test.op, ast.And):
            if any(v is False for v in vals):
                return False
            return True if all(v is True for v in vals) else None
        if any(v is True for v in vals):
            return True
        return False if all(v is False for v in vals) else None
    return None


def typestate(repo, chk):
    """Region lists handed to assign_lines_to_regions are fresh or cleared; decided per combination of the
    configuration flags (the same flag tested twice is correlated), loops iterated to a fixpoint."""
    import itertools
    fi = repo.func(PP + ':LayoutExtractor.process_page')
    cfg = fi.cfg
    FRESH, USED, ALIAS, CLEARED, DIRTY = 'fresh', 'used', 'alias', 'cleared', 'dirty'
    order = [FRESH, CLEARED, ALIAS, USED, DIRTY]
    calls = [c for c in ast.walk(fi.node) if isinstance(c, ast.Call) and (call_name(c) or '').endswith('assign_lines_to_regions')]
    need(len(calls) >= 3, 'expected at least three assign_lines_to_regions call sites')
    pm = parents_map(fi.node)
    # tests: of conditional statements, and of conditional expressions that choose between literal lists
    tests = [n.ast for n in cfg.nodes if n.kind == 'test'] + [
        n.ast.value.test for n in cfg.nodes if n.kind == 'stmt' and isinstance(n.ast, ast.Assign) and isinstance(n.ast.value, ast.IfExp)
        and isinstance(n.ast.value.body, ast.List) and isinstance(n.ast.value.orelse, ast.List)]
    flags = sorted({x.attr for t_ in tests for x in ast.walk(t_)
                    if isinstance(x, ast.Attribute) and isinstance(x.value, ast.Name) and x.value.id == 'self' and isinstance(x.ctx, ast.Load)
                    and _flag_eval(x, {x.attr: True}) is True})
    flags = [f for f in flags if any(_flag_eval(t_, {g: True for g in flags}) is not None for t_ in tests if any(
        isinstance(x, ast.Attribute) and x.attr == f for x in ast.walk(t_)))]
    need(0 < len(flags) <= 10, 'unexpected number of configuration flags: %s' % flags)

    def clears_lines_stmt(s):
        # region.lines = [] | region.lines.clear() | del region.lines[:] | region.lines[:] = []
        if isinstance(s, ast.Assign) and isinstance(s.targets[0], ast.Attribute) and s.targets[0].attr == 'lines' and isinstance(s.value, ast.List) and not s.value.elts:
            return True
        if isinstance(s, ast.Expr) and isinstance(s.value, ast.Call) and isinstance(s.value.func, ast.Attribute) and s.value.func.attr == 'clear' \
                and isinstance(s.value.func.value, ast.Attribute) and s.value.func.value.attr == 'lines' and not s.value.args:
            return True
        full = lambda t: isinstance(t, ast.Subscript) and isinstance(t.slice, ast.Slice) and t.slice.lower is None and t.slice.upper is None \
            and isinstance(t.value, ast.Attribute) and t.value.attr == 'lines'
        if isinstance(s, ast.Delete) and len(s.targets) == 1 and full(s.targets[0]):
            return True
        if isinstance(s, ast.Assign) and full(s.targets[0]) and isinstance(s.value, ast.List) and not s.value.elts:
            return True
        return False

    def clears_lines_loop(n):
        return n.kind == 'for' and any(clears_lines_stmt(s) for s in n.ast.body) and 'regions' in src(n.ast.iter)

    def join(a, b):
        out = {}
        for k in set(a) | set(b):
            va, vb = a.get(k), b.get(k)
            if va == vb:
                out[k] = va
            elif va is None or vb is None:
                out[k] = va if vb is None else vb
            elif k.startswith(('len:', 'iter:')):
                out[k] = max(va, vb)
            else:
                out[k] = max(va, vb, key=order.index)
        return out
    found = {}      # (call key, kind) -> (call, message, [flag combos])
    for combo in itertools.product([False, True], repeat=len(flags)):
        env = dict(zip(flags, combo))
        OUT = {n.id: {} for n in cfg.nodes}     # per out-edge label
        INN = {n.id: None for n in cfg.nodes}
        start = {'O': DIRTY}
        work = []

        def push(nid, label, state):
            for m, lab in cfg.succ[nid]:
                if lab == label or label == '*':
                    old = EDGE.get((nid, m, lab))
                    if old != state:
                        EDGE[(nid, m, lab)] = state
                        if m not in work:
                            work.append(m)
        EDGE = {}
        push(cfg.entry, '*', start)
        it = 0
        while work:
            it += 1
            if it > 5000:
                raise AnalysisError('typestate fixpoint did not converge')
            nid = work.pop(0)
            st = None
            for p, lab in cfg.pred[nid]:
                e = EDGE.get((p, nid, lab))
                if e is not None:
                    st = dict(e) if st is None else join(st, e)
            if st is None:
                continue
            n = cfg.nodes[nid]
            a = n.ast
            new = dict(st)
            if n.kind == 'test':
                v = _flag_eval(a, env)
                for lab in (True, False):
                    if v is None or v == lab:
                        push(nid, lab, new)
                continue
            if n.kind == 'for':
                if clears_lines_loop(n):
                    new['O'] = CLEARED
                # single-element literal lists run the body once
                cnt = st.get('iter:%d' % nid, 0)
                ln = st.get('len:' + src(a.iter)) if isinstance(a.iter, ast.Name) else None
                if not (ln is not None and cnt >= ln):
                    body = dict(new)
                    body['iter:%d' % nid] = min(cnt + 1, 3)
                    push(nid, 'loop', body)
                done = dict(new)
                done.pop('iter:%d' % nid, None)
                push(nid, 'done', done)
                continue
            if n.kind == 'stmt' and isinstance(a, (ast.Assign, ast.Expr, ast.AugAssign, ast.Return)) and a.value is not None:
                # the call may stand in an assignment, alone in a statement (its result dropped) or in an update
                t = a.targets[0] if isinstance(a, ast.Assign) else (a.target if isinstance(a, ast.AugAssign) else None)
                tv = src(t) if t is not None else ''
                if not isinstance(a, ast.Assign):
                    pass
                elif tv.endswith('.regions') and isinstance(a.value, ast.List) and not a.value.elts:
                    new['O'] = CLEARED
                elif isinstance(t, ast.Name) and isinstance(a.value, ast.List) and not a.value.elts:
                    new[t.id] = FRESH
                elif isinstance(t, ast.Name) and isinstance(a.value, ast.List) and all(isinstance(e, ast.Constant) for e in a.value.elts):
                    new['len:' + t.id] = len(a.value.elts)
                elif isinstance(t, ast.Name) and isinstance(a.value, ast.IfExp) and _flag_eval(a.value.test, env) is not None \
                        and all(isinstance(x, ast.List) and all(isinstance(e, ast.Constant) for e in x.elts) for x in (a.value.body, a.value.orelse)):
                    # the same choice written as a conditional expression over a configuration flag
                    new['len:' + t.id] = len((a.value.body if _flag_eval(a.value.test, env) else a.value.orelse).elts)
                elif isinstance(t, ast.Name) and src(a.value).endswith('.regions'):
                    new[t.id] = ALIAS
                for c in [c for c in ast.walk(a.value) if any(c is k for k in calls)]:
                    arg = c.args[3] if len(c.args) > 3 else None
                    key = (c.lineno, c.col_offset)
                    if isinstance(arg, ast.Name):
                        s_ = st.get(arg.id)
                        bad = None
                        if s_ == ALIAS:
                            if st.get('O') != CLEARED:
                                bad = ('own regions re-used', 'the page\'s own region list is handed over again although lines were already assigned to it (state %s)' % st.get('O'))
                            new['O'] = DIRTY
                        elif s_ == USED:
                            bad = ('filled list passed again', 'the region list was already filled by an earlier assign_lines_to_regions call on this path and is passed again')
                        elif s_ is None:
                            bad = ('unknown provenance', 'region list of unknown provenance')
                        if bad:
                            found.setdefault((key, bad[0]), (c, bad[1], []))[2].append(env)
                        if isinstance(t, ast.Name):
                            new[t.id] = USED
                        new[arg.id] = ALIAS if s_ == ALIAS else USED
                    elif isinstance(arg, ast.List):
                        blk = pm.get(a)
                        ok = False
                        for field in ('body', 'orelse'):
                            body = getattr(blk, field, [])
                            if a in body:
                                i = body.index(a)
                                prev = body[i - 1] if i > 0 else None
                                ok = isinstance(prev, ast.Assign) and isinstance(prev.targets[0], ast.Attribute) and prev.targets[0].attr == 'lines' and \
                                    isinstance(prev.value, ast.List) and not prev.value.elts and arg.elts and src(prev.targets[0].value) == src(arg.elts[0])
                        if not ok:
                            found.setdefault((key, 'not cleared'), (c, 'the region\'s lines are not cleared immediately before it is re-filled', []))[2].append(env)
            push(nid, '*', new)
    for c in calls:
        key = (c.lineno, c.col_offset)
        arg_s = ' '.join(src(c.args[3]).split()) if len(c.args) > 3 else ''
        mine = [(k, v) for k, v in found.items() if k[0] == key]
        if not mine:
            chk.ob('TYPESTATE', fi, c, 'region list handed to assign_lines_to_regions is fresh or cleared on every path (%d flag combinations)' % (2 ** len(flags)), True,
                   construct='assign call #%d' % sorted(calls, key=lambda x: (x.lineno, x.col_offset)).index(c))
        for (k, kind), (cc, msg, envs) in mine:
            common = {f: envs[0][f] for f in flags if all(e[f] == envs[0][f] for e in envs)}
            chk.ob('TYPESTATE', fi, c, 'region list handed to assign_lines_to_regions is fresh or cleared on every path', False,
                   msg + ' when %s; line ids are region id + per-call line index, so a second pass over the same regions repeats ids' % common,
                   robust=kind in ('own regions re-used', 'filled list passed again'),     # a path was found, whatever the function looks like
                   construct='assign call #%d: %s when %s' % (sorted(calls, key=lambda x: (x.lineno, x.col_offset)).index(c), kind,
                                                              ', '.join('%s=%s' % (f, common[f]) for f in sorted(common))))
