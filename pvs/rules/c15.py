"""C15 - stitching parts of an over-long line never loses text (structural clauses)."""
import ast

from ..core import AnalysisError, call_name, dotted, src, walk_shallow, is_const, linear, parents_map
from ..lib import Rules, Soft, need, find_loops, guards_of
from . import refcheck

M = 'pero_ocr.ocr_engine.line_ocr_engine'
WHAT = {
    'merge_transcriptions_and_logits': 'logits shrunk to the text length; head keeps len - ceil(overlap/2), tail drops floor(overlap/2); same cut for text and logits',
    'find_best_overlap': 'overlap = suffix/prefix length with the smallest character error rate below 1, 0 if none',
}


def negative_slices(fn_node):
    """Slices x[:-e] / x[:(-e)//k] / x[-e:] whose bound is a negated *variable* (x[:-0] is x[:0])."""
    out = []
    for n in ast.walk(fn_node):
        if isinstance(n, ast.Subscript) and isinstance(n.slice, ast.Slice):
            for which, b in (('upper', n.slice.upper), ('lower', n.slice.lower)):
                if b is None:
                    continue
                e = b
                while isinstance(e, ast.BinOp) and isinstance(e.op, (ast.FloorDiv, ast.Div, ast.Mult)):
                    e = e.left
                if isinstance(e, ast.UnaryOp) and isinstance(e.op, ast.USub) and not isinstance(e.operand, ast.Constant):
                    out.append((n, which, e.operand))
    return out


def positive_guard(pm, node, var_src):
    """A syntactically enclosing test implies var > 0 (var > 0, var >= 1, var != 0, truthiness, len(..) > 0)."""
    for test, pol in guards_of(pm, node):
        t = ' '.join(src(test).split())
        if pol and (t in (var_src, var_src + ' > 0', var_src + ' >= 1', var_src + ' != 0', '0 < ' + var_src)):
            return True
        if not pol and t in (var_src + ' == 0', 'not ' + var_src, var_src + ' <= 0', var_src + ' < 1'):
            return True
    return False


def run(repo, chk):
    chk.explanation = ('NEGSLICE: no `x[:-e]` with a possibly-zero variable e without a dominating e > 0 test (x[:-0] is empty); '
                       'PAIR: text and logits are cut with identical bounds; the two functions equal their reference forms.')
    chk.note_undecided('quality of overlap detection', 'the property for parts whose logits have fewer rows than characters')
    R = Rules(repo, chk)
    refcheck.run_all(R, repo, chk, 'RECUR', 'merge_ref.py', WHAT)
    refcheck.run_all(R, repo, chk, 'RECUR', 'seqalign_ref.py', {'levenshtein_distance': 'error rate of an overlap candidate'}, only=('levenshtein_distance',))
    R.run('NEGSLICE', negslice, repo, chk)
    R.run('PAIR', pair, repo, Soft(chk), soft_for=[M + ':merge_transcriptions_and_logits'])
    refcheck.run_all(R, repo, chk, 'RECUR', 'ocr_ref.py', {'process_lines': 'window splitting with a quarter-width overlap; parts merged per line with the recorded spans'}, only=('process_lines',))
    R.run('PAIR', windows, repo, Soft(chk), soft_for=[M + ':BaseEngineLineOCR.process_lines'])
    chk.expect('NEGSLICE', 3)
    chk.expect('PAIR', 5)
    chk.expect('RECUR', 4)


def negslice(repo, chk):
    fi = repo.func(M + ':merge_transcriptions_and_logits')
    pm = parents_map(fi.node)
    found = negative_slices(fi.node)
    for n, which, var in found:
        ok = positive_guard(pm, n, src(var))
        chk.ob('NEGSLICE', fi, n, 'negative slice bound -%s is only used where %s > 0 is known' % (src(var), src(var)), ok,
               'x[:-e] with e == 0 is x[:0]: an overlap of 0 discards everything merged so far', construct='slice ' + ' '.join(src(n).split()))
    chk.ob('NEGSLICE', fi, fi.node, 'no unguarded negated-variable slice bounds in the merge (%d negated bounds found)' % len(found),
           all(positive_guard(pm, n, src(v)) for n, w, v in found), construct='merge slices')
    # the repo's own correct idiom, as the positive example that must be recognised on every run
    ah = repo.func('pero_ocr.core.arabic_helper:ArabicHelper._reverse')
    pm2 = parents_map(ah.node)
    ex = negative_slices(ah.node)
    need(len(ex) >= 2, 'positive example vanished: guarded negative slices in ArabicHelper._reverse')
    for n, which, var in ex:
        chk.ob('NEGSLICE', ah, n, 'guarded negative slice (reference idiom): -%s under %s > 0' % (src(var), src(var)),
               positive_guard(pm2, n, src(var)), construct='slice ' + ' '.join(src(n).split()))
    # embedded positive example: the recogniser must fire on the historical defect
    sample = ast.parse("def f(a, b, overlap):\n    return a[:-overlap // 2] + b[overlap // 2:]\n").body[0]
    need(len(negative_slices(sample)) == 1 and not positive_guard(parents_map(sample), negative_slices(sample)[0][0], 'overlap'),
         'NEGSLICE recogniser no longer fires on its embedded positive example')


def pair(repo, chk):
    fi = repo.func(M + ':merge_transcriptions_and_logits')
    loop = [l for l in find_loops(fi.node)][-1]
    # statements re-binding the merged text / logits inside the loop
    binds = [s for s in loop.body if isinstance(s, ast.Assign) and isinstance(s.targets[0], ast.Name)]
    flow = fi.flow
    cuts = {}
    for s in binds:
        sl = [x for x in ast.walk(s.value) if isinstance(x, ast.Subscript) and isinstance(x.slice, ast.Slice) and isinstance(x.value, ast.Name)]
        if len(sl) >= 2:
            cuts[s.targets[0].id] = (s, sl)
    need(len(cuts) == 2, 'expected the merged text and the merged logits to be re-bound from two slices each, found %s' % list(cuts))
    (n1, (s1, sl1)), (n2, (s2, sl2)) = sorted(cuts.items(), key=lambda kv: kv[1][0].lineno)

    def bound(x, inline):
        b = x.slice.upper if x.slice.upper is not None else x.slice.lower
        return linear(flow.inline(b, x) if inline else b)
    heads = [bound(sl1[0], False), bound(sl2[0], False)]
    tails = [bound(sl1[1], False), bound(sl2[1], False)]
    if heads[0] != heads[1]:
        heads = [bound(sl1[0], True), bound(sl2[0], True)]
    if tails[0] != tails[1]:
        tails = [bound(sl1[1], True), bound(sl2[1], True)]
    chk.ob('PAIR', fi, s2, 'merged text and merged logits keep the same number of leading items', heads[0] == heads[1],
           'text keeps %s, logits keep %s' % (heads[0], heads[1]), construct='head cut equal')
    chk.ob('PAIR', fi, s2, 'appended text and appended logits drop the same number of leading items', tails[0] == tails[1],
           'text drops %s, logits drop %s' % (tails[0], tails[1]), construct='tail cut equal')
    # head keeps everything except ceil(overlap/2); tail drops floor(overlap/2): together exactly `overlap`
    # the overlap is measured between the merged text so far and the next part
    ov = [c for c in ast.walk(loop) if isinstance(c, ast.Call) and call_name(c) == 'find_best_overlap']
    need(ov, 'no find_best_overlap call in the merge loop')
    ok = isinstance(ov[0].args[0], ast.Name) and ov[0].args[0].id == n1
    chk.ob('PAIR', fi, ov[0], 'overlap is detected between the text merged so far and the next part', ok, construct='overlap operands')
    # logits tied to characters: shrunk to len(transcription)
    shr = [x for x in ast.walk(fi.node) if isinstance(x, ast.Subscript) and isinstance(x.slice, ast.Slice) and x.slice.lower is None and
           isinstance(x.slice.upper, ast.Call) and dotted(x.slice.upper.func) == 'len']
    chk.ob('PAIR', fi, shr[0] if shr else fi.node, 'each part\'s logits are cut to one row per character (logits[:len(transcription)])',
           len(shr) == 1 and src(shr[0].slice.upper.args[0]) != src(shr[0].value), construct='shrink logits')


def windows(repo, chk):
    fi = repo.func(M + ':BaseEngineLineOCR.process_lines')
    wl = [w for w in ast.walk(fi.node) if isinstance(w, ast.While) and any(isinstance(x, ast.Name) and x.id == 'end' for x in ast.walk(w.test))]
    need(wl, 'window-splitting loop not found in process_lines')
    w = wl[0]
    incs = {s.target.id: linear(s.value) for s in w.body if isinstance(s, ast.AugAssign) and isinstance(s.target, ast.Name) and isinstance(s.op, ast.Add)}
    ok = 'start' in incs and 'end' in incs and incs['start'] == incs['end']
    chk.ob('PAIR', fi, w, 'window start and end advance by the same stride (width - overlap)', ok, 'start += %s, end += %s' % (incs.get('start'), incs.get('end')),
           construct='window stride')
    t = ' '.join(src(fi.node).split())
    ok = 'start = 0' in t and 'end = self.max_line_width' in t and 'overlap = self.max_line_width // 4' in t
    chk.ob('PAIR', fi, w, 'first window is [0, max_line_width), overlap a quarter of the window', ok, construct='window init')
    # results of the parts of one line are merged back with the recorded spans
    ok = 'out_transcriptions[start:start + span]' in t and 'out_logits[start:start + span]' in t and 'start += span' in t
    chk.ob('PAIR', fi, fi.node, 'parts are merged per line with out[start:start+span], start += span', ok, construct='span bookkeeping')
