"""C01 - PAGE XML export / import preserves the page layout (structural clauses)."""
import ast

from ..core import AnalysisError, call_name, dotted, is_const, src, walk_shallow, parents_map, norm_stmt
from ..lib import (deep_sources, Rules, calls_in, method_calls, const_str, need, single, guards_of, is_none_test,
                   attr_stores, find_loops, mentions_attr)
from ..xmltable import writer_facts, ReaderAnalysis
from . import refcheck

L = 'pero_ocr.core.layout'

ALLOW_WRITE_ONLY = {
    ('PcGts', 'xmlns'): 'namespace declaration',
    ('OrderedGroup', 'id'): 'constant group id',
    ('Creator', '#text'): 'metadata (excluded by the property: timestamps / creator)',
    ('Created', '#text'): 'metadata', ('LastChange', '#text'): 'metadata',
}
OPTIONAL_FIELDS = {'transcription', 'transcription_confidence', 'heights', 'index', 'polygon', 'baseline',
                   'region_type'}


PAGE_WHAT = {
    'tl_init': 'a TextLine keeps every constructor argument in the field of the same name',
    'rl_init': 'a region starts with its id, polygon, type, no lines and no transcription',
    'pl_init': 'a page starts empty; loading a file fills it; a reading order, if present, is applied once after loading',
    'to_page_xml': 'region element: id, optional type, rounded points, optional text',
    'get_coords_form_page_xml': 'points attribute, or Point children of foreign files',
    'get_region_from_page_xml': 'region id, type, polygon and text (empty element -> empty string)',
    'get_reading_order': 'region id -> index from RegionRefIndexed',
    'from_pagexml': 'page id / size, reading order, regions and lines in document order, heights (v2 or legacy), index, baseline, polygon, text and confidence',
    'to_pagexml_string': 'root per PAGE version, page attributes, reading order (sorted first), regions and lines with all optional parts',
    'sort_regions_by_reading_order': 'stable sort by the index of the region id, unlisted regions last',
    'reading_order_to_page_xml': 'OrderedGroup with one RegionRefIndexed per entry',
    'points_string_to_array': 'blank-separated "x,y" pairs -> integer array',
}


def base(f):
    return f.split('[')[0]


def fields_compatible(wf, rf):
    """Writer fields vs reader fields: share a base name; if both carry indices for it, they agree."""
    for w in wf:
        for r in rf:
            if base(w) == base(r):
                if '[' in w and '[' in r:
                    if w == r:
                        return True
                else:
                    return True
    return False


def run(repo, chk):
    chk.explanation = ('PAGE XML writer/reader agreement decided from the AST of pero_ocr/core/layout.py: key domain of '
                       'the reading-order dict, sort-before-write on all paths, element/attribute tables of writer vs '
                       'reader with object-field pairing, rounding / format-spec shapes, None-tests for optional fields, '
                       'PAGE version exhaustiveness, append-only ordering. Holds for every document because the facts '
                       'do not depend on the document.')
    chk.note_undecided('XML escaping of arbitrary Unicode (lxml)', 'float formatting fixpoint / equality after rounding',
                       'guess_line_heights_from_polygon values when heights are absent')
    chk.assumptions = ['lxml serialises and parses attribute/text values faithfully',
                       'dict lookup uses hash/eq: a str-keyed dict never matches a RegionLayout object']
    R = Rules(repo, chk)
    refcheck.run_all(R, repo, chk, 'RECUR', 'page_ref.py', PAGE_WHAT)
    R.run('KEYDOM', keydom, repo, chk)
    R.run('GUARD', guard_sort, repo, chk)
    R.run('TABLE', table, repo, chk)
    R.run('SHAPE', shape, repo, chk)
    R.run('OPT', opt, repo, chk)
    R.run('EXHAUST', exhaust, repo, chk)
    R.run('WRSET', wrset, repo, chk)
    chk.expect('RECUR', 17)
    chk.expect('KEYDOM', 3)
    chk.expect('GUARD', 2)
    chk.expect('TABLE', 15)
    chk.expect('SHAPE', 8)
    chk.expect('OPT', 8)
    chk.expect('EXHAUST', 3)
    chk.expect('WRSET', 3)


# ----------------------------------------------------------------------------

def key_kind(expr, region_vars, fi):
    """'str' | 'region' | None for a key expression used with reading_order."""
    if isinstance(expr, ast.Name) and expr.id in region_vars:
        return 'region'
    if isinstance(expr, ast.Attribute) and expr.attr == 'id':
        return 'str'
    if isinstance(expr, ast.Subscript) and isinstance(expr.value, ast.Attribute) and expr.value.attr == 'attrib':
        return 'str'
    if isinstance(expr, ast.Call) and isinstance(expr.func, ast.Attribute) and expr.func.attr == 'get':
        return 'str'
    if isinstance(expr, ast.Call) and dotted(expr.func) == 'str':
        return 'str'
    if isinstance(expr, ast.Name):
        # follow one definition
        try:
            d = fi.flow.unique_def(expr.id, expr)
        except AnalysisError:
            d = None
        if d is not None and d.kind == 'assign' and d.path == ():
            return key_kind(d.value, region_vars, fi)
    return None


def keydom(repo, chk):
    # stores
    gro = repo.func(L + ':get_reading_order')
    stores = [s for s in walk_shallow(gro.node) if isinstance(s, ast.Assign) and isinstance(s.targets[0], ast.Subscript)
              and isinstance(s.targets[0].value, ast.Name) and s.targets[0].value.id == 'reading_order']
    if not stores:
        # role: the dict that is returned
        rets = [s for s in walk_shallow(gro.node) if isinstance(s, ast.Return) and isinstance(s.value, ast.Name)]
        need(rets, 'get_reading_order returns no dict variable')
        nm = rets[-1].value.id
        stores = [s for s in walk_shallow(gro.node) if isinstance(s, ast.Assign) and isinstance(s.targets[0], ast.Subscript)
                  and isinstance(s.targets[0].value, ast.Name) and s.targets[0].value.id == nm]
    need(stores, 'no store into the reading-order dict found in get_reading_order')
    store_kinds = set()
    for s in stores:
        k = key_kind(s.targets[0].slice, set(), gro)
        store_kinds.add(k)
        chk.ob('KEYDOM', gro, s, 'reading_order store key kind = %s' % k, k == 'str',
               'keys must be region-id strings (from regionRef)')
    # probes in the sort
    srt = repo.func(L + ':PageLayout.sort_regions_by_reading_order')
    probes = 0
    sort_calls = [c for c in ast.walk(srt.node) if isinstance(c, ast.Call) and
                  (dotted(c.func) == 'sorted' or (isinstance(c.func, ast.Attribute) and c.func.attr == 'sort'))]
    need(sort_calls, 'no sorted()/sort() in sort_regions_by_reading_order')
    for c in sort_calls:
        key = next((k.value for k in c.keywords if k.arg == 'key'), None)
        need(key is not None, 'sort without key in sort_regions_by_reading_order')
        if isinstance(key, ast.Lambda):
            region_vars = {a.arg for a in key.args.args}
            body = key.body
        else:
            q = repo.resolve_dotted(srt.module, dotted(key) or '') or ('%s:%s.%s' % (srt.module.name, srt.cls, key.attr) if isinstance(key, ast.Attribute) else None)
            kf = repo.funcs.get(q)
            need(kf is not None, 'cannot resolve sort key function')
            region_vars = {p for p in kf.params if p != 'self'}
            body = kf.node
        for n in ast.walk(body):
            kexpr = None
            if isinstance(n, ast.Subscript) and mentions_attr(n.value, 'reading_order') and isinstance(n.value, ast.Attribute):
                kexpr = n.slice
            elif isinstance(n, ast.Compare) and len(n.ops) == 1 and isinstance(n.ops[0], (ast.In, ast.NotIn)) and \
                    isinstance(n.comparators[0], ast.Attribute) and n.comparators[0].attr == 'reading_order':
                kexpr = n.left
            elif isinstance(n, ast.Call) and isinstance(n.func, ast.Attribute) and n.func.attr == 'get' and \
                    isinstance(n.func.value, ast.Attribute) and n.func.value.attr == 'reading_order' and n.args:
                kexpr = n.args[0]
            if kexpr is not None:
                probes += 1
                k = key_kind(kexpr, region_vars, srt)
                chk.ob('KEYDOM', srt, n, 'reading_order probe key kind = %s' % k, k != 'region',
                       'the dict is keyed by region id strings %s; probing it with the RegionLayout object never '
                       'matches (no __hash__/__eq__ on RegionLayout), so the sort is a no-op' % sorted(map(str, store_kinds)),
                       construct='probe ' + ' '.join(src(n).split()))
        # unlisted last: default must be +inf, no reverse
        rev = next((k.value for k in c.keywords if k.arg == 'reverse'), None)
        chk.ob('KEYDOM', srt, c, 'sort ascending (no reverse=True)', rev is None or is_const(rev, False),
               construct='sort direction')
        infs = [n for n in ast.walk(body) if (isinstance(n, ast.Call) and dotted(n.func) == 'float' and n.args and
                                                const_str(n.args[0]) in ('inf', '+inf', 'Infinity'))
                or (dotted(n) in ('math.inf', 'np.inf', 'numpy.inf'))]
        neg = [n for n in ast.walk(body) if isinstance(n, ast.UnaryOp) and isinstance(n.op, ast.USub) and
               any(x in infs for x in ast.walk(n.operand))]
        chk.ob('KEYDOM', srt, c, 'unlisted regions get key +inf (sorted last)', bool(infs) and not neg,
               construct='default key')
        # sorted result is stored back to self.regions (or in-place sort of self.regions)
        ok = False
        if dotted(c.func) == 'sorted':
            for s, t, v in attr_stores(srt.node, 'regions'):
                if any(x is c for x in ast.walk(v)) and c.args and mentions_attr(c.args[0], 'regions'):
                    ok = True
        else:
            ok = mentions_attr(c.func.value, 'regions')
        chk.ob('KEYDOM', srt, c, 'self.regions is what gets sorted and re-bound', ok, construct='sort target')
    need(probes, 'no probe of reading_order found in the sort key')
    # writer: items() keys are written as regionRef strings
    ro = repo.func(L + ':PageLayout.reading_order_to_page_xml')
    loops = [l for l in find_loops(ro.node) if mentions_attr(l.iter, 'reading_order')]
    need(loops, 'reading_order_to_page_xml does not iterate reading_order')
    lp = loops[0]
    items = isinstance(lp.iter, ast.Call) and isinstance(lp.iter.func, ast.Attribute) and lp.iter.func.attr == 'items'
    chk.ob('KEYDOM', ro, lp, 'writer iterates reading_order.items() (key -> regionRef, value -> index)', items)


def guard_sort(repo, chk):
    fi = repo.func(L + ':PageLayout.to_pagexml_string')
    cfg = fi.cfg
    sort_nodes = [cfg.node_of(c) for c in method_calls(fi.node, 'sort_regions_by_reading_order')]
    loops = [l for l in find_loops(fi.node) if mentions_attr(l.iter, 'regions')]
    need(loops, 'to_pagexml_string has no loop over self.regions')
    loop = loops[0]
    ln = cfg.node_of(loop)
    # edges on which reading_order is None
    none_edges = []
    for n in cfg.nodes:
        if n.kind == 'test':
            t = is_none_test(n.ast)
            if t and mentions_attr(t[1], 'reading_order'):
                pol = (t[0] == 'is')     # polarity on which it IS None
                none_edges += [(n.id, m, lab) for m, lab in cfg.succ[n.id] if lab == pol]
    r = cfg.reach([cfg.entry], avoid_nodes=sort_nodes, avoid_edges=none_edges, skip_exc=True)
    ok = bool(sort_nodes) and ln not in r
    detail = ''
    if not ok:
        p = cfg.path(cfg.entry, ln, avoid_nodes=sort_nodes, skip_exc=True)
        detail = 'path reaching the region loop without sorting: ' + (cfg.describe_path(p) if p else 'n/a')
    chk.ob('GUARD', fi, loop, 'every path with a reading order sorts the regions before writing them', ok, detail,
           construct='sort before region loop')
    # reading_order_to_page_xml is called under the same condition
    ini = repo.func(L + ':PageLayout.__init__')
    c2 = ini.cfg
    loads = [c2.node_of(c) for c in method_calls(ini.node, 'from_pagexml')]
    sorts = [c2.node_of(c) for c in method_calls(ini.node, 'sort_regions_by_reading_order')]
    ok = bool(loads) and bool(sorts) and any(s in c2.reach([l], skip_exc=True) for l in loads for s in sorts)
    chk.ob('GUARD', ini, ini.node, '__init__ sorts by reading order after loading a file', ok,
           construct='sort after from_pagexml')


def table(repo, chk):
    wfi = repo.func(L + ':PageLayout.to_pagexml_string')
    writes, children, _ = writer_facts(repo, wfi)
    need(len(writes) >= 15, 'writer table too small (%d writes)' % len(writes))
    ra = ReaderAnalysis(repo, [repo.func(L + ':PageLayout.from_pagexml')])
    reads = ra.pair()
    need(len(reads) >= 15, 'reader table too small (%d reads)' % len(reads))
    wkeys = {}
    for w in writes:
        wkeys.setdefault((w.tag, w.attr), []).append(w)
    rkeys = {}
    for r in reads:
        for t in r.tags:
            rkeys.setdefault((t, r.attr), []).append(r)
    for key, ws in sorted(wkeys.items()):
        w = ws[0]
        if key in ALLOW_WRITE_ONLY:
            chk.ob('TABLE', w.fi, w.node, '%s@%s written, not state (%s)' % (key[0], key[1], ALLOW_WRITE_ONLY[key]), True,
                   construct='%s@%s' % key, nontrivial=False)
            continue
        rs = rkeys.get(key, [])
        chk.ob('TABLE', w.fi, w.node, '%s@%s written by the exporter is read by the importer' % key, bool(rs),
               'no reader of this element/attribute found (readers know: %s)' % sorted(a for t, a in rkeys if t == key[0]),
               construct='%s@%s' % key)
        if not rs:
            continue
        wf = set().union(*[x.fields for x in ws])
        rf = set()
        for r in rs:
            for f in r.fields:
                if isinstance(f, tuple):
                    if key[0] in f[1]:
                        rf.add(f[0])
                else:
                    rf.add(f)
        if wf and rf:
            chk.ob('TABLE', w.fi, w.node, '%s@%s: written from %s, read into %s' % (key[0], key[1], sorted(wf), sorted(rf)),
                   fields_compatible(wf, rf), 'writer and reader associate this attribute with different object fields',
                   construct='%s@%s fields' % key)
    # reader-only attributes must be known foreign-format ones
    foreign = {('Point', 'x'), ('Point', 'y')}
    for key, rs in sorted(rkeys.items()):
        if key not in wkeys and key not in foreign:
            r = rs[0]
            chk.ob('TABLE', r.fi, r.node, '%s@%s read by the importer is written by the exporter' % key, False,
                   'the importer expects an attribute the exporter never writes', construct='%s@%s' % key)
    # parent/child: reader find() needs a direct child
    cset = set(children)
    for fi in {r.fi for r in reads}:
        for c in method_calls(fi.node, 'find'):
            from ..xmltable import _schema_tag
            t = _schema_tag(c.args[0]) if c.args else None
            for pt in ra.tags_of(fi, c.func.value):
                if t:
                    chk.ob('TABLE', fi, c, '%s is written as a direct child of %s (reader uses find)' % (t, pt),
                           (pt, t) in cset, construct='child %s/%s' % (pt, t))
    # heights micro-format
    cust = [w for w in writes if (w.tag, w.attr) == ('TextLine', 'custom')]
    need(cust, 'no TextLine@custom write')
    for w in cust:
        v = w.value
        ok = False
        detail = ''
        if isinstance(v, ast.JoinedStr):
            consts = [x.value for x in v.values if isinstance(x, ast.Constant)]
            vals = [x for x in v.values if isinstance(x, ast.FormattedValue)]
            text = ''.join(consts)
            idx = [x.value.slice.value for x in vals if isinstance(x.value, ast.Subscript) and isinstance(x.value.slice, ast.Constant)]
            ok = (consts and consts[0].startswith('heights_v2:[') and consts[-1] == ']' and ' ' not in text and
                  text.count(':') == 1 and idx == [0, 1] and all(mentions_attr(x.value, 'heights') for x in vals))
            detail = 'skeleton %r indices %s' % (consts, idx)
        chk.ob('TABLE', w.fi, w.node, 'heights_v2 micro-format: no blanks, one colon, JSON list of heights[0], heights[1]',
               ok, detail, construct='heights_v2 format')
    rfi = repo.func(L + ':PageLayout.from_pagexml')
    txt = src(rfi.node)
    ok = ("'heights_v2' in" in txt or '"heights_v2" in' in txt) and any(
        isinstance(c, ast.Call) and dotted(c.func) == 'json.loads' and
        any(isinstance(s, ast.Subscript) and isinstance(s.slice, ast.Constant) and s.slice.value == 1 and
            isinstance(s.value, ast.Call) and isinstance(s.value.func, ast.Attribute) and s.value.func.attr == 'split'
            and s.value.args and const_str(s.value.args[0]) == ':' for s in ast.walk(c))
        for c in ast.walk(rfi.node))
    chk.ob('TABLE', rfi, rfi.node, 'reader parses heights_v2 as json.loads(word.split(":")[1])', ok,
           construct='heights_v2 parse')


def _points_producers(fi):
    out = []
    for c in method_calls(fi.node, 'set'):
        if len(c.args) == 2 and const_str(c.args[0]) == 'points':
            out.append(c)
    return out


def shape(repo, chk):
    for q in (L + ':PageLayout.to_pagexml_string', L + ':RegionLayout.to_page_xml'):
        fi = repo.func(q)
        for c in _points_producers(fi):
            srcs = [e for _, e in deep_sources(repo, fi, c.args[1], c)]
            comps = [e for s in srcs for e in ast.walk(s) if isinstance(e, (ast.ListComp, ast.GeneratorExp))]
            need(comps, 'points value at %s does not derive from a comprehension' % fi.loc(c))
            comp = comps[0]
            tv = comp.generators[0].target
            pm = parents_map(comp.elt)
            refs = []
            if isinstance(tv, ast.Name):
                refs = [(n, n.slice.value) for n in ast.walk(comp.elt) if isinstance(n, ast.Subscript) and isinstance(n.value, ast.Name)
                        and n.value.id == tv.id and isinstance(n.slice, ast.Constant)]
            elif isinstance(tv, (ast.Tuple, ast.List)) and all(isinstance(e, ast.Name) for e in tv.elts):
                names = [e.id for e in tv.elts]
                refs = [(n, names.index(n.id)) for n in ast.walk(comp.elt) if isinstance(n, ast.Name) and n.id in names]
            need(refs, 'points comprehension at %s does not reference coordinate components' % fi.loc(c))
            refs.sort(key=lambda r: (r[0].lineno, r[0].col_offset))
            idx = []
            wrapped = []
            for n, i in refs:
                idx.append(i)
                anc = []
                x = n
                while x in pm:
                    x = pm[x]
                    if isinstance(x, ast.Call):
                        anc.append(dotted(x.func))
                wrapped.append('int' in anc and any(a in ('np.round', 'round', 'np.rint', 'numpy.round', 'np.around') for a in anc))
            chk.ob('SHAPE', fi, c, 'points written as x,y = component 0 then 1', idx == [0, 1], 'component order %s' % idx,
                   construct='points order ' + norm_stmt(comp.generators[0].iter))
            chk.ob('SHAPE', fi, c, 'each coordinate is int(round(.))', bool(wrapped) and all(wrapped),
                   construct='points rounding ' + norm_stmt(comp.generators[0].iter))
            # separators
            seps = None
            e = comp.elt
            if isinstance(e, ast.Call) and isinstance(e.func, ast.Attribute) and e.func.attr == 'format' and const_str(e.func.value) is not None:
                seps = const_str(e.func.value).replace('{}', '|')
            elif isinstance(e, ast.JoinedStr):
                seps = ''.join(x.value if isinstance(x, ast.Constant) else '|' for x in e.values)
            joins = [j for s in srcs for j in ast.walk(s) if isinstance(j, ast.Call) and isinstance(j.func, ast.Attribute)
                     and j.func.attr == 'join' and const_str(j.func.value) is not None]
            jsep = const_str(joins[0].func.value) if joins else None
            chk.ob('SHAPE', fi, c, 'point = "x,y", points joined by one blank', seps == '|,|' and jsep == ' ',
                   'format %r join %r' % (seps, jsep), construct='points separators ' + norm_stmt(comp.generators[0].iter))
    # reader
    ps = repo.func(L + ':points_string_to_array')
    splits = [const_str(c.args[0]) for c in method_calls(ps.node, 'split') if c.args]
    unpack_ok = False
    for n in ast.walk(ps.node):
        if isinstance(n, ast.ListComp) and isinstance(n.elt, ast.List) and len(n.elt.elts) == 2 and \
                isinstance(n.generators[0].target, ast.Tuple) and len(n.generators[0].target.elts) == 2:
            a, b = [t.id for t in n.generators[0].target.elts if isinstance(t, ast.Name)]
            first = {x.id for x in ast.walk(n.elt.elts[0]) if isinstance(x, ast.Name)}
            second = {x.id for x in ast.walk(n.elt.elts[1]) if isinstance(x, ast.Name)}
            unpack_ok = a in first and b in second and b not in first and a not in second
    chk.ob('SHAPE', ps, ps.node, 'reader splits on blank then comma and keeps (x, y) order', splits == [' ', ','] and unpack_ok,
           'splits %s' % splits, construct='points reader')
    # format specs
    fi = repo.func(L + ':PageLayout.to_pagexml_string')
    specs = {}
    for c in method_calls(fi.node, 'set'):
        if len(c.args) == 2 and const_str(c.args[0]) in ('custom', 'conf', 'index') and isinstance(c.args[1], ast.JoinedStr):
            for v in c.args[1].values:
                if isinstance(v, ast.FormattedValue):
                    sp = ''.join(x.value for x in v.format_spec.values if isinstance(x, ast.Constant)) if v.format_spec else ''
                    specs.setdefault(const_str(c.args[0]), []).append((sp, c))
    want = {'custom': '.1f', 'conf': '.3f', 'index': 'd'}
    for k, w in want.items():
        got = specs.get(k, [])
        need(got, 'no f-string write of %s found' % k)
        for sp, c in got:
            chk.ob('SHAPE', fi, c, '%s formatted with :%s (documented rounding)' % (k, w), sp == w, 'spec %r' % sp,
                   construct='format spec %s' % k)


def opt(repo, chk):
    for q in (L + ':PageLayout.to_pagexml_string', L + ':RegionLayout.to_page_xml'):
        fi = repo.func(q)
        for n in walk_shallow(fi.node):
            if isinstance(n, (ast.If, ast.IfExp)):
                t = n.test
                fields = {a.attr for a in ast.walk(t) if isinstance(a, ast.Attribute)} & OPTIONAL_FIELDS
                if not fields:
                    continue
                for part in (t.values if isinstance(t, ast.BoolOp) else [t]):
                    pf = {a.attr for a in ast.walk(part) if isinstance(a, ast.Attribute)} & OPTIONAL_FIELDS
                    if not pf:
                        continue
                    core = part.operand if isinstance(part, ast.UnaryOp) and isinstance(part.op, ast.Not) else part
                    truthy = isinstance(core, ast.Attribute) and core.attr in OPTIONAL_FIELDS
                    falsy_cmp = isinstance(core, ast.Compare) and len(core.ops) == 1 and \
                        isinstance(core.ops[0], (ast.Eq, ast.NotEq)) and isinstance(core.comparators[0], ast.Constant) \
                        and core.comparators[0].value in ('', 0) and core.comparators[0].value is not None \
                        and isinstance(core.left, ast.Attribute)
                    chk.ob('OPT', fi, part, 'optional field %s is not tested by truthiness (so \'\' and 0 survive)' % sorted(pf),
                           not (truthy or falsy_cmp), 'a truthiness / falsy-value test drops empty strings, 0 and 0.0',
                           construct='test ' + ' '.join(src(part).split()))
    # reader maps absent Unicode text to ''
    for q in (L + ':PageLayout.from_pagexml', L + ':get_region_from_page_xml'):
        fi = repo.func(q)
        ok = False
        for n in walk_shallow(fi.node):
            if isinstance(n, ast.If):
                nt = is_none_test(n.test)
                if nt and nt[0] == 'is':
                    for s in n.body:
                        if isinstance(s, ast.Assign) and const_str(s.value) == '' and \
                                ast.dump(s.targets[0]).replace('Store', 'Load') == ast.dump(nt[1]):
                            ok = True
        chk.ob('OPT', fi, fi.node, 'importer maps an empty Unicode element (text None) to \'\'', ok,
               construct='None text -> empty string')


def exhaust(repo, chk):
    enum = repo.cls(L + ':PAGEVersion')
    members = [t.id for s in enum.node.body if isinstance(s, ast.Assign) for t in s.targets if isinstance(t, ast.Name)]
    need(len(members) >= 2, 'PAGEVersion has fewer than two members')
    fi = repo.func(L + ':PageLayout.to_pagexml_string')
    tested = set()
    chain_else_raises = False
    for n in walk_shallow(fi.node):
        if isinstance(n, ast.If) and isinstance(n.test, ast.Compare):
            for x in ast.walk(n.test):
                d = dotted(x) if isinstance(x, ast.Attribute) else None
                if d and d.startswith('PAGEVersion.'):
                    tested.add(d.split('.')[1])
            cur = n
            while cur.orelse and len(cur.orelse) == 1 and isinstance(cur.orelse[0], ast.If):
                cur = cur.orelse[0]
            if cur.orelse and any(isinstance(s, ast.Raise) for s in cur.orelse) and mentions_attr(n.test, members[0]) | True:
                chain_else_raises = chain_else_raises or any(dotted(x) or '' for x in ast.walk(n.test) if isinstance(x, ast.Attribute) and (dotted(x) or '').startswith('PAGEVersion.'))
    for m in members:
        chk.ob('EXHAUST', fi, fi.node, 'PAGE version %s has an export branch' % m, m in tested, construct='branch ' + m)
    chk.ob('EXHAUST', fi, fi.node, 'unknown version raises instead of writing nothing', bool(chain_else_raises),
           construct='else raise')
    es = repo.func(L + ':element_schema')
    rfi = repo.func(L + ':PageLayout.from_pagexml')
    ok = any(call_name(c) == 'element_schema' for c in calls_in(rfi.node)) and \
        not any(isinstance(c, ast.Constant) and isinstance(c.value, str) and 'primaresearch' in c.value for c in ast.walk(rfi.node))
    chk.ob('EXHAUST', rfi, rfi.node, 'importer takes the namespace from the document root (version-agnostic)', ok,
           construct='schema from root')


def wrset(repo, chk):
    # readers only append; writers do not re-bind regions / lines except via the reading-order sort
    rfi = repo.func(L + ':PageLayout.from_pagexml')
    apps = [c for c in method_calls(rfi.node, 'append') if isinstance(c.func.value, ast.Attribute) and c.func.value.attr in ('regions', 'lines')]
    kinds = {c.func.value.attr for c in apps}
    chk.ob('WRSET', rfi, rfi.node, 'importer appends regions and lines in document order', kinds == {'regions', 'lines'},
           'append targets %s' % sorted(kinds), construct='append order')
    bad = [c for n in ('insert', 'reverse', 'sort', 'pop', 'remove') for c in method_calls(rfi.node, n)
           if isinstance(c.func.value, ast.Attribute) and c.func.value.attr in ('regions', 'lines')]
    chk.ob('WRSET', rfi, bad[0] if bad else rfi.node, 'importer does not reorder or drop regions / lines', not bad,
           construct='no reorder in importer')
    for q in (L + ':PageLayout.to_pagexml_string', L + ':RegionLayout.to_page_xml', L + ':PageLayout.reading_order_to_page_xml'):
        fi = repo.func(q)
        stores = [s for s, t, v in attr_stores(fi.node) if t.attr in ('regions', 'lines', 'reading_order')]
        muts = [c for n in ('insert', 'reverse', 'sort', 'pop', 'remove', 'append', 'clear') for c in method_calls(fi.node, n)
                if isinstance(c.func.value, ast.Attribute) and c.func.value.attr in ('regions', 'lines')]
        # iteration over reversed()/sorted()/slices of lines or regions
        odd = []
        for l in find_loops(fi.node):
            it = l.iter
            while isinstance(it, ast.Call) and dotted(it.func) in ('enumerate', 'list', 'tuple', 'iter') and it.args:
                it = it.args[0]
            if not (mentions_attr(it, 'regions') or mentions_attr(it, 'lines')):
                continue
            if isinstance(it, ast.Call) and dotted(it.func) in ('reversed', 'sorted', 'set'):
                odd.append(l)
            elif isinstance(it, ast.Subscript) and isinstance(it.slice, ast.Slice) and \
                    (it.slice.lower is not None or it.slice.upper is not None or it.slice.step is not None):
                odd.append(l)
        chk.ob('WRSET', fi, (stores + muts + odd + [fi.node])[0], 'exporter iterates regions / lines as held, without re-binding or mutating them',
               not stores and not muts and not odd, construct='exporter leaves order alone')
