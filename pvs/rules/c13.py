"""C13 - edit distance, alignments and error summaries (structural clauses)."""
import ast
import os
import re

from ..core import call_name, dotted, src, walk_shallow
from ..lib import Rules, Soft, need, calls_in
from . import refcheck
from .dec_common import template_check

S = 'pero_ocr.sequence_alignment'
E = 'pero_ocr.error_summary'
REF = os.path.join(os.path.dirname(os.path.dirname(__file__)), 'refs', 'seqalign_ref.py')

WHAT = {
    'levenshtein_distance': 'rolling-row Wagner-Fischer: ramp * ins, vertical + del, diagonal + sub (read before update), horizontal + ins',
    'levenshtein_alignment': 'same recurrence with back-pointers {diag 0, horizontal -1, vertical +1, row 0 -1}; decoder consumes source on >= 0, target on <= 0',
    'levenshtein_alignment_path': 'clone of levenshtein_alignment returning the path of codes',
    'edit_stats_for_alignment': 'counts (nphn, ncor, nins, ndel, nsub) from the aligned pairs',
    'levenshtein_distance_substring': 'substring variant: insertion ramp in row 0, column 0 free, last cell running minimum',
    'levenshtein_alignment_substring': 'substring variant with back-pointers and free suffix',
}


def run(repo, chk):
    chk.explanation = ('The five edit-distance functions are compared (locals inlined, alpha-renamed, order of effects per mutated '
                       'array kept) with the Wagner-Fischer reference forms in pvs/refs/seqalign_ref.py; back-pointer code table '
                       'and the summary-field pairings are checked separately.')
    chk.note_undecided('optimality of the returned distance (values of the DP)')
    with open(REF) as f:
        ref = f.read()
    R = Rules(repo, chk)
    for name in re.findall(r'^def (\w+)', ref, re.M):
        R.run('RECUR', template_check, repo, chk, 'RECUR', S + ':' + name, name, WHAT.get(name, name), ref)
    R.run('RECUR', boundary, repo, chk)
    refcheck.run_all(R, repo, chk, 'RECUR', 'errsum_ref.py', {'from_lists': 'errors = distance(ref, hyp); alignment(hyp, ref); insertions / deletions / substitutions from the alignment statistics',
                                                          'aggregate': 'aggregation is plain addition of every counter', 'es_init': 'fields are set from the parameters of the same name'})
    R.run('PAIR', pair, repo, Soft(chk), soft_for=[S + ':edit_stats_for_alignment', E + ':ErrorsSummary.from_lists', E + ':ErrorsSummary.aggregate'])
    chk.expect('RECUR', 15)
    chk.expect('PAIR', 12)


def boundary(repo, chk):
    """Row 0 of every variant is the insertion ramp (contradiction rule: backtrack[0] = -1 says so)."""
    for name in ('levenshtein_distance', 'levenshtein_alignment', 'levenshtein_alignment_path',
                 'levenshtein_distance_substring', 'levenshtein_alignment_substring'):
        fi = repo.func(S + ':' + name)
        # initial contents of the rolling row before the loop over source
        loop = next((n for n in fi.node.body if isinstance(n, ast.For)), None)
        need(loop is not None, name + ': no loop over the source')
        pre = [s for s in fi.node.body if s.lineno < loop.lineno]
        ramp = False
        for s in pre:
            t = ' '.join(src(s).split())
            if re.search(r'np\.arange\(len\(target\) \+ 1\) \* ins_cost', t) or re.search(r'ins_cost \* np\.arange\(len\(target\) \+ 1\)', t):
                ramp = True
        chk.ob('RECUR', fi, loop, 'row 0 = arange(len(target)+1) * ins_cost (cost of inserting the first j target symbols)', ramp,
               'without the ramp, alignments that start with an insertion are priced wrongly', construct='row 0 ramp ' + name)


def pair(repo, chk):
    es = repo.func(S + ':edit_stats_for_alignment')
    ret = [s for s in walk_shallow(es.node) if isinstance(s, ast.Return) and isinstance(s.value, ast.Tuple) and
           all(isinstance(e, ast.Name) for e in s.value.elts)]
    need(ret, 'edit_stats_for_alignment returns no tuple of names')
    order = [e.id for e in ret[-1].value.elts]
    chk.ob('PAIR', es, ret[-1], 'edit_stats returns (nphn, ncor, nins, ndel, nsub)', order == ['nphn', 'ncor', 'nins', 'ndel', 'nsub'],
           'order %s' % order, construct='edit_stats return order')
    fl = repo.func(E + ':ErrorsSummary.from_lists')
    unp = [s for s in walk_shallow(fl.node) if isinstance(s, ast.Assign) and isinstance(s.targets[0], ast.Tuple) and
           isinstance(s.value, ast.Call) and call_name(s.value) == 'edit_stats_for_alignment']
    need(unp, 'from_lists does not unpack edit_stats_for_alignment')
    names = [e.id for e in unp[0].targets[0].elts]
    stems = {'ins': 2, 'del': 3, 'sub': 4}
    ok = len(names) == 5 and all(st in names[i] for st, i in stems.items())
    chk.ob('PAIR', fl, unp[0], 'from_lists unpacks insertions / deletions / substitutions from positions 2 / 3 / 4', ok,
           'unpacked as %s from %s' % (names, order), construct='edit_stats unpack')
    # reference/hypothesis roles: distance(ref, hyp); alignment(hyp, ref) -> pairs (hyp_sym, ref_sym)
    t = ' '.join(src(fl.node).split())
    chk.ob('PAIR', fl, fl.node, 'ref_len is the reference length and errors = levenshtein_distance(ref, hyp)',
           'ref_len = len(ref)' in t and 'levenshtein_distance(ref, hyp)' in t, construct='from_lists roles')
    chk.ob('PAIR', fl, fl.node, 'alignment(hyp, ref) so that insertions are extra hypothesis symbols', 'levenshtein_alignment(hyp, ref)' in t,
           construct='from_lists alignment roles')
    init = repo.func(E + ':ErrorsSummary.__init__')
    iparams = [p for p in init.params if p != 'self']
    for q, what in ((E + ':ErrorsSummary.from_lists', 'from_lists'), (E + ':ErrorsSummary.aggregate', 'aggregate')):
        fi = repo.func(q)
        ctor = [c for c in ast.walk(fi.node) if isinstance(c, ast.Call) and dotted(c.func) in ('cls', 'ErrorsSummary')]
        need(ctor, what + ': no constructor call')
        c = ctor[-1]
        args = [src(a) for a in c.args]
        ok = len(args) == len(iparams)
        bad = []
        for p, a in zip(iparams, args):
            stem = p.replace('nb_', '').replace('_summarized', '').rstrip('s')
            key = {'line': 'line', 'ref_len': 'ref_len', 'error': 'error', 'sub': 'sub', 'ins': 'ins', 'del': 'del',
                   'confusion': 'confusion', 'ending_error': 'end'}.get(stem, stem)
            if a.isdigit():
                continue
            if key not in a:
                bad.append((p, a))
        chk.ob('PAIR', fi, c, what + ': constructor arguments are in the order of ErrorsSummary.__init__ ' + str(iparams), ok and not bad,
               'mismatched (parameter, argument): %s' % bad, construct=what + ' constructor order')
    # field stores in __init__ pair parameter -> same-named field
    for s in walk_shallow(init.node):
        if isinstance(s, ast.Assign) and isinstance(s.targets[0], ast.Attribute) and isinstance(s.value, ast.Name) and s.value.id in iparams:
            chk.ob('PAIR', init, s, 'self.%s is set from the parameter of the same name' % s.targets[0].attr,
                   s.targets[0].attr == s.value.id, construct='init field ' + s.targets[0].attr)
    ag = repo.func(E + ':ErrorsSummary.aggregate')
    for s in walk_shallow(ag.node):
        if isinstance(s, ast.AugAssign) and isinstance(s.target, ast.Name) and isinstance(s.value, ast.Attribute) and \
                (s.value.attr.startswith('nb_') or s.value.attr == 'ref_len'):
            stem = s.value.attr.replace('nb_', '').replace('_summarized', '')
            ok = isinstance(s.op, ast.Add) and stem.rstrip('s') in s.target.id
            chk.ob('PAIR', ag, s, 'aggregate adds err.%s into %s' % (s.value.attr, s.target.id), ok, construct='aggregate ' + s.target.id)
