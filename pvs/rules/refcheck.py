"""Run template checks for every function of a reference file (header lines `# reference for <qual>`)."""
import ast
import os
import re

from .dec_common import template_check, benign_extra
from ..template import compare, template_func

REFDIR = os.path.join(os.path.dirname(os.path.dirname(__file__)), 'refs')


def load(name):
    with open(os.path.join(REFDIR, name)) as f:
        ref = f.read()
    pairs = re.findall(r'^# reference for (\S+)\ndef (\w+)', ref, re.M)
    return ref, [(n, q) for q, n in pairs]


def run_all(R, repo, chk, rule, refname, what=None, only=None, skip=()):
    ref, pairs = load(refname)
    n = 0
    for name, qual in pairs:
        if only is not None and name not in only:
            continue
        if name in skip:
            continue
        desc = (what or {}).get(name, 'effects of %s equal its reference form (%s)' % (name, refname))
        R.run(rule, template_check, repo, chk, rule, qual, name, desc, ref)
        n += 1
    return n
