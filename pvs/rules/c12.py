"""C12 - region sorting only permutes regions and always terminates (structural clauses)."""
import ast

from ..core import call_name, dotted, src, walk_shallow, is_const, parents_map
from ..lib import Rules, Soft, need, attr_stores, calls_in
from . import refcheck

SS = 'pero_ocr.layout_engines.smart_sorter'
NS = 'pero_ocr.layout_engines.naive_sorter'
WHAT = {
    'divide_and_order': 'every region popped from the worklist is added to exactly one group; groups are appended to the result; the fallback decouples; children sorted by x / y',
    'decouple': 'every element of the stuck group is wrapped into its own group, ordered by the axis with the larger spread',
    'get_ordered_ids': 'ids are collected depth-first, each region once',
    'smart_process_page': 'fewer than two regions are returned as they are; de-skew by -rotation, reorder by id -> index, rotate back by +rotation',
    'naive_process_page': 'regions are re-ordered by the index permutation returned by sort_regions',
    'sort_regions': 'no regions -> empty order; clusters of columns sorted left to right, regions inside by their top',
}


def run(repo, chk):
    chk.explanation = ('NONEMPTY: sinks that need >= n regions (DBSCAN.fit_predict: 1, max(*regions): 2) are dominated by a guard giving that bound; '
                       'WRSET: sorters only re-bind page_layout.regions to an index permutation and touch only polygon / baseline geometry; '
                       'PAIR: the de-skew is undone with the opposite angle; CONSERVE via the reference forms of divide_and_order / decouple.')
    chk.note_undecided('termination of the recursive divide (data-dependent recursion)', 'geometric round-off of the de-skew rotation')
    R = Rules(repo, chk)
    refcheck.run_all(R, repo, chk, 'RECUR', 'sorter_ref.py', WHAT)
    R.run('NONEMPTY', nonempty, repo, chk)
    R.run('WRSET', wrset, repo, Soft(chk))
    R.run('PAIR', pair, repo, Soft(chk))
    chk.expect('RECUR', 23)
    chk.expect('NONEMPTY', 2)
    chk.expect('WRSET', 4)
    chk.expect('PAIR', 2)


def _len_guard_bound(test, pol, coll_src):
    """Lower bound on len(coll) implied AFTER a guard `if test: return/raise` is NOT taken (pol False) ..."""
    t = ' '.join(src(test).split())
    x = coll_src
    if not pol:
        # we are on the path where the test was false
        for k in range(0, 4):
            if t in ('len(%s) < %d' % (x, k), '%d > len(%s)' % (k, x)):
                return k
            if t in ('len(%s) <= %d' % (x, k),):
                return k + 1
            if t in ('len(%s) == %d' % (x, k),) and k == 0:
                return 1
        if t in ('not ' + x, '%s == []' % x):
            return 1
    else:
        if t in (x, 'len(%s) > 0' % x, 'len(%s)' % x):
            return 1
        for k in range(0, 4):
            if t == 'len(%s) > %d' % (x, k):
                return k + 1
            if t == 'len(%s) >= %d' % (x, k):
                return k
    return 0


def nonempty(repo, chk):
    # naive sorter: DBSCAN needs >= 1 sample
    fi = repo.func(NS + ':NaiveRegionSorter.sort_regions')
    cfg = fi.cfg
    sinks = [c for c in ast.walk(fi.node) if isinstance(c, ast.Call) and isinstance(c.func, ast.Attribute) and c.func.attr in ('fit_predict', 'fit')]
    need(sinks, 'DBSCAN fit_predict call not found in the naive sorter')
    coll = fi.params[0]
    for c in sinks:
        bound = max([_len_guard_bound(t, pol, coll) for t, pol, _ in cfg.facts_at(cfg.node_of(c))] + [0])
        chk.ob('NONEMPTY', fi, c, 'DBSCAN.fit_predict (needs >= 1 sample) is reached only with >= 1 region', bound >= 1,
               'lower bound on len(%s) established by dominating guards: %d; a page without regions raises "Found array with 0 sample(s)"' % (coll, bound),
               construct='DBSCAN needs 1')
    fi2 = repo.func(SS + ':SmartRegionSorter.process_page')
    cfg2 = fi2.cfg
    sinks2 = [c for c in ast.walk(fi2.node) if isinstance(c, ast.Call) and dotted(c.func) == 'max' and c.args and isinstance(c.args[0], ast.Starred)]
    need(sinks2, 'max(*regions) not found in the smart sorter')
    for c in sinks2:
        coll2 = src(c.args[0].value)
        bound = max([_len_guard_bound(t, pol, coll2) for t, pol, _ in cfg2.facts_at(cfg2.node_of(c))] + [0])
        chk.ob('NONEMPTY', fi2, c, 'max(*regions, key=...) (needs >= 2 arguments) is reached only with >= 2 regions', bound >= 2,
               'lower bound %d; with one region max(*[r]) iterates over the region object, with none it raises' % bound, construct='max(*) needs 2')
    # embedded positive example of the guard recogniser
    need(_len_guard_bound(ast.parse('len(xs) < 2', mode='eval').body, False, 'xs') == 2 and _len_guard_bound(ast.parse('len(xs) == 0', mode='eval').body, False, 'xs') == 1,
         'NONEMPTY guard recogniser lost its positive example')


def wrset(repo, chk):
    for q, name in ((SS + ':SmartRegionSorter.process_page', 'smart'), (NS + ':NaiveRegionSorter.process_page', 'naive')):
        fi = repo.func(q)
        st = [(s, t, v) for s, t, v in attr_stores(fi.node) if t.attr == 'regions']
        ok = len(st) == 1 and isinstance(st[0][2], ast.ListComp) and not st[0][2].generators[0].ifs and \
            isinstance(st[0][2].elt, ast.Subscript) and src(st[0][2].elt.value).endswith('.regions') and \
            isinstance(st[0][2].elt.slice, ast.Name) and st[0][2].elt.slice.id == st[0][2].generators[0].target.id
        chk.ob('WRSET', fi, st[0][0] if st else fi.node, '%s sorter re-binds page_layout.regions to [regions[i] for i in order] (no filter)' % name, ok, construct=name + ' permutation')
        others = [(s, t) for s, t, v in attr_stores(fi.node) if t.attr not in ('regions',)]
        chk.ob('WRSET', fi, others[0][0] if others else fi.node, '%s sorter stores nothing else on the page, its regions or lines' % name, not others,
               'also stores: %s' % [src(t) for s, t in others], construct=name + ' no other stores')
    rot = repo.func(SS + ':SmartRegionSorter.rotate_page_layout')
    fields = sorted({t.attr for s, t, v in attr_stores(rot.node)})
    chk.ob('WRSET', rot, rot.node, 'the de-skew touches geometry only (polygon, baseline)', fields == ['baseline', 'polygon'], 'stores %s' % fields, construct='rotate stores')
    # index lookup by id: next(idx for idx, region in enumerate(regions) if region.id == region_id)
    sp = repo.func(SS + ':SmartRegionSorter.process_page')
    t = ' '.join(src(sp.node).split())
    chk.ob('WRSET', sp, sp.node, 'ordered ids are mapped back to indices by id equality', 'if region.id == region_id' in t and 'for region_id in ordered_ids' in t, construct='id -> index')


def pair(repo, chk):
    sp = repo.func(SS + ':SmartRegionSorter.process_page')
    calls = [c for c in ast.walk(sp.node) if isinstance(c, ast.Call) and (call_name(c) or '').endswith('rotate_page_layout')]
    need(len(calls) == 2, 'expected two rotate_page_layout calls')
    a, b = sorted(calls, key=lambda c: c.lineno)
    sa, sb = ' '.join(src(a.args[1]).split()), ' '.join(src(b.args[1]).split())
    ok = (sa == '-' + sb) or (sb == '-' + sa)
    chk.ob('PAIR', sp, b, 'the page is rotated by -rotation before sorting and by +rotation afterwards', ok, 'angles %s then %s' % (sa, sb), construct='de-skew pair')
    # every return after the first rotation passes the second rotation
    cfg = sp.cfg
    na, nb = cfg.node_of(a), cfg.node_of(b)
    rets = [n.id for n in cfg.nodes if n.kind == 'return' and n.id in cfg.reach([na], skip_exc=True)]
    ok = all(cfg.must_pass(r, [nb], start=na, skip_exc=True) for r in rets)
    chk.ob('PAIR', sp, b, 'no return between the two rotations skips the rotation back', ok, construct='rotation back on all paths')
