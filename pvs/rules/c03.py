"""C03 - LM fusion: ranking by vis + scale * LM everywhere (structural clauses)."""
import ast

from ..core import call_name, dotted, src, walk_shallow, canon
from ..lib import Rules, need, calls_in, mentions_attr
from ..template import template_func, effects, HelperInliner
from . import dec_common as dc
from . import refcheck

B = 'pero_ocr.decoding.bag_of_hypotheses'
CN = 'pero_ocr.decoding.confusion_networks'
SCALE_NAMES = {'lm_weight', '_lm_scale', 'lm_scale'}


LM_WHAT = {
    'hs_setitem': 'replacing beam entries of an LM state replaces them in EVERY tensor of the state (h and c of an LSTM)',
    'hs_getitem': 'selecting beam entries selects them in every tensor of the state',
    'hs_add': 'concatenating states concatenates every tensor of the state along the beam axis',
    'advance_h0': 'the model is advanced from the given state with the decoder symbols shifted by the unused-prefix length',
    'log_probs': 'next-symbol scores are the decoder output of the state, restricted to the decoder symbols',
    'eos_scores': 'end-of-line score is the score of the LM\'s </s> symbol',
    'initial_h': 'initial state = model state after the start symbol',
}


def run(repo, chk):
    chk.explanation = ('Every additive combination of a visual with an LM score carries the LM scale (SCALE); the scale archived '
                       'in the bag is the decoder\'s; LM recurrences / state permutation compared with reference equations; '
                       'EOS addition control-dependent on model_eos.')
    chk.note_undecided('LM score equals the model\'s own per-character sum (needs the model\'s values)',
                       'column alignment between visual and LM matrices after symbol pre-selection (index values)')
    chk.assumptions = ['hypothesis fields: vis_sc = visual, lm_sc = LM (namedtuple Hypothese)']
    R = Rules(repo, chk)
    R.run('SCALE', scale, repo, chk)
    R.run('PAIR', pair, repo, chk)
    R.run('RECUR', dc.template_check, repo, chk, 'RECUR', dc.DEC + '.compute_Plm', 'compute_Plm',
          "Plm' = [Plm (x) lm_preds (x) bonus , Plm]: bonus only on extension")
    R.run('RECUR', dc.template_check, repo, chk, 'RECUR', dc.D + ':update_lm_things', 'update_lm_things',
          'LM state / predictions are permuted with the beam; state advanced only for extended prefixes')
    R.run('RECUR', call_effects, repo, chk)
    refcheck.run_all(R, repo, chk, 'RECUR', 'lm_ref.py', LM_WHAT)
    refcheck.run_all(R, repo, chk, 'RECUR', 'conf_ref.py', {'total_scores': 'total = visual + lm_weight * LM (visual only when no LM score)', 'posteriors': 'totals minus their logsumexp', 'confidence': 'exp of the best posterior'}, only=('total_scores', 'posteriors', 'confidence', 'transcript_confidence'))
    refcheck.run_all(R, repo, chk, 'RECUR', 'decsetup_ref.py', {'decoder_factory': 'LM_SCALE / INSERTION_BONUS / BEAM_SIZE of the configuration reach the decoder in those roles; the LM is wrapped with the decoder symbols', 'dec_init': 'the decoder keeps the LM scale and insertion bonus it was given', 'page_decoder_factory': 'the page decoder gets the configured decoder, threshold and carry-over flag'}, only=('decoder_factory', 'lm_factory', 'construct_lm', 'hs_init', 'page_decoder_factory', 'dec_init'))
    R.run('LOOPSTATE', dc.loopstate, repo, chk, 'LOOPSTATE', True)
    R.run('CDEP', cdep, repo, chk)
    R.run('SIBLING', sibling, repo, chk)
    chk.expect('SCALE', 5)
    chk.expect('PAIR', 3)
    chk.expect('RECUR', 39)
    chk.expect('LOOPSTATE', 3)
    chk.expect('CDEP', 1)
    chk.expect('SIBLING', 3)


def _terms(e):
    """Additive terms of an expression (through +, IfExp branches, parentheses)."""
    if isinstance(e, ast.BinOp) and isinstance(e.op, ast.Add):
        return _terms(e.left) + _terms(e.right)
    return [e]


def _family(term, fi, lm_vars, vis_vars):
    """'lm' | 'vis' | None for one additive term."""
    names = {n.id for n in ast.walk(term) if isinstance(n, ast.Name)}
    attrs = {n.attr for n in ast.walk(term) if isinstance(n, ast.Attribute)}
    if 'lm_sc' in attrs or names & lm_vars:
        return 'lm'
    if 'vis_sc' in attrs or names & vis_vars:
        return 'vis'
    return None


def _scaled(term):
    """The LM term is a product with a scale factor (possibly inside a conditional expression)."""
    if isinstance(term, ast.IfExp):
        # the branch that mentions the LM score must be scaled
        ok = True
        for br in (term.body, term.orelse):
            if any(isinstance(n, ast.Attribute) and n.attr == 'lm_sc' for n in ast.walk(br)) or \
                    any(isinstance(n, ast.Name) for n in ast.walk(br)) and not isinstance(br, ast.Constant):
                if any(isinstance(n, ast.Attribute) and n.attr == 'lm_sc' for n in ast.walk(br)):
                    ok = ok and _scaled(br)
        return ok
    if isinstance(term, ast.BinOp) and isinstance(term.op, ast.Mult):
        for side in (term.left, term.right):
            for n in ast.walk(side):
                if (isinstance(n, ast.Attribute) and n.attr in SCALE_NAMES) or (isinstance(n, ast.Name) and n.id in SCALE_NAMES):
                    return True
        return _scaled(term.left) or _scaled(term.right)
    return False


def scale(repo, chk):
    sites = 0
    # decoder: LM family = variables deriving from self._lm / compute_Plm ; visual = from compute_Pnb / compute_Pb / logaddexp
    dec = repo.func(dc.DEC + '.__call__')
    flow = dec.flow
    lm_vars, vis_vars = set(), set()
    for ds in flow.defs_at.values():
        for d in ds:
            if d.value is None or d.kind not in ('assign', 'aug'):
                continue
            v = d.value.value if d.kind == 'aug' else d.value
            t = src(v)
            if 'compute_Plm' in t or '_lm.' in t:
                lm_vars.add(d.name)
            if 'compute_Pnb' in t or 'compute_Pb' in t or 'np.logaddexp' in t:
                vis_vars.add(d.name)
    changed = True
    while changed:       # propagate through plain copies / indexing
        changed = False
        for ds in flow.defs_at.values():
            for d in ds:
                if d.value is None or d.kind != 'assign':
                    continue
                names = {n.id for n in ast.walk(d.value) if isinstance(n, ast.Name)}
                is_sum = isinstance(d.value, ast.BinOp)
                if not is_sum and names & lm_vars and not names & vis_vars and d.name not in lm_vars and d.name not in ('h_prev', 'lm_preds'):
                    if isinstance(d.value, (ast.Subscript, ast.Name)):
                        lm_vars.add(d.name)
                        changed = True
                if not is_sum and names & vis_vars and not names & lm_vars and d.name not in vis_vars:
                    if isinstance(d.value, (ast.Subscript, ast.Name, ast.Call)) and 'top_k' not in src(d.value) and 'find_new' not in src(d.value):
                        vis_vars.add(d.name)
                        changed = True
    lm_vars -= {'h_prev', 'lm_preds', 'eos_scores'}
    need(lm_vars and vis_vars, 'could not identify LM / visual score variables in the decoder')
    funcs = [(dec, lm_vars, vis_vars)]
    for q in (B + ':BagOfHypotheses.total_scores', B + ':BagOfHypotheses.best_hyp', B + ':BagOfHypotheses.posteriors',
              B + ':BagOfHypotheses.confidence', B + ':BagOfHypotheses.transcript_confidence', B + ':BagOfHypotheses.sort',
              CN + ':produce_cn_from_boh'):
        funcs.append((repo.func(q), set(), set()))
    for fi, lv, vv in funcs:
        for n in ast.walk(fi.node):
            if isinstance(n, ast.BinOp) and isinstance(n.op, ast.Add):
                # only maximal sums
                terms = _terms(n)
                fams = [_family(t, fi, lv, vv) for t in terms]
                if 'lm' in fams and 'vis' in fams:
                    if getattr(n, '_pvs_seen', False):
                        continue
                    for sub in ast.walk(n):
                        if sub is not n and isinstance(sub, ast.BinOp) and isinstance(sub.op, ast.Add):
                            sub._pvs_seen = True
                    bad = [t for t, f in zip(terms, fams) if f == 'lm' and not _scaled(t)]
                    sites += 1
                    chk.ob('SCALE', fi, n, 'visual + LM combination multiplies the LM term by the LM scale', not bad,
                           'unscaled LM term(s): %s; with a scale other than 1 this ranking disagrees with the others' % [src(b) for b in bad],
                           construct='sum ' + ' '.join(src(n).split()))
    need(sites >= 1, 'no visual+LM sum found')
    # the bag ranks by the same total everywhere: sort key must not add an unscaled LM term (vis only is the documented order)


def pair(repo, chk):
    dec = repo.func(dc.DEC + '.__call__')
    calls = [c for c in calls_in(dec.node) if (call_name(c) or '').split('.')[-1] == 'build_boh']
    need(calls, 'decoder does not call build_boh')
    for c in calls:
        kw = next((k.value for k in c.keywords if k.arg == 'lm_weight'), c.args[3] if len(c.args) > 3 else None)
        ok = kw is not None and isinstance(kw, ast.Attribute) and kw.attr == '_lm_scale'
        chk.ob('PAIR', dec, c, 'the LM scale archived in the bag is the decoder\'s own', ok,
               'lm_weight argument: %s' % (src(kw) if kw is not None else 'missing (defaults to 1.0)'), construct='build_boh lm_weight')
    bb = repo.func(dc.D + ':build_boh')
    ctor = [c for c in calls_in(bb.node) if (call_name(c) or '') == 'BagOfHypotheses']
    ok = bool(ctor) and all((c.args and isinstance(c.args[0], ast.Name) and c.args[0].id == 'lm_weight') or
                            any(k.arg == 'lm_weight' and isinstance(k.value, ast.Name) and k.value.id == 'lm_weight' for k in c.keywords) for c in ctor)
    chk.ob('PAIR', bb, ctor[0] if ctor else bb.node, 'build_boh hands its lm_weight to the bag', ok, construct='BagOfHypotheses(lm_weight)')
    init = repo.func(B + ':BagOfHypotheses.__init__')
    ok = any(isinstance(s, ast.Assign) and isinstance(s.targets[0], ast.Attribute) and s.targets[0].attr == 'lm_weight' and
             isinstance(s.value, ast.Name) and s.value.id == 'lm_weight' for s in walk_shallow(init.node))
    chk.ob('PAIR', init, init.node, 'the bag stores the weight it was given', ok, construct='self.lm_weight = lm_weight')
    # add(): transcript, visual, lm stored in the matching namedtuple fields
    add = repo.func(B + ':BagOfHypotheses.add')
    hyp = [c for c in calls_in(add.node) if call_name(c) == 'Hypothese']
    params = [p for p in add.params if p != 'self']
    ok = bool(hyp) and [a.id for a in hyp[0].args if isinstance(a, ast.Name)] == params[:3]
    chk.ob('PAIR', add, hyp[0] if hyp else add.node, 'add() stores (transcript, visual, lm) in that field order', ok, construct='Hypothese field order')
    # build_boh passes (prefix, P_prefix, P_lm) in that order
    adds = [c for c in ast.walk(bb.node) if isinstance(c, ast.Call) and isinstance(c.func, ast.Attribute) and c.func.attr == 'add']
    ok = True
    for c in adds:
        if len(c.args) == 3:
            pm = {}
            for l in ast.walk(bb.node):
                if isinstance(l, ast.For) and any(x is c for x in ast.walk(l)) and isinstance(l.iter, ast.Call) and dotted(l.iter.func) == 'zip':
                    for t, a in zip(l.target.elts, l.iter.args):
                        pm[t.id] = src(a)
            got = [pm.get(a.id) if isinstance(a, ast.Name) else None for a in c.args]
            want = bb.params[:3]
            ok = ok and all(g is None or g == w for g, w in zip(got, want)) and got[0] == want[0] and got[1] == want[1]
    chk.ob('PAIR', bb, bb.node, 'build_boh pairs prefixes / visual scores / LM scores positionally', ok and bool(adds), construct='build_boh zip order')


def call_effects(repo, chk):
    fi = repo.func(dc.DEC + '.__call__')
    tmpl = template_func(dc.ref_source(), '__call__')
    from .c02 import is_lm
    helper = HelperInliner(fi)
    have = effects(fi, helper=helper)
    keys = [e.key for e in have]
    for e in effects(tmpl, helper=helper):
        if not is_lm(e):
            continue
        ok = e.key in keys
        near = [h for h in have if h.kind == e.kind and h.key != e.key]
        chk.ob('RECUR', fi, near[0].node if (not ok and near) else fi.node, 'decoder LM step: ' + e.show()[:160], ok,
               '' if ok else 'no statement of __call__ has this effect; same-kind effects found: ' + ' || '.join(h.show()[:200] for h in near[:3]),
               construct='effect ' + e.show()[:120])


def cdep(repo, chk):
    fi = repo.func(dc.DEC + '.__call__')
    cfg = fi.cfg
    eos = [c for c in ast.walk(fi.node) if isinstance(c, ast.Call) and isinstance(c.func, ast.Attribute) and c.func.attr == 'eos_scores']
    need(eos, 'no eos_scores call in the decoder')
    for c in eos:
        nid = cfg.node_of(c)
        facts = cfg.facts_at(nid)
        ok = any(isinstance(t, ast.Name) and t.id == 'model_eos' and pol is True for t, pol, _ in facts)
        chk.ob('CDEP', fi, c, 'end-of-line score is added only when model_eos is requested', ok, construct='eos under model_eos')


def sibling(repo, chk):
    # best_hyp's ranking key == the per-hypothesis total of total_scores (modulo the None-LM fallback)
    ts = repo.func(B + ':BagOfHypotheses.total_scores')
    bh = repo.func(B + ':BagOfHypotheses.best_hyp')
    comp = [n for n in ast.walk(ts.node) if isinstance(n, ast.ListComp)]
    need(comp, 'total_scores has no list comprehension')
    tot = comp[0].elt
    var = comp[0].generators[0].target.id
    key = None
    for c in ast.walk(bh.node):
        if isinstance(c, ast.Call) and dotted(c.func) in ('max', 'sorted', 'min'):
            for k in c.keywords:
                if k.arg == 'key' and isinstance(k.value, ast.Lambda):
                    key = (c, k.value)
    need(key is not None, 'best_hyp has no max(..., key=lambda ...)')
    c, lam = key
    chk.ob('SIBLING', bh, c, 'best hypothesis is the arg-MAX of the total score', dotted(c.func) == 'max', construct='best_hyp uses max')
    # compare with IfExp removed (lm_sc None -> 0)
    import copy

    class Strip(ast.NodeTransformer):
        def visit_IfExp(self, n):
            return self.visit(n.body)
    body = Strip().visit(copy.deepcopy(lam.body))
    a = canon(body, rename={lam.args.args[0].arg: 'H'})
    b = canon(tot, rename={var: 'H'})
    chk.ob('SIBLING', bh, lam, 'best_hyp ranks by the same total as total_scores / posteriors / confidence', a == b,
           'best_hyp key %s vs total_scores %s' % (src(lam.body), src(tot)), construct='best_hyp key = total score')
    # confidence = exp(max(posteriors)); posteriors normalise the totals by their logsumexp
    post = repo.func(B + ':BagOfHypotheses.posteriors')
    t = ' '.join(src(post.node).split())
    ok = 'logsumexp(' in t and 'self.total_scores()' in t
    chk.ob('SIBLING', post, post.node, 'posteriors are the totals minus their logsumexp', ok, construct='posteriors from total_scores')
    conf = repo.func(B + ':BagOfHypotheses.confidence')
    t = ' '.join(src(conf.node).split())
    chk.ob('SIBLING', conf, conf.node, 'bag confidence = exp(max posterior): the posterior of best_hyp', 'max(' in t and 'exp(' in t and 'posteriors()' in t,
           construct='confidence = exp(max(posteriors))')
    # returned LM state: argmax over vis + scale*lm (checked by SCALE) and arg-MAX not arg-min
    dec = repo.func(dc.DEC + '.__call__')
    am = [c for c in ast.walk(dec.node) if isinstance(c, ast.Call) and (call_name(c) or '').split('.')[-1] in ('argmax', 'argmin')]
    chk.ob('SIBLING', dec, am[0] if am else dec.node, 'returned LM state belongs to the arg-max hypothesis', bool(am) and all((call_name(c) or '').endswith('argmax') for c in am),
           construct='idx_of_best argmax')
