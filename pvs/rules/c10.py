"""C10 - line crops sample the band around the baseline, on every code path (structural clauses)."""
import ast

from ..core import call_name, dotted, src, walk_shallow, is_const, linear, parents_map
from ..lib import Rules, Soft, need, calls_in
from . import refcheck

C = 'pero_ocr.core.crop_engine'
WHAT = {
    'crop': 'crop inputs + remap; ANY failure falls back to a blank crop of the configured height',
    'get_crop_inputs': 'rotate into the baseline frame (inv(R)), interpolate, resample along the arc, normals, band from -ascender to +descender with target_height rows, rotate back (R)',
    'reverse_line_mapping': 'linear interpolation of the sampled values at the requested arc positions',
    'fast_remap': 'sub-image [min, max+1] taken with floor/ceil bounds, coordinates shifted by the same origin, same remap options as the general path',
    'lc_process_page': 'every line is cropped; a ValueError falls back to a blank square of the configured height',
}


def run(repo, chk):
    chk.explanation = ('DOMAIN: every interpolant that may be partial (interp1d without extrapolation) is evaluated only on in-range arguments; '
                       'GUARD: the fall-backs are catch-all and have the configured height; PAIR: sub-image origin = subtracted shift per axis, '
                       'same remap options on both paths, inv(R) on the way in and R on the way out. Functions equal their reference forms.')
    chk.note_undecided('pixel equality of the fast and general paths', 'perpendicular normals, uniform advance along the arc (geometry values)')
    R = Rules(repo, chk)
    refcheck.run_all(R, repo, chk, 'RECUR', 'crop_ref.py', WHAT)
    G = [C + ':EngineLineCropper.get_crop_inputs']
    R.run('DOMAIN', domain, repo, Soft(chk), soft_for=G)
    R.run('GUARD', guard, repo, Soft(chk), soft_for=G + [C + ':EngineLineCropper.crop'])
    R.run('PAIR', pair, repo, Soft(chk), soft_for=G + [C + ':EngineLineCropper.fast_remap'])
    chk.expect('RECUR', 8)
    chk.expect('DOMAIN', 3)
    chk.expect('GUARD', 4)
    chk.expect('PAIR', 6)


def domain(repo, chk):
    fi = repo.func(C + ':EngineLineCropper.get_crop_inputs')
    flow = fi.flow
    # interpolant variables and their possible kinds
    interp = {}
    for ds in flow.defs_at.values():
        for d in ds:
            if d.kind != 'assign' or d.stmt is None or d.path != ():
                continue
            val = flow.resolve(d.value, d.stmt)
            if d.name.startswith('_pvs_tmp'):
                continue
            if isinstance(val, ast.Call):
                nm = call_name(val) or ''
                if nm.endswith('poly1d'):
                    interp.setdefault(d.name, []).append(('total', d))
                elif nm.endswith('interp1d'):
                    fv = next((k.value for k in val.keywords if k.arg == 'fill_value'), None)
                    be = next((k.value for k in val.keywords if k.arg == 'bounds_error'), None)
                    total = (fv is not None and isinstance(fv, ast.Constant) and fv.value == 'extrapolate') or \
                            (be is not None and is_const(be, False) and fv is not None)
                    interp.setdefault(d.name, []).append(('total' if total else 'partial', d))
    need(interp, 'no interpolant found in get_crop_inputs')
    for name, kinds in interp.items():
        evals = [c for c in ast.walk(fi.node) if isinstance(c, ast.Call) and isinstance(c.func, ast.Name) and c.func.id == name]
        need(evals, 'interpolant %s is never evaluated' % name)
        partial = [d for k, d in kinds if k == 'partial']
        for c in evals:
            arg = c.args[0]
            # in range: np.arange(min, max) of the node array, or a convex combination thereof (reverse_line_mapping), without offset
            a = flow.inline(arg, c)
            shifted = isinstance(a, ast.BinOp) and isinstance(a.op, (ast.Add, ast.Sub)) and any(isinstance(x, ast.Constant) and isinstance(x.value, (int, float)) and x.value != 0 for x in (a.left, a.right))
            ok = not partial or not shifted
            chk.ob('DOMAIN', fi, c, 'interpolant %s (%s) is evaluated on %s' % (name, '/'.join(sorted({k for k, _ in kinds})), ' '.join(src(arg).split())), ok,
                   'a cubic interp1d without fill_value="extrapolate" raises ValueError just outside its nodes; the bare except in crop() then returns a blank crop',
                   construct='eval ' + ' '.join(src(c).split()))


def guard(repo, chk):
    fi = repo.func(C + ':EngineLineCropper.crop')
    tries = [n for n in walk_shallow(fi.node) if isinstance(n, ast.Try)]
    need(tries, 'crop() has no try block')
    t = tries[0]
    h = t.handlers[0]
    catch_all = h.type is None or (isinstance(h.type, ast.Name) and h.type.id in ('Exception', 'BaseException'))
    chk.ob('GUARD', fi, h, 'the crop fall-back catches every exception (a degenerate line never becomes an error)', catch_all and len(t.handlers) == 1,
           'handler type: %s' % (src(h.type) if h.type is not None else 'bare'), construct='catch-all handler')
    protected = {call_name(c).split('.')[-1] for c in ast.walk(ast.Module(body=t.body, type_ignores=[])) if isinstance(c, ast.Call) and call_name(c)}
    chk.ob('GUARD', fi, t, 'both the coordinate computation and the remap are inside the protected block', {'get_crop_inputs', 'fast_remap'} <= protected, construct='protected calls')
    fb = [s for s in h.body if isinstance(s, ast.Assign) and isinstance(s.value, ast.Call) and (call_name(s.value) or '').endswith('zeros')]
    ok = bool(fb) and isinstance(fb[0].value.args[0], (ast.List, ast.Tuple)) and src(fb[0].value.args[0].elts[0]) == 'self.line_height'
    chk.ob('GUARD', fi, fb[0] if fb else h, 'the fall-back crop has the configured height', ok, construct='fallback height')
    gi = [c for c in ast.walk(fi.node) if isinstance(c, ast.Call) and (call_name(c) or '').endswith('get_crop_inputs')]
    ok = bool(gi) and len(gi[0].args) >= 3 and src(gi[0].args[2]) == 'self.line_height'
    chk.ob('GUARD', fi, gi[0] if gi else fi.node, 'the crop is computed for the configured height', ok, construct='crop height argument')
    for q in ('pero_ocr.document_ocr.page_parser:LineCropper.process_page', 'pero_ocr.document_ocr.page_parser:LineCropper.crop_lines'):
        f2 = repo.func(q)
        tr = [n for n in walk_shallow(f2.node) if isinstance(n, ast.Try)]
        ok = bool(tr)
        if ok:
            z = [c for c in ast.walk(tr[0].handlers[0]) if isinstance(c, ast.Call) and (call_name(c) or '').endswith('zeros')]
            ok = bool(z) and src(z[0].args[0].elts[0]) == 'self.crop_engine.line_height'
        chk.ob('GUARD', f2, tr[0] if tr else f2.node, 'LineCropper fall-back has the configured height', ok, construct='LineCropper fallback ' + f2.name)
    g = repo.func(C + ':EngineLineCropper.get_crop_inputs')
    vm = [c for c in ast.walk(g.node) if isinstance(c, ast.Call) and (call_name(c) or '').endswith('linspace') and 'line_heights' in src(c)]
    need(vm, 'vertical linspace not found')
    a = vm[0].args
    ok = len(a) >= 3 and ' '.join(src(a[0]).split()) == '-line_heights[0]' and ' '.join(src(a[1]).split()) == 'line_heights[1]' and src(a[2]) == g.params[3]
    chk.ob('GUARD', g, vm[0], 'rows run from -ascender to +descender in target_height steps', ok, construct='vertical band')


def pair(repo, chk):
    g = repo.func(C + ':EngineLineCropper.get_crop_inputs')
    dots = [c for c in ast.walk(g.node) if isinstance(c, ast.Call) and (call_name(c) or '') == 'np.dot']
    need(len(dots) == 2, 'expected two rotations (np.dot) in get_crop_inputs')
    first, second = sorted(dots, key=lambda c: c.lineno)
    ok = 'np.linalg.inv(R)' in src(first.args[1]) and src(second.args[1]) == 'R'
    chk.ob('PAIR', g, second, 'rotation into the baseline frame uses inv(R), the way back uses R', ok, construct='rotation pair')
    sc = [s for s in walk_shallow(g.node) if isinstance(s, ast.Assign) and isinstance(s.targets[0], ast.Name) and s.targets[0].id == 'horizontal_sample_count']
    ok = bool(sc) and 'mapping_x_to_line_pos[-1] * scale' in ' '.join(src(sc[0].value).split())
    s2 = [s for s in walk_shallow(g.node) if isinstance(s, ast.Assign) and isinstance(s.targets[0], ast.Name) and s.targets[0].id == 'scale']
    ok = ok and bool(s2) and ' '.join(src(s2[0].value).split()) == 'target_height / (line_heights[0] + line_heights[1])'
    chk.ob('PAIR', g, sc[0] if sc else g.node, 'sample count = arc length x target height / (scaled ascender + descender)', ok, construct='sample count')
    fr = repo.func(C + ':EngineLineCropper.fast_remap')
    t = ' '.join(src(fr.node).split())
    sub = [n for n in ast.walk(fr.node) if isinstance(n, ast.Subscript) and isinstance(n.slice, ast.Tuple) and len(n.slice.elts) == 2 and all(isinstance(e, ast.Slice) for e in n.slice.elts)
           and isinstance(n.value, ast.Name) and n.value.id == fr.params[1]]
    need(sub, 'sub-image slice not found in fast_remap')
    ys, xs = sub[0].slice.elts
    ok = src(ys.lower) == 'y_min' and src(xs.lower) == 'x_min' and linear(ys.upper) == linear(ast.parse('y_max + 1', mode='eval').body) and linear(xs.upper) == linear(ast.parse('x_max + 1', mode='eval').body)
    chk.ob('PAIR', fr, sub[0], 'the sub-image is img[y_min : y_max + 1, x_min : x_max + 1] (rows = y, columns = x)', ok, construct='sub-image slice')
    shifts = {}
    for s in walk_shallow(fr.node):
        if isinstance(s, ast.Assign) and isinstance(s.value, ast.BinOp) and isinstance(s.value.op, ast.Sub) and isinstance(s.value.left, ast.Subscript) and isinstance(s.value.right, ast.Name):
            comp = s.value.left.slice.elts[-1].value if isinstance(s.value.left.slice, ast.Tuple) and isinstance(s.value.left.slice.elts[-1], ast.Constant) else None
            shifts[comp] = s.value.right.id
    chk.ob('PAIR', fr, fr.node, 'x coordinates (component 0) are shifted by x_min, y coordinates (component 1) by y_min', shifts == {0: 'x_min', 1: 'y_min'},
           'shifts %s' % shifts, construct='shift per axis')
    mins = {}
    for s in walk_shallow(fr.node):
        if isinstance(s, ast.Assign) and isinstance(s.targets[0], ast.Name) and s.targets[0].id in ('x_min', 'x_max', 'y_min', 'y_max'):
            tt = ' '.join(src(s.value).split())
            comp = 0 if 'coords[:, :, 0]' in tt else 1 if 'coords[:, :, 1]' in tt else None
            fn = 'floor' if 'np.floor' in tt else 'ceil' if 'np.ceil' in tt else None
            ag = 'amin' if 'np.amin' in tt or 'np.min' in tt else 'amax' if 'np.amax' in tt or 'np.max' in tt else None
            mins[s.targets[0].id] = (comp, fn, ag)
    want = {'x_min': (0, 'floor', 'amin'), 'x_max': (0, 'ceil', 'amax'), 'y_min': (1, 'floor', 'amin'), 'y_max': (1, 'ceil', 'amax')}
    chk.ob('PAIR', fr, fr.node, 'bounds are floor(min) / ceil(max) of the whole coordinate array per axis', mins == want, 'found %s' % mins, construct='bounds')
    remaps = [c for c in ast.walk(fr.node) if isinstance(c, ast.Call) and (call_name(c) or '') == 'cv2.remap']
    need(len(remaps) == 2, 'expected two cv2.remap calls')
    opts = [{k.arg: src(k.value) for k in c.keywords} for c in remaps]
    chk.ob('PAIR', fr, remaps[1], 'both paths use the same interpolation and border mode', opts[0] == opts[1], '%s vs %s' % (opts[0], opts[1]), construct='remap options')
    test = [n for n in walk_shallow(fr.node) if isinstance(n, ast.If)]
    tt = ' '.join(src(test[0].test).split()) if test else ''
    ok = 'x_min < 0' in tt and 'y_min < 0' in tt and 'x_max > img.shape[1] - 1' in tt and 'y_max > img.shape[0] - 1' in tt
    chk.ob('PAIR', fr, test[0] if test else fr.node, 'the fast path is taken only when the box lies inside the image (x against shape[1], y against shape[0])', ok, construct='inside test')
