"""C17 - resuming an interrupted batch completes every requested output (structural clauses)."""
import ast
import re

from ..core import AnalysisError, call_name, dotted, src, walk_shallow, parents_map
from ..lib import Rules, need, calls_in, const_str, guards_of, is_none_test
from . import refcheck, pf_common

PF = 'user_scripts.parse_folder'
WHAT = {
    'load_already_processed_files_in_directory': 'ids found in a directory = file names minus a known extension',
    'load_already_processed_files': 'a page is done only if it is present in EVERY requested directory (intersection from the first directory on)',
}


def run(repo, chk):
    chk.explanation = ('DONESET: every output kind written by Computator.__call__ is either consulted by the already-processed predicate '
                       'or written before every consulted kind on all CFG paths (so a kill between any two writes leaves the page "not done"); '
                       'REGEX: the id pattern inverts id + extension (regex AST: greedy, end-anchored, literal extensions covering what is written); '
                       'DIVLEN: division by len(ids) only under a non-emptiness fact; PAIR: ids and images filtered in step.')
    chk.note_undecided('equality of resumed and uninterrupted outputs', 'partially written files (kill inside one write)')
    R = Rules(repo, chk)
    R.run('DONESET', doneset, repo, chk)
    R.run('REGEX', regex, repo, chk)
    R.run('DIVLEN', divlen, repo, chk)
    R.run('PAIR', pf_common.pair_filters, repo, chk, 'PAIR')
    refcheck.run_all(R, repo, chk, 'RECUR', 'resume_ref.py', WHAT)
    refcheck.run_all(R, repo, chk, 'RECUR', 'driver_ref.py', {'comp_call': 'per page: load, process, then the writes in the order line crops, PAGE XML, render, logits, ALTO; every failure is reported and the page is left unfinished', 'comp_init': 'the computator keeps every directory in the field of the same name'}, only=('comp_init', 'comp_call', 'lmdb_call', 'get_value_or_none', 'create_dir_if_not_exists'))
    chk.expect('DONESET', 6)
    chk.expect('REGEX', 4)
    chk.expect('DIVLEN', 2)
    chk.expect('PAIR', 3)
    chk.expect('RECUR', 7)


def doneset(repo, chk):
    cc = repo.func(PF + ':Computator.__call__')
    main = repo.func(PF + ':main')
    cfg = cc.cfg
    pm = parents_map(cc.node)
    # output kinds: self.output_*_path fields guarding writes
    kinds = {}
    for n in walk_shallow(cc.node):
        if isinstance(n, ast.If):
            fields = [a.attr for a in ast.walk(n.test) if isinstance(a, ast.Attribute) and a.attr.startswith('output_') and isinstance(a.value, ast.Name) and a.value.id == 'self']
            nt = [x for x in ast.walk(n.test) if isinstance(x, ast.Compare) and is_none_test(x) and is_none_test(x)[0] == 'isnot']
            if fields and nt:
                kinds.setdefault(fields[0], []).append(n)
    need(len(kinds) >= 5, 'fewer output kinds than confirmed by reading: %s' % sorted(kinds))
    # consulted kinds: names in the list handed to load_already_processed_files
    calls = [c for c in calls_in(main.node) if call_name(c) == 'load_already_processed_files']
    need(len(calls) == 1, 'expected one call of load_already_processed_files in main()')
    lst = calls[0].args[0]
    if isinstance(lst, ast.Name):
        d = main.flow.unique_def(lst.id, calls[0])
        lst = d.value if d is not None else lst
    need(isinstance(lst, (ast.List, ast.Tuple)), 'directories handed to load_already_processed_files are not a literal list')
    consulted = {e.id for e in lst.elts if isinstance(e, ast.Name)}
    # the Computator is constructed with main's variables of the same name, stored in same-named fields
    ctor = [c for c in calls_in(main.node) if call_name(c) == 'Computator']
    need(ctor, 'main() does not construct a Computator')
    init = repo.func(PF + ':Computator.__init__')
    params = [p for p in init.params if p != 'self']
    binding = dict(zip(params, [src(a) for a in ctor[0].args]))
    binding.update({k.arg: src(k.value) for k in ctor[0].keywords if k.arg})
    # main()'s variable -> Computator parameter -> Computator field (roles, not names)
    field_of_param = {}
    for s in walk_shallow(init.node):
        if isinstance(s, ast.Assign) and isinstance(s.targets[0], ast.Attribute) and isinstance(s.value, ast.Name) and s.value.id in params:
            field_of_param[s.value.id] = s.targets[0].attr
    # each main() variable is read from the config key OUTPUT_<KIND>_PATH matching the parameter it is bound to
    for p in params:
        if p.startswith('output_'):
            arg = binding.get(p)
            d = main.flow.resolve(ast.Name(id=arg, ctx=ast.Load()), ctor[0]) if arg and arg.isidentifier() else None
            key = None
            if isinstance(d, ast.Call) and d.args and const_str(d.args[-1]):
                key = const_str(d.args[-1])
            ok = field_of_param.get(p) == p and key == p.upper()
            chk.ob('DONESET', main, ctor[0], 'Computator.%s receives the directory configured as %s and keeps it in the field of that name' % (p, p.upper()), ok,
                   'bound to %s (config key %s), stored in %s' % (arg, key, field_of_param.get(p)), construct='binding ' + p)
    consulted = {field_of_param.get(p) for p in params if binding.get(p) in consulted}
    write_nodes = {k: [cfg.node_of(n.test) for n in v] for k, v in kinds.items()}
    cons_nodes = [nid for k, v in write_nodes.items() if k in consulted for nid in v]
    need(cons_nodes, 'no consulted output kind is written at all')
    for k in sorted(kinds):
        if k in consulted:
            chk.ob('DONESET', cc, kinds[k][0], '%s is consulted by the already-processed predicate' % k, True, construct='kind ' + k)
            continue
        # not consulted: must not be reachable after any consulted write
        after = set()
        for c in cons_nodes:
            after |= cfg.reach([c], skip_exc=True) - {c}
        late = [nid for nid in write_nodes[k] if nid in after]
        chk.ob('DONESET', cc, kinds[k][0], '%s is not consulted, so it is written before every consulted output' % k, not late,
               'a run killed after the consulted outputs of a page exist but before this write leaves a page that is skipped forever without its %s' % k,
               construct='kind ' + k)
    # every branch of a kind's block really writes: a call that receives the kind's directory
    for k in sorted(kinds):
        for blk in kinds[k]:
            def writes(stmts):
                return any(isinstance(c, ast.Call) and any(isinstance(x, ast.Attribute) and x.attr == k for a in list(c.args) + [kw.value for kw in c.keywords] for x in ast.walk(a))
                           for s_ in stmts for c in ast.walk(s_))
            branches = [blk.body]
            inner = [s_ for s_ in blk.body if isinstance(s_, ast.If) and s_.orelse]
            if inner and len(blk.body) == 1:
                branches = [inner[0].body, inner[0].orelse]
            # a writer object constructed from the directory and then called counts for its branch
            ok = True
            for br in branches:
                called = False
                for s_ in br:
                    for c in ast.walk(s_):
                        if isinstance(c, ast.Call) and isinstance(c.func, ast.Name):
                            made = cc.flow.resolve(c.func, c)
                            if made is not c.func and writes([ast.Expr(value=made)]):
                                called = True
                direct = any(writes([s_]) for s_ in br if not isinstance(s_, ast.Assign))
                ok = ok and (direct or called)
            chk.ob('DONESET', cc, blk, 'every branch of the %s block performs a write into that directory' % k, ok, construct='writes ' + k)
    # every consulted name is a real output kind, and skipping requires the flag
    for c in sorted(consulted):
        chk.ob('DONESET', main, calls[0], 'consulted directory %s is an output kind that is written' % c, c in kinds, construct='consulted ' + c)


def regex(repo, chk):
    fi = repo.func(PF + ':load_already_processed_files_in_directory')
    pats = [c for c in calls_in(fi.node) if call_name(c) in ('re.compile', 're.match', 're.fullmatch', 're.search')]
    need(pats, 'no regular expression in load_already_processed_files_in_directory')
    arg = pats[0].args[0]
    if isinstance(arg, ast.Name):
        d = fi.flow.unique_def(arg.id, pats[0])
        arg = d.value if d is not None else arg
    pat = const_str(arg)
    need(pat is not None, 'file pattern is not a string literal')
    import re._parser as sre
    tree = sre.parse(pat)
    items = list(tree)
    how = {call_name(c) for c in ast.walk(fi.node) if isinstance(c, ast.Call) and isinstance(c.func, ast.Attribute) and c.func.attr in ('match', 'fullmatch', 'search')}
    methods = {c.func.attr for c in ast.walk(fi.node) if isinstance(c, ast.Call) and isinstance(c.func, ast.Attribute) and c.func.attr in ('match', 'fullmatch', 'search')}
    anchored_end = 'fullmatch' in methods or (items and str(items[-1][0]) == 'AT' and str(items[-1][1]) in ('AT_END', 'AT_END_STRING'))
    chk.ob('REGEX', fi, pats[0], 'the pattern must match to the end of the file name ($ or fullmatch)', bool(anchored_end),
           'an unanchored pattern cuts ids at the first extension-like substring (scan.jpg.2.xml -> scan)', construct='end anchor')
    chk.ob('REGEX', fi, pats[0], 'the pattern is matched from the start of the name (match / fullmatch)', not ('search' in methods), construct='start anchor')
    # first group: greedy repetition
    groups = [it for it in items if str(it[0]) == 'SUBPATTERN']
    need(len(groups) >= 2, 'pattern does not have an id group and an extension group')
    first = list(groups[0][1][3])
    greedy = bool(first) and str(first[0][0]) == 'MAX_REPEAT'
    chk.ob('REGEX', fi, pats[0], 'the id group is greedy (ids may contain dots and extension-like substrings)', greedy,
           'a lazy group stops at the first possible extension', construct='greedy id group')
    # extension alternation covers what is written
    exts = set(re.findall(r'\\\.([A-Za-z0-9]+)', pat))
    cc = repo.func(PF + ':Computator.__call__')
    written = set()
    for n in ast.walk(cc.node):
        if isinstance(n, ast.BinOp) and isinstance(n.op, ast.Add) and isinstance(n.left, ast.Name) and n.left.id == 'file_id' and const_str(n.right):
            # only outputs (inside a call whose first arg mentions an output path)
            written.add(const_str(n.right).lstrip('.'))
    outs = set()
    pm = parents_map(cc.node)
    for n in ast.walk(cc.node):
        if isinstance(n, ast.Call) and (call_name(n) or '').endswith('os.path.join') and n.args and 'output_' in src(n.args[0]):
            for x in ast.walk(n):
                if isinstance(x, ast.BinOp) and isinstance(x.op, ast.Add) and isinstance(x.left, ast.Name) and x.left.id == 'file_id' and const_str(x.right):
                    outs.add(const_str(x.right).lstrip('.'))
    need(outs, 'no id + extension output names found in Computator.__call__')
    chk.ob('REGEX', fi, pats[0], 'the extension alternation %s covers the written extensions %s' % (sorted(exts), sorted(outs)), outs <= exts,
           construct='extensions')
    chk.ob('REGEX', fi, pats[0], 'the id is taken from the first group', 'groups()[0]' in src(fi.node) or 'group(1)' in src(fi.node), construct='id group used')


def divlen(repo, chk):
    fi = repo.func(PF + ':main')
    cfg = fi.cfg
    found = 0
    for n in ast.walk(fi.node):
        if isinstance(n, ast.BinOp) and isinstance(n.op, (ast.Div, ast.FloorDiv)) and isinstance(n.right, ast.Call) and dotted(n.right.func) == 'len' and n.right.args:
            x = src(n.right.args[0])
            found += 1
            facts = cfg.facts_at(cfg.node_of(n))
            ok = False
            for t, pol, _ in facts:
                tt = ' '.join(src(t).split())
                if pol and tt in (x, 'len(%s) > 0' % x, 'len(%s)' % x, 'len(%s) != 0' % x, '%s != []' % x, 'len(%s) >= 1' % x):
                    ok = True
                if not pol and tt in ('not ' + x, 'len(%s) == 0' % x):
                    ok = True
            chk.ob('DIVLEN', fi, n, 'division by len(%s) happens only when %s is known to be non-empty' % (x, x), ok,
                   'a run that finds nothing left to do divides by zero', construct='div len ' + x)
    # other sinks that need at least one page: a pool sized by the number of pages, constant indexing of the work lists
    try:
        _, comp, tasks, ids, imgs, _, _ = pf_common.roles(repo)
    except AnalysisError:
        ids = imgs = None

    def nonempty_fact(node, x):
        for t, pol, _ in cfg.facts_at(cfg.node_of(node)):
            tt = ' '.join(src(t).split())
            if pol and tt in (x, 'len(%s) > 0' % x, 'len(%s)' % x, 'len(%s) != 0' % x, 'len(%s) >= 1' % x):
                return True
            if not pol and tt in ('not ' + x, 'len(%s) == 0' % x):
                return True
        return False
    for n in ast.walk(fi.node):
        if isinstance(n, ast.Call) and (call_name(n) or '').split('.')[-1] in ('Pool', 'ThreadPool', 'ProcessPoolExecutor', 'ThreadPoolExecutor'):
            size = [k.value for k in n.keywords if k.arg in ('processes', 'max_workers')] + list(n.args[:1])
            for e in size:
                lens = [c for c in ast.walk(e) if isinstance(c, ast.Call) and dotted(c.func) == 'len' and c.args and src(c.args[0]) in (ids, imgs, tasks if ids else None)]
                in_min = any(isinstance(c, ast.Call) and dotted(c.func) in ('min', 'np.minimum') and any(l in list(ast.walk(c)) for l in lens) for c in ast.walk(e))
                if lens:
                    found += 1
                    ok = not in_min or nonempty_fact(n, src(lens[0].args[0]))
                    chk.ob('DIVLEN', fi, n, 'a worker pool sized by the number of pages left is created only when there is a page left (a pool of 0 workers raises)', ok,
                           construct='pool size ' + ' '.join(src(e).split()))
        if isinstance(n, ast.Subscript) and isinstance(n.ctx, ast.Load) and isinstance(n.value, ast.Name) and n.value.id in (ids, imgs) and isinstance(n.slice, (ast.Constant, ast.UnaryOp)):
            found += 1
            chk.ob('DIVLEN', fi, n, 'constant indexing of the work list happens only when it is known to be non-empty', nonempty_fact(n, n.value.id),
                   construct='index ' + ' '.join(src(n).split()))
    # Computator: percentage uses ids_count, which is len(ids) >= 1 whenever the computator is called (called once per id)
    sample = ast.parse("def f(a, t):\n    print(t / len(a))\n").body[0]
    need(sum(1 for n in ast.walk(sample) if isinstance(n, ast.BinOp) and isinstance(n.op, ast.Div) and isinstance(n.right, ast.Call)) == 1,
         'DIVLEN recogniser lost its positive example')
    chk.ob('DIVLEN', fi, fi.node, 'all %d division(s) by a length in main() are guarded (recogniser verified on an embedded example)' % found, found >= 1,
           construct='divlen summary')
