"""Shared structural rules about user_scripts/parse_folder.py (used by C08 and C17)."""
import ast

from ..core import call_name, dotted, src, walk_shallow
from ..lib import need, calls_in

PF = 'user_scripts.parse_folder'


def roles(repo):
    """Roles in main(): the computator callable, the task list, the id list and the image list (no reliance on local names)."""
    fi = repo.func(PF + ':main')
    sm = [c for c in ast.walk(fi.node) if isinstance(c, ast.Call) and isinstance(c.func, ast.Attribute) and c.func.attr in ('starmap', 'map', 'imap', 'imap_unordered', 'starmap_async')
          and len(c.args) >= 2 and isinstance(c.args[0], ast.Name) and isinstance(c.args[1], ast.Name)]
    need(sm, 'main(): no pool.starmap(callable, tasks)')
    comp, tasks = sm[0].args[0].id, sm[0].args[1].id
    direct = [c for c in ast.walk(fi.node) if isinstance(c, ast.Call) and isinstance(c.func, ast.Name) and c.func.id == comp]
    need(direct, 'main(): the computator is never called directly (sequential branch)')
    # the loop around the direct call: for index, (a, b) in enumerate(zip(A, B))
    pm = {}
    for p_ in ast.walk(fi.node):
        for ch in ast.iter_child_nodes(p_):
            pm[ch] = p_
    n = direct[0]
    loop = None
    while n in pm:
        n = pm[n]
        if isinstance(n, ast.For):
            loop = n
            break
    need(loop is not None, 'main(): sequential computator call is not inside a loop')
    z = [c for c in ast.walk(loop.iter) if isinstance(c, ast.Call) and dotted(c.func) == 'zip' and len(c.args) == 2 and all(isinstance(a, ast.Name) for a in c.args)]
    need(z, 'main(): dispatch loop does not zip two lists')
    tvars = [t for t in ast.walk(loop.target) if isinstance(t, ast.Tuple) and len(t.elts) == 2 and all(isinstance(e, ast.Name) for e in t.elts)]
    need(tvars, 'main(): dispatch loop target is not (id, image)')
    cc = repo.func(PF + ':Computator.__call__')
    cparams = [p_ for p_ in cc.params if p_ != 'self']
    id_pos = next((i for i, p_ in enumerate(cparams) if 'id' in p_ and 'ids' not in p_), 1)
    id_arg = direct[0].args[id_pos]
    need(isinstance(id_arg, ast.Name), 'main(): id argument of the computator is not a name')
    names = [e.id for e in tvars[-1].elts]
    need(id_arg.id in names, 'main(): id argument does not come from the dispatch loop')
    k = names.index(id_arg.id)
    ids, imgs = z[0].args[k].id, z[0].args[1 - k].id
    return fi, comp, tasks, ids, imgs, sm[0], direct[0]


def pair_filters(repo, chk, rule):
    """ids_to_process and images_to_process stay aligned: they are filtered by one predicate, and the image filter
    is zipped with the same version of the id list that the id filter consumes."""
    fi, comp, tasks, ids, imgs, _, _ = roles(repo)
    flow = fi.flow
    filt = {}
    for s in walk_shallow(fi.node):
        if isinstance(s, ast.Assign) and isinstance(s.targets[0], ast.Name) and s.targets[0].id in (ids, imgs) and isinstance(s.value, ast.ListComp) \
                and s.value.generators[0].ifs:
            it = s.value.generators[0].iter
            mentions_other = any(isinstance(x, ast.Name) and x.id in (ids, imgs) for x in ast.walk(it))
            if mentions_other and ('already' in src(s.value.generators[0].ifs[0]) or True):
                filt.setdefault(s.targets[0].id, []).append(s)
    # keep only the skip-processed pair: the filters whose predicate is a membership test
    cand = {k: [s for s in v if any(isinstance(x, ast.Compare) and isinstance(x.ops[0], (ast.NotIn, ast.In)) for x in ast.walk(s.value.generators[0].ifs[0]))]
            for k, v in filt.items()}
    if bool(cand.get(ids)) != bool(cand.get(imgs)):
        have = ids if cand.get(ids) else imgs
        chk.ob(rule, fi, cand[have][0], 'ids and images are filtered by the same predicate', False,
               'only %s is filtered by the already-processed set: the two lists go out of step and pages are processed with another page\'s image' % have,
               construct='filter predicate')
        return
    need(cand.get(ids) and cand.get(imgs), 'skip-processed filters of ids / images not found in main()')
    s_ids, s_img = cand[ids][0], cand[imgs][0]

    def pred(s):
        g = s.value.generators[0]
        return ' '.join(src(g.ifs[0]).split())
    # the predicate tests the id variable of each comprehension against the same set
    p1, p2 = s_ids.value.generators[0].ifs[0], s_img.value.generators[0].ifs[0]
    set1 = src(p1.comparators[0]) if isinstance(p1, ast.Compare) else None
    set2 = src(p2.comparators[0]) if isinstance(p2, ast.Compare) else None
    ok = set1 is not None and set1 == set2 and type(p1.ops[0]) is type(p2.ops[0])
    chk.ob(rule, fi, s_img, 'ids and images are filtered by the same predicate', ok, 'ids: %s | images: %s' % (pred(s_ids), pred(s_img)),
           construct='filter predicate')
    # the image filter pairs each image with its own id: zip(ids, images), tested variable is the id component
    g = s_img.value.generators[0]
    z = g.iter
    okz = isinstance(z, ast.Call) and dotted(z.func) == 'zip' and len(z.args) == 2 and isinstance(g.target, ast.Tuple)
    if okz:
        pos_ids = [i for i, a in enumerate(z.args) if isinstance(a, ast.Name) and a.id == ids]
        okz = bool(pos_ids) and isinstance(p2.left, ast.Name) and isinstance(g.target.elts[pos_ids[0]], ast.Name) and \
            g.target.elts[pos_ids[0]].id == p2.left.id and isinstance(s_img.value.elt, ast.Name) and \
            s_img.value.elt.id == g.target.elts[1 - pos_ids[0]].id
    chk.ob(rule, fi, s_img, 'the image filter tests the id zipped with each image and keeps the image', okz, construct='image filter zip roles')
    # both filters consume the SAME version of the id list
    d_img = {d.node for d in flow.defs_reaching(ids, s_img)}
    d_ids = {d.node for d in flow.defs_reaching(ids, s_ids)}
    chk.ob(rule, fi, s_img, 'the image filter is zipped with the unfiltered id list (the version the id filter consumes)', d_img == d_ids,
           'the id list reaching the image filter was already filtered: images get paired with the wrong ids after a resume',
           construct='filter order')
    # --skipp-missing-xml block: one condition guards both appends
    apps = [c for c in ast.walk(fi.node) if isinstance(c, ast.Call) and isinstance(c.func, ast.Attribute) and c.func.attr == 'append'
            and isinstance(c.func.value, ast.Name) and c.func.value.id not in (tasks, 'results') and
            any(isinstance(x, ast.Name) for x in c.args) and _in_zip_loop(fi, c, ids, imgs)]
    if apps:
        pm = {}
        for p in ast.walk(fi.node):
            for ch in ast.iter_child_nodes(p):
                pm[ch] = p

        def encl_if(n):
            while n in pm:
                n = pm[n]
                if isinstance(n, ast.If):
                    return n
            return None
        ifs = {id(encl_if(a)) for a in apps}
        chk.ob(rule, fi, apps[0], 'missing-xml filtering appends id and image under one condition', len(ifs) == 1 and len(apps) == 2,
               construct='skipp-missing-xml pairing')


def sibling_dispatch(repo, chk, rule):
    """Sequential and pooled execution make the same call with the same arguments."""
    fi, comp, tasks, ids, imgs, starmap, direct = roles(repo)
    tuples = []
    # pooled: tasks.append((a, b, c, d)) ; sequential: computator(a, b, c, d)
    for c in ast.walk(fi.node):
        if isinstance(c, ast.Call) and isinstance(c.func, ast.Attribute) and c.func.attr == 'append' and c.args and isinstance(c.args[0], ast.Tuple) \
                and isinstance(c.func.value, ast.Name) and c.func.value.id == tasks:
            tuples.append(('pool', [' '.join(src(a).split()) for a in c.args[0].elts], c))
        if isinstance(c, ast.Call) and isinstance(c.func, ast.Name) and c.func.id == comp:
            tuples.append(('seq', [' '.join(src(a).split()) for a in c.args], c))
        if isinstance(c, ast.Assign) and isinstance(c.targets[0], ast.Name) and c.targets[0].id == tasks and isinstance(c.value, ast.ListComp) \
                and isinstance(c.value.elt, ast.Tuple):
            tuples.append(('pool', [' '.join(src(a).split()) for a in c.value.elt.elts], c.value))
    need(len(tuples) == 2, 'expected one pooled task tuple and one sequential computator call, found %d' % len(tuples))
    tuples.sort(key=lambda t: t[0])
    ok = tuples[0][1] == tuples[1][1]
    chk.ob(rule, fi, tuples[1][2], 'sequential and pooled branches call computator with the same arguments', ok,
           '%s vs %s' % (tuples[0][1], tuples[1][1]), construct='dispatch arguments')
    sm = [c for c in ast.walk(fi.node) if isinstance(c, ast.Call) and isinstance(c.func, ast.Attribute) and c.func.attr in ('starmap', 'map', 'imap', 'imap_unordered', 'starmap_async')]
    ok = bool(sm) and sm[0].func.attr == 'starmap' and isinstance(sm[0].args[0], ast.Name) and sm[0].args[0].id == comp
    chk.ob(rule, fi, sm[0] if sm else fi.node, 'the pool runs the same computator over the task tuples, results in task order (starmap)', ok,
           construct='pool starmap')
    # both loops enumerate zip(ids, images) identically
    loops = [l for l in ast.walk(fi.node) if isinstance(l, (ast.For, ast.comprehension)) and isinstance(l.iter, ast.Call) and dotted(l.iter.func) == 'enumerate'
             and 'zip(%s, %s)' % (ids, imgs) in src(l.iter)]
    chk.ob(rule, fi, loops[0] if loops else fi.node, 'both branches enumerate zip(ids, images)', len(loops) == 2,
           construct='dispatch loops')
    # Computator.__call__ unpacks the same order
    cc = repo.func(PF + ':Computator.__call__')
    want = [a for a in cc.params if a != 'self']
    got = [t for t in tuples if t[0] == 'seq'][0][1]
    # roles of the loop variables of the sequential dispatch loop
    pm = {}
    for p_ in ast.walk(fi.node):
        for ch in ast.iter_child_nodes(p_):
            pm[ch] = p_
    n = direct
    loop = None
    while n in pm:
        n = pm[n]
        if isinstance(n, ast.For):
            loop = n
            break
    okp = False
    if loop is not None and isinstance(loop.target, ast.Tuple) and len(loop.target.elts) == 2 and isinstance(loop.target.elts[0], ast.Name) \
            and isinstance(loop.target.elts[1], ast.Tuple):
        idx = loop.target.elts[0].id
        z = [c for c in ast.walk(loop.iter) if isinstance(c, ast.Call) and dotted(c.func) == 'zip'][0]
        pair = [e.id for e in loop.target.elts[1].elts]
        by_list = {z.args[i].id: pair[i] for i in range(2)}
        expect = [by_list[imgs], by_list[ids], idx, 'len(%s)' % ids]
        okp = got == expect and len(want) == 4 and 'image' in want[0] and 'id' in want[1] and 'index' in want[2] and 'count' in want[3]
    chk.ob(rule, cc, cc.node, 'argument order matches Computator.__call__%s' % want, okp, construct='computator parameter order')


def _in_zip_loop(fi, call, ids, imgs):
    for l in ast.walk(fi.node):
        if isinstance(l, ast.For) and any(x is call for x in ast.walk(l)) and 'zip(%s, %s)' % (ids, imgs) in src(l.iter) and not ('enumerate' in src(l.iter)):
            return True
    return False
