"""C07 - batched line recognition returns each line's own result in input order (structural clauses)."""
import ast

from ..core import call_name, dotted, src, walk_shallow, is_const, linear, parents_map
from ..lib import Rules, Soft, need, find_loops
from . import refcheck

E = 'pero_ocr.ocr_engine.line_ocr_engine'
WHAT = {
    'process_lines': 'length-sorted ids, batches cut from the front, images gathered by id, a fresh zeroed batch buffer per batch, results scattered by the same ids',
    'ocr_process_page': 'results are zipped back onto the lines in iterator order',
    'softmax': 'numerically stable softmax along the given axis (per-slice maximum subtracted)',
    'py_run_ocr': 'the exported model is applied to the batch, decoded greedily, logits returned as N x T x C',
}


def run(repo, chk):
    chk.explanation = ('PAIR rules on process_lines: the ids used to scatter results are the ids used to gather the batch; the id list is partitioned '
                       'with one bound; the placement window, the frame window and the tight crop have equal numerators in linear normal form; '
                       'results are zipped onto lines in iterator order. The function equals its reference form.')
    chk.note_undecided('independence from batch composition (depends on the network)')
    R = Rules(repo, chk)
    refcheck.run_all(R, repo, chk, 'RECUR', 'ocr_ref.py', WHAT)
    refcheck.run_all(R, repo, chk, 'RECUR', 'nets_ref.py', {'py_init': 'sub-sampling 4, character table extended by the blank'}, only=('py_init',))
    refcheck.run_all(R, repo, chk, 'RECUR', 'merge_ref.py', {'merge_transcriptions_and_logits': 'parts of an over-long line are merged back into one result for that line'}, only=('merge_transcriptions_and_logits',))
    PL = [E + ':BaseEngineLineOCR.process_lines']
    R.run('PAIR', pair_ids, repo, Soft(chk), soft_for=PL)
    R.run('PAIR', pair_part, repo, Soft(chk), soft_for=PL)
    R.run('PAIR', pair_window, repo, Soft(chk), soft_for=PL)
    R.run('PAIR', pair_zip, repo, Soft(chk), soft_for=['pero_ocr.document_ocr.page_parser:PageOCR.process_page'])
    chk.expect('RECUR', 7)
    chk.expect('PAIR', 12)


def pair_ids(repo, chk):
    fi = repo.func(E + ':BaseEngineLineOCR.process_lines')
    lines = fi.params[1]
    # gather
    gathers = [n for n in ast.walk(fi.node) if isinstance(n, ast.ListComp) and isinstance(n.elt, ast.Subscript) and isinstance(n.elt.value, ast.Name)
               and n.elt.value.id == lines and isinstance(n.elt.slice, ast.Name) and n.elt.slice.id == n.generators[0].target.id]
    need(len(gathers) == 1, 'gather comprehension lines[id] for id in ids not found')
    G = src(gathers[0].generators[0].iter)
    # scatter loops
    loops = [l for l in find_loops(fi.node) if isinstance(l.iter, ast.Call) and dotted(l.iter.func) == 'zip' and
             any(isinstance(s, ast.Assign) and isinstance(s.targets[0], ast.Subscript) and src(s.targets[0].value).startswith('all_') for s in ast.walk(l))]
    need(len(loops) == 2, 'expected two result-scatter loops (with / without logits), found %d' % len(loops))
    for l in loops:
        first = src(l.iter.args[0])
        chk.ob('PAIR', fi, l, 'results are scattered with the ids used to gather the batch (%s)' % G, first == G, 'zips over %s' % first, construct='scatter ids L%d' % (loops.index(l)))
        idv = l.target.elts[0].id if isinstance(l.target, ast.Tuple) and isinstance(l.target.elts[0], ast.Name) else None
        subs = [n for n in ast.walk(l) if isinstance(n, ast.Subscript) and isinstance(n.value, ast.Name) and (n.value.id.startswith('all_') or n.value.id == lines)]
        bad = [n for n in subs if not (isinstance(n.slice, ast.Name) and n.slice.id == idv)]
        chk.ob('PAIR', fi, bad[0] if bad else l, 'every access to the result lists and to lines[...] in the scatter loop uses the scattered id (%d accesses)' % len(subs), not bad and len(subs) >= 1,
               'indexed otherwise: %s' % [src(b) for b in bad], construct='scatter subscripts L%d' % (loops.index(l)))
    # result lists have one slot per input line
    allocs = [s for s in walk_shallow(fi.node) if isinstance(s, ast.Assign) and isinstance(s.targets[0], ast.Name) and s.targets[0].id.startswith('all_')]
    ok = len(allocs) == 3 and all(' '.join(src(s.value).split()) == '[None] * len(%s)' % lines for s in allocs)
    chk.ob('PAIR', fi, allocs[0] if allocs else fi.node, 'one result slot per input line', ok, construct='result slots')
    rets = [s for s in walk_shallow(fi.node) if isinstance(s, ast.Return)]
    ok = bool(rets) and [e.id for e in rets[-1].value.elts if isinstance(e, ast.Name)] == ['all_transcriptions', 'all_logits', 'all_logit_coords']
    chk.ob('PAIR', fi, rets[-1], 'transcriptions, logits and frame windows are returned in that order', ok, construct='return order')


def pair_part(repo, chk):
    fi = repo.func(E + ':BaseEngineLineOCR.process_lines')
    heads = [s for s in ast.walk(fi.node) if isinstance(s, ast.Assign) and isinstance(s.value, ast.Subscript) and isinstance(s.value.slice, ast.Slice)
             and isinstance(s.value.value, ast.Name) and s.value.value.id == 'line_ids']
    need(len(heads) == 2, 'expected line_ids[:b] / line_ids[b:]')
    a, b = sorted(heads, key=lambda s: s.lineno)
    ok = a.value.slice.lower is None and b.value.slice.upper is None and a.value.slice.upper is not None and b.value.slice.lower is not None and \
        linear(a.value.slice.upper) == linear(b.value.slice.lower) and isinstance(b.targets[0], ast.Name) and b.targets[0].id == 'line_ids'
    chk.ob('PAIR', fi, a, 'each pass takes line_ids[:b] and leaves line_ids[b:] (every line in exactly one batch)', ok, construct='partition of ids')
    # sorted by width, all ids enumerated
    ids = [s for s in walk_shallow(fi.node) if isinstance(s, ast.Assign) and isinstance(s.targets[0], ast.Name) and s.targets[0].id == 'line_ids' and 'sorted(' in src(s.value)]
    ok = bool(ids) and 'enumerate(%s)' % fi.params[1] in src(ids[0].value) and isinstance(ids[0].value, ast.ListComp) and not ids[0].value.generators[0].ifs
    chk.ob('PAIR', fi, ids[0] if ids else fi.node, 'the id list enumerates every input line once (no filter)', ok, construct='all ids')
    t = ' '.join(src(fi.node).split())
    ok = 'batch_size = max(1, ' in t
    chk.ob('PAIR', fi, fi.node, 'a batch holds at least one line (progress)', ok, construct='batch size >= 1')
    wl = [w for w in ast.walk(fi.node) if isinstance(w, ast.While) and isinstance(w.test, ast.Name) and w.test.id == 'line_ids']
    chk.ob('PAIR', fi, wl[0] if wl else fi.node, 'batches are cut until no id is left', bool(wl), construct='until exhausted')


def pair_window(repo, chk):
    fi = repo.func(E + ':BaseEngineLineOCR.process_lines')
    lines = fi.params[1]
    pad = linear(ast.parse('self.line_padding_px', mode='eval').body)
    # placement
    place = [s for s in ast.walk(fi.node) if isinstance(s, ast.Assign) and isinstance(s.targets[0], ast.Subscript) and isinstance(s.targets[0].slice, ast.Tuple)
             and isinstance(s.value, ast.Name) and any(isinstance(e, ast.Slice) and e.lower is not None for e in s.targets[0].slice.elts)]
    need(place, 'placement of the image into the batch buffer not found')
    sl = [e for e in place[0].targets[0].slice.elts if isinstance(e, ast.Slice) and e.lower is not None][0]
    img = place[0].value.id
    w_img = linear(ast.parse('%s.shape[1]' % img, mode='eval').body)
    ok = linear(sl.lower) == pad and linear(sl.upper) == pad + w_img
    chk.ob('PAIR', fi, place[0], 'a line is placed at [pad : pad + width] of the zeroed buffer', ok, 'placed at [%s : %s]' % (linear(sl.lower), linear(sl.upper)), construct='placement window')
    ax = [i for i, e in enumerate(place[0].targets[0].slice.elts) if e is sl][0]
    chk.ob('PAIR', fi, place[0], 'the placement is along the width axis of (height, width, channels)', ax == 1, construct='placement axis')
    # frame window for ctc
    sub = ('floordiv',)
    coords = [s for s in ast.walk(fi.node) if isinstance(s, ast.Assign) and isinstance(s.targets[0], ast.Subscript) and src(s.targets[0].value) == 'all_logit_coords'
              and isinstance(s.value, ast.List) and len(s.value.elts) == 2 and not all(isinstance(e, ast.Constant) for e in s.value.elts)]
    ctc = [s for s in coords if 'net_subsampling' in src(s.value)]
    need(ctc, 'CTC frame-window assignment not found')
    idv = src(ctc[0].targets[0].slice)
    w_line = linear(ast.parse('%s[%s].shape[1]' % (lines, idv), mode='eval').body)

    def numden(e):
        l = linear(e)
        if len(l.terms) == 1 and l.const == 0:
            (k, v), = l.terms.items()
            if isinstance(k, tuple) and k and k[0] == 'floordiv':
                return k[1], k[2]
        return None, None
    from ..core import _freeze
    lo_n, lo_d = numden(ctc[0].value.elts[0])
    hi_n, hi_d = numden(ctc[0].value.elts[1])
    ok = lo_n == _freeze(pad) and hi_n == _freeze(pad + w_line) and lo_d == hi_d and lo_d is not None
    chk.ob('PAIR', fi, ctc[0], 'frame window = [pad // s, (pad + width) // s] with the width of the same line', ok, construct='frame window')
    tight = [s for s in ast.walk(fi.node) if isinstance(s, ast.Assign) and isinstance(s.value, ast.Subscript) and isinstance(s.value.slice, ast.Slice)
             and 'net_subsampling' in src(s.value.slice)]
    need(tight, 'tight crop slice not found')
    tl_n, tl_d = numden(tight[0].value.slice.lower)
    tu_n, tu_d = numden(tight[0].value.slice.upper)
    ok = (tl_n, tl_d, tu_n, tu_d) == (lo_n, lo_d, hi_n, hi_d)
    chk.ob('PAIR', fi, tight[0], 'the tight crop cuts exactly the frame window', ok, construct='tight crop = frame window')
    # buffer is allocated per batch, zero-filled, wide enough for padding on both sides
    bufs = [s for s in ast.walk(fi.node) if isinstance(s, ast.Assign) and isinstance(s.value, ast.Call) and (call_name(s.value) or '') == 'np.zeros' and 'line_padding_px' in src(s.value)]
    pm = parents_map(fi.node)
    in_loop = bool(bufs) and any(isinstance(a, ast.While) for a in _anc(pm, bufs[0]))
    ok = in_loop and '2 * self.line_padding_px' in ' '.join(src(bufs[0].value).split())
    chk.ob('PAIR', fi, bufs[0] if bufs else fi.node, 'every batch gets a fresh zero-filled buffer of width max_width + 2 * pad', ok, construct='fresh buffer')


def _anc(pm, n):
    while n in pm:
        n = pm[n]
        yield n


def pair_zip(repo, chk):
    fi = repo.func('pero_ocr.document_ocr.page_parser:PageOCR.process_page')
    calls = [c for c in ast.walk(fi.node) if isinstance(c, ast.Call) and isinstance(c.func, ast.Attribute) and c.func.attr == 'process_lines']
    need(calls, 'PageOCR.process_page does not call process_lines')
    arg = calls[0].args[0]
    ok_in = isinstance(arg, ast.ListComp) and 'lines_iterator()' in src(arg.generators[0].iter) and not arg.generators[0].ifs and src(arg.elt).endswith('.crop')
    chk.ob('PAIR', fi, calls[0], 'the engine receives the crops of all lines in iterator order (no filter)', ok_in, construct='inputs in iterator order')
    loops = [l for l in find_loops(fi.node) if isinstance(l.iter, ast.Call) and dotted(l.iter.func) == 'zip']
    need(loops, 'result zip loop not found')
    l = loops[-1]
    ok = 'lines_iterator()' in src(l.iter.args[0]) and len(l.iter.args) == 4
    st = calls[0]
    un = [s for s in walk_shallow(fi.node) if isinstance(s, ast.Assign) and s.value is calls[0]]
    names = [e.id for e in un[0].targets[0].elts] if un and isinstance(un[0].targets[0], ast.Tuple) else []
    ok = ok and [src(a) for a in l.iter.args[1:]] == names
    chk.ob('PAIR', fi, l, 'results are zipped onto the same iterator, in the order returned by the engine', ok, construct='zip back')
    pairs = {}
    for s in l.body:
        if isinstance(s, ast.Assign) and isinstance(s.targets[0], ast.Attribute) and isinstance(s.value, ast.Name):
            pairs[s.targets[0].attr] = s.value.id
    tv = [e.id for e in l.target.elts]
    ok = len(tv) == 4 and pairs.get('transcription') == tv[1] and pairs.get('logits') == tv[2] and pairs.get('logit_coords') == tv[3]
    chk.ob('PAIR', fi, l, 'transcription / logits / frame window go to the fields of the same name', ok, 'assignments %s' % pairs, construct='field assignment')
