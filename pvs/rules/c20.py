"""C20 - cached transformer decoding equals recomputation (structural clauses)."""
import ast

from ..core import call_name, dotted, src, walk_shallow, is_const, linear, parents_map
from ..lib import Soft, Rules, need, attr_stores, guards_of
from . import refcheck

T = 'pero_ocr.ocr_engine.transformer'
E = 'pero_ocr.ocr_engine.transformer_ocr_engine'
WHAT = {
    'cached_forward': 'caches (re)allocated when absent or at step 1; self-attention writes row t-1 and attends over rows [:t]; cross-attention projects the memory once at step 1',
    'layer_infer': 'cached and uncached branch apply the same sub-layers; the self-attention residual is out-of-place; memory row t-1 written, rows [:t] returned; memory dropped on batch-size change',
    'dec_infer': 'layers applied in order; final norm on the last position only; last position returned',
    'transcribe_batch': 'greedy loop: one embedding appended per step, alive mask by != boundary, stops when all lines finished or at the length cap',
    'postprocess_decoded': 'text ends at the first boundary symbol; ignore symbols are dropped',
    'ocr_forward': 'reference semantics: full decoder pass under the causal mask',
}


def run(repo, chk):
    chk.explanation = ('IDXPAIR: cache write row and read slice agree (write t-1, read [:t]) for the self-attention cache and the layer memory; '
                       '(re)allocation is implied by "first step" (seq_len == 1); FACTS on the greedy loop (growth by one per iteration, loop-invariant cap, '
                       'boundary / ignore filtering); the modules equal their reference forms (in-place vs out-of-place updates kept apart).')
    chk.note_undecided('numerical equality of cached, uncached and masked passes', 'independence from batch composition (depends on torch kernels)')
    R = Rules(repo, chk)
    refcheck.run_all(R, repo, chk, 'RECUR', 'transformer_ref.py', WHAT)
    refcheck.run_all(R, repo, chk, 'RECUR', 'nets_ref.py', {'te_init': 'boundary and ignore symbols are the last two entries of the extended character table', 'ocr_init': 'causal mask, positional encoding, embedding and output projection sized by the class count'}, only=('te_init', 'build_net', 'ocr_init', 'pe_init'))
    R.run('IDXPAIR', idxpair, repo, Soft(chk), soft_for=[T + ':CustomMultiheadAttention.cached_forward', T + ':DecoderLayer.infer'])
    R.run('FACTS', facts, repo, Soft(chk), soft_for=[E + ':TransformerEngineLineOCR.transcribe_batch', E + ':TransformerEngineLineOCR.postprocess_decoded'])
    chk.expect('IDXPAIR', 6)
    chk.expect('FACTS', 5)
    chk.expect('RECUR', 19)


def _sub_stores(fi, field):
    out = []
    for s in walk_shallow(fi.node):
        if isinstance(s, ast.Assign) and isinstance(s.targets[0], ast.Subscript):
            b = s.targets[0].value
            if isinstance(b, ast.Attribute) and b.attr == field:
                out.append(s)
    return out


def _first_index(sub):
    sl = sub.slice
    return sl.elts[0] if isinstance(sl, ast.Tuple) else sl


def idxpair(repo, chk):
    cf = repo.func(T + ':CustomMultiheadAttention.cached_forward')
    params = cf.params
    seq = 'seq_len'
    need(seq in params, 'cached_forward has no seq_len parameter')
    # (re)allocation test
    alloc = [n for n in walk_shallow(cf.node) if isinstance(n, ast.If) and any(isinstance(x, ast.Attribute) and x.attr == 'linear_cache' for x in ast.walk(n.test))]
    need(alloc, 'cache allocation test not found')
    t = alloc[0].test
    conds = [' '.join(src(v).split()) for v in (t.values if isinstance(t, ast.BoolOp) and isinstance(t.op, ast.Or) else [t])]
    ok = any(c in ('seq_len == 1', '1 == seq_len') for c in conds) and isinstance(t, ast.BoolOp) and isinstance(t.op, ast.Or)
    chk.ob('IDXPAIR', cf, t, 'caches are re-allocated at the first step of every sequence (… or seq_len == 1)', ok,
           'without the seq_len == 1 disjunct a batch decoded after another one of the same size attends over stale keys/values', construct='realloc at first step')
    allocs = [s for s in alloc[0].body if isinstance(s, ast.Assign) and isinstance(s.targets[0], ast.Attribute) and s.targets[0].attr == 'linear_cache']
    chk.ob('IDXPAIR', cf, alloc[0], 'the allocation branch re-binds self.linear_cache', bool(allocs), construct='realloc assigns')
    # cross-attention K/V fill is inside the allocation branch, over the memory length
    kv = [s for s in ast.walk(alloc[0]) if isinstance(s, ast.Assign) and isinstance(s.targets[0], ast.Subscript) and 'linear_cache' in src(s.targets[0])]
    ok = bool(kv) and 'key.shape[0]' in src(kv[0].targets[0]) and 'F.linear(key' in src(kv[0].value)
    pmap = parents_map(cf.node)
    under_cross = bool(kv) and any(' '.join(src(tt).split()) == 'not self.is_self_attention' and pol or (' '.join(src(tt).split()) == 'self.is_self_attention' and not pol)
                                   for tt, pol in guards_of(pmap, kv[0]))
    chk.ob('IDXPAIR', cf, kv[0] if kv else cf.node, 'encoder keys/values are projected once, at (re)allocation, for the cross-attention only', ok and under_cross, construct='cross K/V fill')
    # self-attention: write row seq_len-1, q read from the same row, k/v read [:seq_len]
    stores = _sub_stores(cf, 'linear_cache')
    self_st = [s for s in stores if any((' '.join(src(tt).split()) == 'self.is_self_attention') and pol for tt, pol in guards_of(pmap, s))]
    need(self_st, 'self-attention cache write not found')
    w = linear(_first_index(self_st[0].targets[0]))
    want = linear(ast.parse('seq_len - 1', mode='eval').body)
    chk.ob('IDXPAIR', cf, self_st[0], 'self-attention writes cache row seq_len - 1', w == want, 'writes row %s' % w, construct='self write row')
    reads = [n for n in ast.walk(cf.node) if isinstance(n, ast.Subscript) and isinstance(n.ctx, ast.Load) and isinstance(n.value, ast.Attribute) and n.value.attr == 'linear_cache'
             and any((' '.join(src(tt).split()) == 'self.is_self_attention') and pol for tt, pol in guards_of(pmap, n))]
    ends = []
    for r in reads:
        fi_ = _first_index(r)
        if isinstance(fi_, ast.Slice) and fi_.upper is not None:
            ends.append((r, linear(fi_.upper), linear(fi_.lower) if fi_.lower is not None else None))
    kvr = [e for e in ends if e[2] is None]
    qr = [e for e in ends if e[2] is not None]
    ok = bool(kvr) and all(e[1] == linear(ast.parse('seq_len', mode='eval').body) for e in kvr)
    chk.ob('IDXPAIR', cf, kvr[0][0] if kvr else cf.node, 'keys/values are read from rows [:seq_len] = written row + 1', ok, construct='self read slice')
    ok = bool(qr) and all(e[2] == want and e[1] == linear(ast.parse('seq_len', mode='eval').body) for e in qr)
    chk.ob('IDXPAIR', cf, qr[0][0] if qr else cf.node, 'the query is read back from the row just written', ok, construct='self query row')
    # layer memory
    li = repo.func(T + ':DecoderLayer.infer')
    ms = _sub_stores(li, 'memory_tgt')
    need(ms, 'memory_tgt row write not found')
    w = linear(_first_index(ms[0].targets[0]))
    chk.ob('IDXPAIR', li, ms[0], 'layer memory writes row seq_len - 1', w == want, 'writes row %s' % w, construct='memory write row')
    rets = [s for s in walk_shallow(li.node) if isinstance(s, ast.Return)]
    ok = True
    for r in rets:
        subs = [n for n in ast.walk(r) if isinstance(n, ast.Subscript) and isinstance(n.value, ast.Attribute) and n.value.attr == 'memory_tgt']
        ok = ok and bool(subs) and all(isinstance(_first_index(n), ast.Slice) and _first_index(n).lower is None and
                                       linear(_first_index(n).upper) == linear(ast.parse('seq_len', mode='eval').body) for n in subs)
    chk.ob('IDXPAIR', li, rets[-1], 'layer memory returns rows [:seq_len]', ok, construct='memory read slice')
    t2 = ' '.join(src(li.node).split())
    ok = 'seq_len = tgt.shape[0]' in t2
    chk.ob('IDXPAIR', li, li.node, 'seq_len is the number of target positions so far', ok, construct='seq_len definition')
    drop = [n for n in walk_shallow(li.node) if isinstance(n, ast.If) and 'memory_tgt.shape[1] != tgt.shape[1]' in ' '.join(src(n.test).split())]
    ok = bool(drop) and any(isinstance(s, ast.Assign) and is_const(s.value, None) for s in drop[0].body)
    chk.ob('IDXPAIR', li, drop[0] if drop else li.node, 'layer memory is dropped when the batch size differs', ok, construct='memory reset on batch change')
    # the self-attention residual must not be in-place (tgt_single aliases the caller's tensor in the uncached branch)
    first_aug = None
    for s in li.node.body:
        for x in ast.walk(s):
            if isinstance(x, ast.AugAssign) and isinstance(x.target, ast.Name) and 'self_attn' in src(x.value):
                first_aug = x
    chk.ob('IDXPAIR', li, first_aug if first_aug else li.node, 'the self-attention residual is out-of-place (tgt_single may alias the previous layer\'s memory)', first_aug is None,
           construct='no in-place residual on aliased input')


def facts(repo, chk):
    tb = repo.func(E + ':TransformerEngineLineOCR.transcribe_batch')
    loops = [n for n in walk_shallow(tb.node) if isinstance(n, ast.While)]
    need(loops, 'greedy loop not found')
    lp = loops[0]
    t = ' '.join(src(lp).split())
    grow = [s for s in lp.body if isinstance(s, ast.Assign) and isinstance(s.targets[0], ast.Name) and 'torch.cat' in src(s.value)]
    names = [s.targets[0].id for s in grow]
    chk.ob('FACTS', tb, lp, 'label embeddings and partial transcripts each grow by exactly one step per iteration', sorted(names) == ['label_embs', 'partial_transcripts'] and
           all(lp.body.count(s) == 1 for s in grow), 'grown: %s' % names, construct='growth per iteration')
    # the embedding appended is that of the last emitted symbols
    ok = 'self.net.dec_embeder(partial_transcripts[-1, :])' in t
    chk.ob('FACTS', tb, lp, 'the step input is the embedding of the last emitted symbols', ok, construct='step input')
    brk = [n for n in walk_shallow(lp) if isinstance(n, ast.If) and any(isinstance(s, ast.Break) for s in n.body)]
    need(len(brk) >= 2, 'expected two exits of the greedy loop')
    cap = [b for b in brk if 'len(partial_transcripts)' in src(b.test)]
    ok = bool(cap) and isinstance(cap[0].test, ast.Compare) and isinstance(cap[0].test.ops[0], (ast.Gt, ast.GtE)) and 'inputs.shape' in src(cap[0].test.comparators[0])
    chk.ob('FACTS', tb, cap[0] if cap else lp, 'decoding stops at a cap that depends only on the input width', ok, construct='length cap')
    done = [b for b in brk if 'alive_mask' in src(b.test)]
    ok = bool(done) and '== 0' in src(done[0].test)
    chk.ob('FACTS', tb, done[0] if done else lp, 'decoding stops when no line is alive', ok, construct='all finished')
    ok = 'samples != self.sentence_boundary_ind' in t and 'alive_mask *= surviving_lines' in t
    chk.ob('FACTS', tb, lp, 'a line stays alive exactly while it has not emitted the boundary symbol (!=), and never revives', ok, construct='alive mask')
    ok = 'torch.argmax(last_logits, dim=-1)' in t
    chk.ob('FACTS', tb, lp, 'the emitted symbol is the arg-max of the last step', ok, construct='greedy argmax')
    pd = repo.func(E + ':TransformerEngineLineOCR.postprocess_decoded')
    inner = [n for n in ast.walk(pd.node) if isinstance(n, ast.For)][-1]
    t2 = ' '.join(src(inner).split())
    ok = 'if s == sentence_boundary_ind: break' in t2 and 'elif s == ignore_ind: continue' in t2 and 'else: legit_transcription.append(s)' in t2
    chk.ob('FACTS', pd, inner, 'a symbol is kept only if it is neither boundary (stop) nor ignore (skip)', ok, construct='boundary / ignore filter')
    ok = 'partial_transcripts[1:]' in ' '.join(src(tb.node).split())
    chk.ob('FACTS', tb, tb.node, 'the initial boundary symbol is not part of the output', ok, construct='drop start symbol')
