"""C02 - CTC prefix beam search never over-counts and is exact when unpruned (structural clauses)."""
import ast

from ..core import call_name, dotted, src
from ..lib import Rules, need, calls_in
from ..template import contains, template_func, effects, HelperInliner
from . import dec_common as dc
from . import refcheck

HELPERS = [
    ('logprobs_max_deviation', dc.D + ':logprobs_max_deviation', 'normalisation measure = max_t |sum_c exp(x[t,c]) - 1|'),
    ('compute_Pb', dc.DEC + '.compute_Pb', "Pb' = (Pb (+) Pnb) (x) P(blank)"),
    ('compute_Pnb', dc.DEC + '.compute_Pnb', "Pnb' = [Pb(x)Pc (+) Pnb(x)Pc(x)mask , Pnb(x)Pc[last]]"),
    ('get_continuation_mask', dc.D + ':get_continuation_mask', 'mask: `one` everywhere, `zero` at (row, last_char[row])'),
    ('adjust_for_prefix_joining', dc.D + ':adjust_for_prefix_joining', 'joining moves mass to the prefix already in the beam and removes it from the extension'),
    ('find_new_prefixes', dc.D + ':find_new_prefixes', 'extended prefixes get prefix + [c]; carried-over ones keep prefix and last char'),
    ('get_new_prefixes_positions', dc.D + ':get_new_prefixes_positions', 'extended = chosen column is not the blank/keep column'),
    ('get_old_prefixes_positions', dc.D + ':get_old_prefixes_positions', 'carried over = chosen column is the blank/keep column'),
    ('find_matching', dc.D + ':find_matching', 'indices of equal prefixes'),
    ('get_reduced_Pc', dc.DEC + '.get_reduced_Pc', 'pre-selected symbol scores plus one impossible (-inf) column'),
    ('top_k', 'pero_ocr.decoding.multisort:top_k', 'k largest entries by argpartition, un-ravelled with the input shape'),
]


SETUP_WHAT = {
    'dec_init': 'the decoder keeps letters, beam width, LM, LM scale and insertion bonus as given; blank = index of the blank symbol; default pre-selection',
    'greedy_init': 'the greedy decoder keeps letters and the blank index',
    'get_reduced_last_chars': 'last characters are re-indexed into the pre-selected symbols, others point at the impossible column',
    'select_relevant_logits': 'pre-selection keeps symbols with log-probability above -10',
    'assert_letters_valid': 'duplicate letters and a blank that is not last are rejected',
    'assert_beam_size_valid': 'beam width must be a positive int',
    'duplicit_elements': 'duplicates of a list',
}


def is_lm(e):
    t = e.show().lower()
    return 'lm' in t or 'model_eos' in t


def run(repo, chk):
    chk.explanation = ('Decoder recurrences compared, as polynomials over the log semiring with locals inlined and '
                       'alpha-renamed, with the CTC prefix-search equations transcribed in pvs/refs/decoders_ref.py; '
                       'normalisation guard dominance on the CFG; loop-carried beam state re-derived from the selection.')
    chk.note_undecided('score <= / = the true alignment log-sum (values of a float DP over all matrices)',
                       'exactness when unpruned, equality with reference beam search', 'pairwise distinct transcripts')
    chk.assumptions = ['numpy semantics of logaddexp/add.outer/concatenate/argpartition/unravel_index',
                       'the reference equations in pvs/refs/decoders_ref.py are the CTC prefix-search recurrences']
    R = Rules(repo, chk)
    for q in (dc.D + ':GreedyDecoder.__call__', dc.DEC + '.__call__'):
        R.run('GUARD', dc.guard_normalised, repo, chk, 'GUARD', q)
    for name, q, what in HELPERS:
        R.run('RECUR', dc.template_check, repo, chk, 'RECUR', q, name, what)
    R.run('RECUR', call_effects, repo, chk)
    refcheck.run_all(R, repo, chk, 'RECUR', 'decsetup_ref.py', SETUP_WHAT, only=tuple(SETUP_WHAT))
    R.run('LOOPSTATE', dc.loopstate, repo, chk, 'LOOPSTATE', False)
    R.run('PAIR', pair, repo, chk)
    chk.expect('GUARD', 6)
    chk.expect('RECUR', 32)
    chk.expect('LOOPSTATE', 6)
    chk.expect('PAIR', 3)


def call_effects(repo, chk):
    fi = repo.func(dc.DEC + '.__call__')
    tmpl = template_func(dc.ref_source(), '__call__')
    helper = HelperInliner(fi)
    have = effects(fi, helper=helper)
    keys = [e.key for e in have]
    for e in effects(tmpl, helper=helper):
        if is_lm(e) and e.kind != 'return':
            continue
        ok = e.key in keys
        if ok:
            keys.remove(e.key)
        near = [h for h in have if h.kind == e.kind and h.key != e.key]
        chk.ob('RECUR', fi, near[0].node if (not ok and near) else fi.node, 'decoder step: ' + e.show()[:160], ok,
               '' if ok else 'no statement of __call__ has this effect (modulo renaming, inlining, commutativity, distribution); '
               'same-kind effects found: ' + ' || '.join(h.show()[:200] for h in near[:3]),
               construct='effect ' + e.show()[:120])


def pair(repo, chk):
    m = dc.CallModel(repo)
    fi = m.fi
    c = m.topk
    # the array counted with isfinite is the array ranked
    ranked = c.args[0] if c.args else None
    k = next((kw.value for kw in c.keywords if kw.arg == 'k'), c.args[1] if len(c.args) > 1 else None)
    need(ranked is not None and k is not None, 'top_k call without array / k')
    fin = [x for x in ast.walk(k) if isinstance(x, ast.Call) and (call_name(x) or '').endswith('isfinite')]
    ok = bool(fin) and all(ast.dump(x.args[0]) == ast.dump(ranked) for x in fin)
    chk.ob('PAIR', fi, c, 'beam width is capped by the number of finite entries of the array that is ranked', ok,
           'ranked %s, counted %s' % (src(ranked), [src(x.args[0]) for x in fin]), construct='finite count = ranked array')
    rev = next((kw.value for kw in c.keywords if kw.arg == 'reverse'), c.args[2] if len(c.args) > 2 else None)
    chk.ob('PAIR', fi, c, 'selection takes the largest scores (reverse=True)', isinstance(rev, ast.Constant) and rev.value is True,
           construct='top_k direction')
    uses_k = any(isinstance(x, ast.Attribute) and x.attr == '_k' for x in ast.walk(k))
    chk.ob('PAIR', fi, c, 'beam width is the configured k', uses_k, construct='top_k width')
    # blank is the last symbol: P_blank = Pc[-1] and the pre-selection looks at Pc[:-1]
    sel = [x for x in ast.walk(m.loop) if isinstance(x, ast.Call) and (call_name(x) or '').endswith('select_relevant_logits')]
    ok = bool(sel) and all(isinstance(x.args[0], ast.Subscript) and isinstance(x.args[0].slice, ast.Slice) and
                           x.args[0].slice.lower is None and src(x.args[0].slice.upper) == '-1' for x in sel)
    chk.ob('PAIR', fi, sel[0] if sel else fi.node, 'symbol pre-selection excludes exactly the blank column (Pc[:-1])', ok,
           construct='pre-selection excludes blank')
