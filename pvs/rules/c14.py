"""C14 - confusion networks keep every hypothesis as an ordered path (structural clauses)."""
import ast

from ..core import AnalysisError, call_name, dotted, src, walk_shallow, is_const
from ..lib import Soft, Rules, need, find_loops
from . import refcheck

CN = 'pero_ocr.decoding.confusion_networks'
WHAT = {
    'get_pivot': 'pivot = heaviest symbol of every column',
    'normalize_cn': 'every column is divided by its own total, computed before the division loop',
    'produce_cn_from_boh': 'hypothesis weight = exp(visual_weight*vis + lm_weight*lm); normalisation on request',
    'best_cn_path': 'best path = heaviest symbol per column with epsilons removed',
    'sorted_cn_paths': 'odometer over the per-column arcs, paths sorted by probability (descending)',
    'path_from_arcs': 'path string skips epsilon arcs, probability is the product of the arcs',
    'reset_iter': 'a rotor is reset to its heaviest arc',
}


def run(repo, chk):
    chk.explanation = ('add_hypothese: per alignment direction, every acyclic path through the loop body is enumerated on the CFG '
                       'and the pointer / growth / weight effects counted (COUNT); the other network functions are compared with '
                       'reference forms.')
    chk.note_undecided('every earlier hypothesis stays readable (depends on the alignment chosen)',
                       'an empty hypothesis added to an empty network cannot be represented')
    R = Rules(repo, chk)
    refcheck.run_all(R, repo, chk, 'RECUR', 'cn_ref.py', WHAT, skip=('add_hypothese',))
    refcheck.run_all(R, repo, chk, 'RECUR', 'seqalign_ref.py', {'levenshtein_alignment_path': 'the alignment path the pointer bookkeeping follows'}, only=('levenshtein_alignment_path',))
    R.run('COUNT', count, repo, chk)
    R.run('FACTS', facts, repo, chk)
    chk.expect('COUNT', 4)
    chk.expect('FACTS', 4)
    chk.expect('RECUR', 8)


def _paths(cfg, start, stop_nodes):
    """All acyclic paths start -> (any stop node), as lists of (node id, label taken to get there)."""
    out = []

    def go(n, path, seen):
        if n in stop_nodes:
            out.append(path + [(n, None)])
            return
        if len(out) > 500:
            raise AnalysisError('too many paths')
        succs = [(m, lab) for m, lab in cfg.succ[n] if lab != 'exc']
        if not succs:
            out.append(path + [(n, None)])
            return
        for m, lab in succs:
            if m in seen:
                raise AnalysisError('inner loop in the analysed loop body')
            go(m, path + [(n, lab)], seen | {m})
    go(start, [], {start})
    return out


def count(repo, chk):
    fi = repo.func(CN + ':add_hypothese')
    cfg = fi.cfg
    cn, transcript, score = fi.params[:3]
    loops = [l for l in find_loops(fi.node) if isinstance(l.iter, ast.Name)]
    need(loops, 'no loop over the alignment in add_hypothese')
    loop = loops[-1]
    dirvar = loop.target.id
    head = cfg.node_of(loop)
    # roles of the two pointers
    cn_ptr, tr_ptr = set(), set()
    for n in ast.walk(loop):
        if isinstance(n, ast.Subscript) and isinstance(n.value, ast.Name) and isinstance(n.slice, ast.Name):
            if n.value.id == cn:
                cn_ptr.add(n.slice.id)
            elif n.value.id == transcript:
                tr_ptr.add(n.slice.id)
    need(len(cn_ptr) == 1 and len(tr_ptr) == 1, 'cannot identify the network / transcript pointers (%s, %s)' % (cn_ptr, tr_ptr))
    cn_ptr, tr_ptr = cn_ptr.pop(), tr_ptr.pop()
    first = [m for m, lab in cfg.succ[head] if lab == 'loop']
    need(len(first) == 1, 'loop body entry not unique')
    paths = _paths(cfg, first[0], {head, cfg.exit, cfg.raise_exit})
    want = {-1: (1, 0, 0), 0: (1, 1, 0), 1: (1, 1, 1)}
    seen_dirs = set()
    for path in paths:
        last = path[-1][0]
        d = None
        for nid, lab in path:
            n = cfg.nodes[nid]
            if n.kind == 'test' and isinstance(n.ast, ast.Compare) and isinstance(n.ast.left, ast.Name) and n.ast.left.id == dirvar \
                    and isinstance(n.ast.ops[0], ast.Eq) and lab is True:
                try:
                    d = int(ast.literal_eval(n.ast.comparators[0]))
                except Exception:
                    d = None
        if last == cfg.raise_exit or cfg.nodes[last].kind == 'raise' or any(cfg.nodes[nid].kind == 'raise' for nid, _ in path):
            continue
        if d is None:
            continue
        seen_dirs.add(d)
        dcn = dtr = grow = 0
        stores = []
        for nid, lab in path:
            s = cfg.nodes[nid].ast
            if cfg.nodes[nid].kind != 'stmt':
                continue
            if isinstance(s, ast.AugAssign) and isinstance(s.target, ast.Name) and isinstance(s.op, (ast.Add, ast.Sub)) and is_const(s.value, 1):
                k = 1 if isinstance(s.op, ast.Add) else -1
                if s.target.id == cn_ptr:
                    dcn += k
                elif s.target.id == tr_ptr:
                    dtr += k
            elif isinstance(s, ast.AugAssign) and isinstance(s.target, ast.Name) and s.target.id in (cn_ptr, tr_ptr):
                dcn = dtr = 99
            elif isinstance(s, ast.Assign) and isinstance(s.targets[0], ast.Name) and s.targets[0].id in (cn_ptr, tr_ptr):
                dcn = dtr = 99
            if isinstance(s, ast.Expr) and isinstance(s.value, ast.Call) and isinstance(s.value.func, ast.Attribute) and \
                    s.value.func.attr in ('append', 'insert') and isinstance(s.value.func.value, ast.Name) and s.value.func.value.id == cn:
                grow += 1
                stores.append(('new', s))
            if isinstance(s, ast.Assign) and isinstance(s.targets[0], ast.Name) and s.targets[0].id == cn:
                grow += 1
                stores.append(('new', ast.Assign(targets=s.targets, value=fi.flow.inline(s.value, s, stop={cn, cn_ptr, score}), lineno=s.lineno, col_offset=s.col_offset)))
            if isinstance(s, (ast.Assign, ast.AugAssign)):
                t = s.targets[0] if isinstance(s, ast.Assign) else s.target
                if isinstance(t, ast.Subscript) and isinstance(t.value, ast.Subscript) and isinstance(t.value.value, ast.Name) and t.value.value.id == cn:
                    stores.append(('weight', s))
        w = want.get(d)
        if w is None:
            continue
        lines = sorted({getattr(cfg.nodes[nid].stmt, 'lineno', 0) for nid, _ in path if cfg.nodes[nid].stmt is not None})
        ok = (dcn, dtr, grow) == w
        chk.ob('COUNT', fi, cfg.nodes[path[0][0]].stmt, 'direction %d: network pointer +%d, transcript pointer +%d, %d new column(s) on the path through lines %s' % (d, w[0], w[1], w[2], lines),
               ok, 'found network pointer %+d, transcript pointer %+d, growth %d; the network pointer must always name the next '
               'unconsumed pivot column, so it moves past a freshly inserted column too' % (dcn, dtr, grow),
               construct='dir %d path %s' % (d, '/'.join('T' if lab is True else 'F' for nid, lab in path if cfg.nodes[nid].kind == 'test' and lab in (True, False))))
        # exactly one weight update carrying `score`
        nweights = [s for k, s in stores if k == 'weight']
        news = [s for k, s in stores if k == 'new']
        if d in (-1, 0):
            ok = len(nweights) == 1 and any(isinstance(x, ast.Name) and x.id == score for x in ast.walk(nweights[0].value)) and \
                any(isinstance(x, ast.Name) and x.id == cn_ptr for x in ast.walk(nweights[0].targets[0] if isinstance(nweights[0], ast.Assign) else nweights[0].target))
            chk.ob('COUNT', fi, nweights[0] if nweights else cfg.nodes[path[0][0]].stmt, 'direction %d: exactly one arc of the current column gains the score' % d, ok,
                   construct='dir %d weight %s' % (d, '/'.join('T' if lab is True else 'F' for nid, lab in path if cfg.nodes[nid].kind == 'test' and lab in (True, False))))
        else:
            ok = len(news) == 1 and any(isinstance(x, ast.Name) and x.id == score for x in ast.walk(news[0])) and not nweights
            chk.ob('COUNT', fi, news[0] if news else cfg.nodes[path[0][0]].stmt, 'direction 1: the new column carries the score (and an epsilon arc with the network weight)', ok,
                   construct='dir 1 new column %s' % '/'.join('T' if lab is True else 'F' for nid, lab in path if cfg.nodes[nid].kind == 'test' and lab in (True, False)))
            # insertion position uses the network pointer on both slices
            for s in news:
                if isinstance(s, ast.Assign):
                    sl = [x for x in ast.walk(s.value) if isinstance(x, ast.Subscript) and isinstance(x.slice, ast.Slice)]
                    ok = len(sl) == 2 and all(any(isinstance(y, ast.Name) and y.id == cn_ptr for y in ast.walk(x.slice)) for x in sl) and \
                        any(x.slice.lower is None for x in sl) and any(x.slice.upper is None for x in sl)
                    chk.ob('COUNT', fi, s, 'a column inserted in the middle goes exactly at the network pointer', ok, construct='insert position')
    chk.ob('COUNT', fi, loop, 'all three alignment directions (-1, 0, 1) are handled', seen_dirs == {-1, 0, 1}, 'handled %s' % sorted(seen_dirs),
           construct='directions handled')
    # anything else raises
    t = ' '.join(src(loop).split())
    chk.ob('COUNT', fi, loop, 'an unexpected direction raises', 'raise ' in t, construct='else raises')


def facts(repo, chk):
    fi = repo.func(CN + ':add_hypothese')
    t = ' '.join(src(fi.node).split())
    cn, transcript, score = fi.params[:3]
    # pivot alignment: source = the new transcript, target = the pivot (so -1 means "move in the network only")
    calls = [c for c in ast.walk(fi.node) if isinstance(c, ast.Call) and (call_name(c) or '').endswith('levenshtein_alignment_path')]
    need(calls, 'add_hypothese does not align against the pivot')
    c = calls[0]
    a0, a1 = c.args[0], c.args[1]
    ok = any(isinstance(x, ast.Name) and x.id == transcript for x in ast.walk(a0)) and not any(isinstance(x, ast.Name) and x.id == transcript for x in ast.walk(a1))
    piv = fi.flow.sources(a1, c)
    ok = ok and any(isinstance(x, ast.Call) and call_name(x) == 'get_pivot' for e in piv for x in ast.walk(e))
    chk.ob('FACTS', fi, c, 'alignment source = new transcript, target = pivot of the network', ok, construct='alignment roles')
    # empty network: one column per symbol with the score
    first = next((s for s in fi.node.body if isinstance(s, ast.If) and ' '.join(src(s.test).split()) in ('%s == []' % cn, 'not %s' % cn, 'len(%s) == 0' % cn)), fi.node.body[0])
    ok = isinstance(first, ast.If) and any(isinstance(s, ast.Return) for s in ast.walk(first)) and \
        any(isinstance(x, ast.Dict) and len(x.keys) == 1 and isinstance(x.values[0], ast.Name) and x.values[0].id == score for x in ast.walk(first))
    chk.ob('FACTS', fi, first, 'an empty network becomes one column {symbol: score} per symbol', ok, construct='empty network')
    # epsilon weight of a new column = mean column total of the network BEFORE the addition
    loop = [l for l in find_loops(fi.node) if isinstance(l.iter, ast.Name)][-1]
    tot = [s for s in walk_shallow(fi.node) if isinstance(s, ast.Assign) and 'sum(' in src(s.value) and '.values()' in src(s.value)
           and not any(x is s for x in ast.walk(loop))]
    ok = bool(tot) and fi.cfg.must_pass(fi.cfg.node_of(loop), [fi.cfg.node_of(tot[0])], skip_exc=True) and ' / len(%s)' % cn in ' '.join(src(tot[0].value).split()) and ' in %s)' % cn in ' '.join(src(tot[0].value).split())
    chk.ob('FACTS', fi, tot[0] if tot else fi.node, 'epsilon weight of inserted columns = mean column total measured before any update', ok,
           construct='cn_total_weight')
    rets = [s for s in walk_shallow(fi.node) if isinstance(s, ast.Return)]
    early = [r for r in rets if not any(x is r for x in ast.walk(ast.Module(body=first.body, type_ignores=[]))) and
             fi.cfg.node_of(loop) not in fi.cfg.reach_back([fi.cfg.node_of(r)]) and not any(x is r for x in ast.walk(loop))]
    chk.ob('FACTS', fi, early[0] if early else rets[-1], 'nothing but the empty-network case returns before the alignment is applied (an empty hypothesis still adds its weight to every column)', not early,
           construct='no early return')
    ok = all(isinstance(r.value, ast.Name) and r.value.id == cn for r in rets)
    chk.ob('FACTS', fi, rets[-1], 'the (possibly re-bound) network is what is returned', ok, construct='returns cn')
