"""Rules applied to every property after its own: they positively identify a construct wherever it sits, so their
verdict survives a restructuring of the functions around it."""
import os

from ..lifetime import global_writes

_KNOWN = None


def known_functions():
    global _KNOWN
    if _KNOWN is None:
        p = os.path.join(os.path.dirname(os.path.dirname(__file__)), 'known_functions.txt')
        with open(p) as f:
            _KNOWN = {l.strip() for l in f if l.strip()}
    return _KNOWN


def state_rule(repo, chk):
    """STATE: no function the property's verdict rests on (nor a new helper next to it) keeps state across calls outside
    the object it is called on: module-level objects, class attributes, function attributes, mutable default arguments.
    Every property here describes a result as a function of the call's inputs (and, for C08/C20, of explicitly reset
    object state); a hidden cross-call store is exactly what makes one call's result depend on an earlier call."""
    scope = set(chk.functions)
    mods = {q.split(':')[0] for q in scope}
    known = known_functions()
    for q, fi in repo.funcs.items():
        if q not in known and q.split(':')[0] in mods:
            scope.add(q)
    n = 0
    first = None
    for q in sorted(scope):
        fi = repo.funcs.get(q)
        if fi is None:
            continue
        first = first or fi
        for node, what in global_writes(repo, fi):
            n += 1
            chk.ob('STATE', fi, node, 'no function in scope keeps state across calls outside its own object', False,
                   what + ': survives the call and is shared by every later call', construct='cross-call state in %s: %s' % (fi.name, what), robust=True)
    if first is not None:
        chk.ob('STATE', first, first.node, '%d functions in scope write no module-level object, class attribute, function attribute or mutable default argument' % len(scope),
               n == 0, construct='cross-call state', robust=True)


# ----------------------------------------------------------------------------------------------------------------------
# DEPS: the dependency cone of the functions the property's own rules look at
# ----------------------------------------------------------------------------------------------------------------------
import glob
import re

CONE_DEPTH = {'C08': 3}
_REFINDEX = None


def ref_index():
    """{qual: (reference file, name in that file, source)} over every reference file; hand-written files win over auto_ref."""
    global _REFINDEX
    if _REFINDEX is None:
        _REFINDEX = {}
        d = os.path.join(os.path.dirname(os.path.dirname(__file__)), 'refs')
        files = sorted(glob.glob(os.path.join(d, '*_ref.py')), key=lambda p: (os.path.basename(p) == 'auto_ref.py', p))
        for p in files:
            with open(p) as f:
                text = f.read()
            for q, n in re.findall(r'^# reference for (\S+)\ndef (\w+)', text, re.M):
                _REFINDEX.setdefault(q, (os.path.basename(p), n, text))
    return _REFINDEX


def cone_rule(repo, chk, R):
    """DEPS: every function within CONE_DEPTH call-graph steps of the functions the property's rules looked at (callees,
    constructors of the classes involved, methods reached through self / super / specific method names, decorators)
    has exactly the effects of its reviewed form. The property's own rules establish the property GIVEN what these
    functions do; a function in the cone that no longer does what was reviewed removes that premise."""
    from ..callgraph import CallGraph
    from .dec_common import template_check
    cg = CallGraph(repo)
    depth = CONE_DEPTH.get(chk.prop, 2)
    done = set(getattr(chk, 'templated', ()))
    roots = sorted(chk.functions)
    cone = cg.cone(roots, depth)
    for q in roots:
        # a function the property's own rules looked at through a specific rule only is compared as well
        if q in repo.funcs:
            cone.setdefault(q, (0, q, 'analysed by the property\'s own rules'))
    idx = ref_index()
    n = without = 0
    missing = []
    for q in sorted(cone):
        if q in done:
            continue
        dist, parent, how = cone[q]
        if q not in idx:
            without += 1
            missing.append(q)
            continue
        refname, name, text = idx[q]
        if dist == 0:
            what = 'function the specific rules rest on does what its reviewed form does (%s)' % refname
        else:
            what = 'dependency (%s of %s, %d step%s from the analysed functions) does what its reviewed form does (%s)' % (
                how, parent.split(':')[-1], dist, '' if dist == 1 else 's', refname)
        R.run('DEPS', template_check, repo, chk, 'DEPS', q, name, what, text)
        n += 1
    chk.cone_functions = set(cone)
    chk.cone = {'depth': depth, 'functions': len(cone), 'compared': n, 'already_compared_by_own_rules': len(set(cone) & done), 'without_reference': without, 'functions_without_reference': missing}


TRANSPARENT_DECORATORS = ('staticmethod', 'classmethod', 'property', 'abstractmethod', 'jit', 'njit', 'for_examples', 'wraps', 'no_grad', 'inference_mode')


def decorator_rule(repo, chk):
    """DECOR: a decorator replaces the function by whatever it returns (a memoising wrapper, a retry loop, a cache keyed on
    part of the arguments). The functions the property rests on carry only decorators that hand the call through."""
    import ast
    from ..core import dotted
    n = 0
    first = None
    scope = set(chk.functions)
    # a helper that is new to the tree and sits next to the functions in scope is (part of) one of them, extracted
    mods = {q.split(':')[0] for q in scope}
    known = known_functions()
    for q in repo.funcs:
        if q not in known and q.split(':')[0] in mods:
            scope.add(q)
    for q in sorted(scope):
        fi = repo.funcs.get(q)
        if fi is None:
            continue
        first = first or fi
        for d in fi.node.decorator_list:
            nm = dotted(d.func if isinstance(d, ast.Call) else d) or '?'
            if nm.split('.')[-1] in TRANSPARENT_DECORATORS or nm.endswith('.setter'):
                continue
            n += 1
            chk.ob('DECOR', fi, d, 'functions in scope are called as written (no wrapping decorator)', False,
                   '@%s wraps %s: calls go through the wrapper, whose result need not be the function\'s' % (nm, fi.name),
                   construct='decorator %s on %s' % (nm.split('.')[-1], fi.name), robust=True)
    if first is not None:
        chk.ob('DECOR', first, first.node, '%d functions in scope carry only transparent decorators (%s)' % (len(chk.functions), ', '.join(TRANSPARENT_DECORATORS[:6])),
               n == 0, construct='decorators', robust=True)


# ----------------------------------------------------------------------------------------------------------------------
# DEFS: data definitions at module and class level
# ----------------------------------------------------------------------------------------------------------------------
_MODDEFS = None


def module_definitions(mod):
    """{name or Class.name: canonical value} of the data definitions a module makes outside its functions."""
    import ast
    import hashlib
    from ..core import canon, dotted
    out = {}

    def add(prefix, s):
        if isinstance(s, ast.Assign) and len(s.targets) == 1 and isinstance(s.targets[0], ast.Name):
            name, v = s.targets[0].id, s.value
        elif isinstance(s, ast.AnnAssign) and isinstance(s.target, ast.Name) and s.value is not None:
            name, v = s.target.id, s.value
        else:
            return
        if isinstance(v, ast.Call) and (dotted(v.func) or '').startswith(('logging.', 'typing.')):
            return
        if isinstance(v, ast.Subscript) and (dotted(v.value) or '') in ('Union', 'Optional', 'List', 'Dict', 'Tuple', 'Set'):
            return
        out[prefix + name] = hashlib.sha1(repr(canon(v)).encode()).hexdigest()[:12]
    for s in mod.tree.body:
        add('', s)
        if isinstance(s, ast.ClassDef) and not s.name.endswith('Test'):
            for c in s.body:
                add(s.name + '.', c)
    return out


def reviewed_definitions():
    global _MODDEFS
    if _MODDEFS is None:
        import json
        p = os.path.join(os.path.dirname(os.path.dirname(__file__)), 'refs', 'moddefs.json')
        _MODDEFS = json.load(open(p)) if os.path.exists(p) else {}
    return _MODDEFS


def definitions_rule(repo, chk):
    """DEFS: named tuples, enumerations, tables and constants defined at module or class level in the modules the property's
    functions live in have their reviewed value (a swapped field order of a namedtuple, a changed enum value or sentinel
    changes every function that uses it without touching any of them)."""
    reviewed = reviewed_definitions()
    mods = sorted({q.split(':')[0] for q in set(chk.functions) | set(chk.cone_functions)})
    n = bad = 0
    first = None
    for mn in mods:
        m = repo.modules.get(mn)
        if m is None or mn not in reviewed:
            continue
        now = module_definitions(m)
        some = next((repo.funcs[q] for q in sorted(chk.functions) if q.split(':')[0] == mn and q in repo.funcs), None) \
            or next((fi for q, fi in sorted(repo.funcs.items()) if q.split(':')[0] == mn), None)
        first = first or some
        for name, h in sorted(reviewed[mn].items()):
            n += 1
            if name in now and now[name] != h:
                bad += 1
                chk.ob('DEFS', some, None, 'module / class level definitions have their reviewed value', False,
                       '%s.%s is defined differently from the reviewed tree' % (mn, name), construct='definition %s.%s' % (mn.split('.')[-1], name), robust=True)
    if first is not None:
        chk.ob('DEFS', first, first.node, '%d data definitions at module / class level in %d modules have their reviewed value' % (n, len(mods)),
               bad == 0, construct='definitions', robust=True)
