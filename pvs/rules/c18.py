"""C18 - detection maps decode to lines in original-image coordinates (structural clauses)."""
import ast

from ..core import AnalysisError, call_name, dotted, src, walk_shallow, is_const, parents_map
from ..lib import Rules, Soft, need, find_loops
from . import refcheck

L = 'pero_ocr.layout_engines.cnn_layout_engine'
WHAT = {
    'parse': 'heights dilated vertically, baselines smoothed + vertical NMS + end-point subtraction + threshold, components labelled, points picked left to right in (x, y) order, heights = medians, everything scaled by the down-sampling once',
    'rotate_layout': 'coordinates of a rotated pass are mapped back with the inverse of np.rot90, identically for baselines, outlines and regions',
    'detect': 'the image is rotated, maps parsed, lines ordered, and the layout rotated back using the shape of the ROTATED image',
    'get_heights': 'sample points divided by the down-sampling, y clipped by rows and x by columns, 70th percentile, scaled back',
    'nonmaxima_suppression': 'a pixel survives iff it equals the vertical grey dilation',
    'baseline_to_textline': 'outline = baseline shifted by ascender above and descender below along the local normal',
    'order_lines_vertical': 'the three lists are permuted by one stable order',
}
# inverse of np.rot90(img, k) on points (x', y') of the rotated image with shape (S0, S1, ..): up to a constant <= 1
EXPECT = {
    1: (('-', 'y', 'S0'), ('+', 'x', None)),
    2: (('-', 'x', 'S1'), ('-', 'y', 'S0')),
    3: (('+', 'y', None), ('-', 'x', 'S1')),
}


def run(repo, chk):
    chk.explanation = ('AFFINE: the composed coordinate map of every rotation branch (flip = swap, S - column = negate + translate), interpreted symbolically, '
                       'equals the inverse of np.rot90 for that k, for all three point lists; the shape used is that of the rotated image (reaching definitions); '
                       'AXIS facts on get_heights / parse; functions equal their reference forms.')
    chk.note_undecided('one line per ridge', 'end-point and height accuracy (values)')
    chk.assumptions = ['np.rot90(img, k) on (x, y) of an H x W image: k=1 -> (y, W-1-x), k=2 -> (W-1-x, H-1-y), k=3 -> (H-1-y, x)', 'np.where(image) returns (rows = y, columns = x)']
    R = Rules(repo, chk)
    refcheck.run_all(R, repo, chk, 'RECUR', 'layoutdec_ref.py', WHAT)
    refcheck.run_all(R, repo, chk, 'RECUR', 'nets_ref.py', {'pn_get_maps': 'the map is cropped back to the down-sampled image (rows = shape[0], columns = shape[1])', 'get_maps_with_optimal_resolution': 'the down-sampling returned is the one the returned map was computed with'}, only=('pn_get_maps', 'get_maps_with_optimal_resolution', 'get_med_height', 'pn_init', 'net_init', 'le_init'))
    refcheck.run_all(R, repo, chk, 'RECUR', 'geom_ref.py', {}, only=('region_from_textlines', 'alpha_shape', 'check_polygon', 'filter_polygons', 'get_penalty', 'get_pair_penalty', 'get_circumradius'))
    R.run('AFFINE', affine, repo, chk, soft_for=[L + ':LayoutEngine.rotate_layout', L + ':LayoutEngine.detect'])
    R.run('AXIS', axis, repo, Soft(chk))
    chk.expect('RECUR', 22)
    chk.expect('AFFINE', 10)
    chk.expect('AXIS', 4)


def _interp(stmts, shape_name, lists):
    """Symbolic effect of a branch on each point list: name -> ((sign, var, const), (sign, var, const))."""
    st = {n: (('+', 'x', None), ('+', 'y', None)) for n in lists}
    consts = {}     # name -> tuple of symbols, for shape_array = np.asarray(shape[:2][::-1])

    def sym(e):
        t = ' '.join(src(e).split())
        if t == '%s[0]' % shape_name:
            return 'S0'
        if t == '%s[1]' % shape_name:
            return 'S1'
        return None

    def neg(comp, s):
        sign, var, c = comp
        if c is not None:
            raise AnalysisError('double translation in rotate_layout')
        return ('-' if sign == '+' else '+', var, s)
    for s in stmts:
        if isinstance(s, ast.Assign) and isinstance(s.targets[0], ast.Name) and isinstance(s.value, ast.ListComp) and s.targets[0].id in lists:
            name = s.targets[0].id
            it = s.value.generators[0].iter
            need(isinstance(it, ast.Name) and it.id == name, 'list %s rebuilt from another list' % name)
            v = s.value.generators[0].target.id
            e = s.value.elt
            if isinstance(e, ast.Call) and (call_name(e) or '') == 'np.flip' and src(e.args[0]) == v and any(k.arg == 'axis' and is_const(k.value, 1) for k in e.keywords):
                a, b = st[name]
                st[name] = (b, a)
            elif isinstance(e, ast.BinOp) and isinstance(e.op, ast.Sub) and isinstance(e.left, ast.Name) and e.left.id in consts and src(e.right) == v:
                a, b = st[name]
                st[name] = (neg(a, consts[e.left.id][0]), neg(b, consts[e.left.id][1]))
            else:
                raise AnalysisError('unrecognised list transformation: %s' % src(s))
        elif isinstance(s, ast.Assign) and isinstance(s.targets[0], ast.Name) and isinstance(s.value, ast.Name) and s.value.id in consts:
            consts[s.targets[0].id] = consts[s.value.id]
        elif isinstance(s, ast.Assign) and isinstance(s.targets[0], ast.Name):
            t = ' '.join(src(s.value).split())
            if t in ('np.asarray(%s[:2][::-1])' % shape_name, 'np.array(%s[:2][::-1])' % shape_name):
                consts[s.targets[0].id] = ('S1', 'S0')
            elif t in ('np.asarray(%s[:2])' % shape_name, 'np.array(%s[:2])' % shape_name):
                consts[s.targets[0].id] = ('S0', 'S1')
            else:
                raise AnalysisError('unrecognised statement in rotate_layout: %s' % src(s))
        elif isinstance(s, ast.For) and isinstance(s.iter, ast.Name) and s.iter.id in lists:
            name = s.iter.id
            v = s.target.id
            for b in s.body:
                ok = False
                if isinstance(b, ast.Assign) and isinstance(b.targets[0], ast.Subscript) and isinstance(b.value, ast.BinOp) and isinstance(b.value.op, ast.Sub):
                    tg = b.targets[0]
                    if src(tg.value) == v and isinstance(tg.slice, ast.Tuple) and isinstance(tg.slice.elts[1], ast.Constant) and src(b.value.right) == src(tg):
                        i = tg.slice.elts[1].value
                        sy = sym(b.value.left)
                        if sy and i in (0, 1):
                            comps = list(st[name])
                            comps[i] = neg(comps[i], sy)
                            st[name] = tuple(comps)
                            ok = True
                if not ok:
                    raise AnalysisError('unrecognised in-place update: %s' % src(b))
        elif isinstance(s, (ast.Pass, ast.Expr)):
            continue
        else:
            raise AnalysisError('unrecognised statement in rotate_layout: %s' % src(s)[:80])
    return st


def affine(repo, chk):
    fi = repo.func(L + ':LayoutEngine.rotate_layout')
    params = [p for p in fi.params if p != 'self']
    need(len(params) == 5, 'rotate_layout signature changed')
    lists, rotp, shape = params[:3], params[3], params[4]
    branches = {}
    node = next((s for s in fi.node.body if isinstance(s, ast.If)), None)
    while node is not None:
        t = node.test
        if isinstance(t, ast.Compare) and isinstance(t.left, ast.Name) and t.left.id == rotp and isinstance(t.ops[0], ast.Eq) and isinstance(t.comparators[0], ast.Constant):
            branches[t.comparators[0].value] = node.body
        node = node.orelse[0] if len(node.orelse) == 1 and isinstance(node.orelse[0], ast.If) else None
    for k in (1, 2, 3):
        need(k in branches, 'rotate_layout has no branch for rot == %d' % k)
        st = _interp(branches[k], shape, lists)
        for name in lists:
            ok = st[name] == EXPECT[k]
            chk.ob('AFFINE', fi, branches[k][0], 'rot %d, %s: composed map (x, y) <- %s equals the inverse of np.rot90(k=%d)' % (k, name, _show(EXPECT[k]), k), ok,
                   'found (x, y) <- %s; S0, S1 = rows, columns of the rotated image' % _show(st[name]), construct='rot %d %s' % (k, name))
    ret = [s for s in walk_shallow(fi.node) if isinstance(s, ast.Return)]
    order = [e.id for e in ret[-1].value.elts] if ret and isinstance(ret[-1].value, ast.Tuple) else []
    chk.ob('AFFINE', fi, ret[-1], 'the three lists are returned in the order they were passed', order == lists, construct='return order')
    # detect(): same rot for rot90 and rotate_layout; shape of the ROTATED image
    det = repo.func(L + ':LayoutEngine.detect')
    rot90 = [s for s in walk_shallow(det.node) if isinstance(s, ast.Assign) and isinstance(s.value, ast.Call) and (call_name(s.value) or '') == 'np.rot90']
    need(rot90, 'detect() does not rotate the image')
    kk = next((k.value for k in rot90[0].value.keywords if k.arg == 'k'), rot90[0].value.args[1] if len(rot90[0].value.args) > 1 else None)
    call = [c for c in ast.walk(det.node) if isinstance(c, ast.Call) and (call_name(c) or '').endswith('rotate_layout')]
    need(call, 'detect() does not call rotate_layout')
    c = call[0]
    ok = kk is not None and len(c.args) >= 5 and src(kk) == src(c.args[3])
    chk.ob('AFFINE', det, c, 'the layout is rotated back with the same number of quarter turns the image was rotated by', ok, construct='same rot')
    img = rot90[0].targets[0].id
    shape_arg = c.args[4]
    srcs = det.flow.sources(shape_arg, c)
    uses = [(e, n) for e in srcs for n in ast.walk(e) if isinstance(n, ast.Name) and n.id == img]
    ok = False
    rot_nid = det.cfg.node_of(rot90[0])
    for e, n in uses:
        try:
            ds = det.flow.defs_reaching(img, n)
        except AnalysisError:
            continue
        if any(d.node == rot_nid for d in ds):
            ok = True
    chk.ob('AFFINE', det, c, 'the shape handed to rotate_layout is that of the rotated image', ok,
           'the shape derives from the image as it was before np.rot90: on non-square pages every coordinate of a 90/270 degree pass is shifted by |H - W|',
           construct='shape of rotated image')


def _show(m):
    def one(c):
        sign, var, k = c
        return ('%s - %s\'' % (k, var)) if sign == '-' else ('%s\'' % var + (' + %s' % k if k else ''))
    return '(%s, %s)' % (one(m[0]), one(m[1]))


def axis(repo, chk):
    gh = repo.func(L + ':LayoutEngine.get_heights')
    t = ' '.join(src(gh.node).split())
    ok = 'y_inds = np.clip(np.round(inds[:, 1]).astype(int), 0, heights_map.shape[0] - 1)' in t and 'x_inds = np.clip(np.round(inds[:, 0]).astype(int), 0, heights_map.shape[1] - 1)' in t
    chk.ob('AXIS', gh, gh.node, 'y indices come from column 1 of the points and are clipped by rows (shape[0]); x from column 0, clipped by columns (shape[1])', ok, construct='get_heights axes')
    chk.ob('AXIS', gh, gh.node, 'the height map is indexed [y, x]', 'heights_map[y_inds, x_inds]' in t or 'heights_map[(y_inds, x_inds)]' in t, construct='get_heights index order')
    chk.ob('AXIS', gh, gh.node, 'points are divided by the down-sampling, heights multiplied back by it', 'inds /= ds' in t and 'return heights_pred * ds' in t, construct='get_heights scale')
    pa = repo.func(L + ':LayoutEngine.parse')
    t2 = ' '.join(src(pa.node).split())
    chk.ob('AXIS', pa, pa.node, 'matrix indices (row, col) from np.where become points (x = col, y = row)', 'np.stack([inds[1][bl_inds], inds[0][bl_inds]], axis=1)' in t2, construct='parse xy order')
    chk.ob('AXIS', pa, pa.node, 'baselines and heights are scaled by the down-sampling exactly once',
           t2.count('downsample *') == 3 and 'b_list.append(downsample * pos.astype(float))' in t2 and 'h_list.append([downsample * heights_pred[0], downsample * heights_pred[1]])' in t2,
           construct='parse scale once')
