"""C06 - ALTO export never loses, reorders or invents text (structural clauses)."""
import ast

from ..core import AnalysisError, call_name, dotted, src, walk_shallow, is_const, linear, parents_map
from ..lib import Rules, Soft, need, method_calls, const_str, guards_of, is_none_test, find_loops
from ..xmltable import writer_facts, ReaderAnalysis
from . import refcheck
from .c15 import negative_slices, positive_guard

L = 'pero_ocr.core.layout'
GEOM = ('HEIGHT', 'WIDTH', 'VPOS', 'HPOS', 'BASELINE')
WHAT = {
    'to_altoxml_string': 'the whole export: header, page, margins, print space accumulation, per-line alignment or fallback, words, confidence filter',
    'from_altoxml': 'page id without the "id_" prefix, size, blocks, lines, words joined by one blank',
    'get_hwvh': '(height, width, vpos, hpos) from the y / x extent of a polygon',
    '_reverse': 'runs of Arabic / non-Arabic characters; trailing delimiters of a non-Arabic run move to the following Arabic run; every run is kept; Arabic runs and the run order are reversed',
    'is_arabic_line': 'a line is Arabic if one of its white-space separated words is',
    'label_form_to_string': 'the order conversion is its own inverse (same routine both ways)',
}


def run(repo, chk):
    chk.explanation = ('TOKEN: one notion of white space for every tokenisation of the transcription; SIBLING: both String-emitting branches apply the same '
                       'per-word transform; INTATTR: geometry attributes are str(int(..)) / integer literals; CDEP: a line is removed only under conf < threshold; '
                       'ACCSEED: running minima are seeded with an upper bound, running maxima with a lower bound; PAIR: margins are the complement of the print '
                       'space (linear normal forms); TABLE: the importer reads what the exporter writes; NEGSLICE: guarded negative slices in the order conversion.')
    chk.note_undecided('export never raises (exception-freedom of numpy / scipy / shapely calls)', 'word confidences in [0,1] (see C16)',
                       'the order conversion is an involution (values)', 'numeric geometry of word boxes')
    chk.assumptions = ['str.split() without arguments splits on runs of characters for which str.isspace() is true', 'coordinates lie within the page (ACCSEED bound lattice)']
    R = Rules(repo, chk)
    refcheck.run_all(R, repo, chk, 'RECUR', 'alto_ref.py', WHAT)
    refcheck.run_all(R, repo, chk, 'RECUR', 'driver_ref.py', {}, only=('create_ocr_processing_element',))
    refcheck.run_all(R, repo, chk, 'RECUR', 'crop_ref.py', {'get_crop_inputs': 'line coordinates used for the word boxes'}, only=('get_crop_inputs', 'reverse_line_mapping', 'crop_init'))
    refcheck.run_all(R, repo, chk, 'RECUR', 'conf_ref.py', {'get_line_confidence': 'word confidences come from the per-character confidences of the aligned line'}, only=('get_line_confidence', 'get_line_confidence_transformer'))
    refcheck.run_all(R, repo, chk, 'RECUR', 'fa_ref.py', {'align_text': 'character positions used for the word boxes'}, only=('align_text', 'force_align'))
    refcheck.run_all(R, repo, chk, 'RECUR', 'logits_ref.py', {}, only=('get_dense_logits', 'get_full_logprobs', 'log_softmax'))
    R.run('TOKEN', token, repo, chk)
    R.run('SIBLING', sibling, repo, chk)
    R.run('INTATTR', intattr, repo, chk)
    R.run('CDEP', cdep, repo, chk)
    R.run('ACCSEED', accseed, repo, chk)
    R.run('PAIR', margins, repo, Soft(chk))
    R.run('TABLE', table, repo, chk)
    R.run('NEGSLICE', negslice, repo, chk)
    R.run('EXCSET', excset, repo, chk)
    chk.expect('EXCSET', 3)
    chk.expect('RECUR', 20)
    chk.expect('TOKEN', 4)
    chk.expect('SIBLING', 2)
    chk.expect('INTATTR', 30)
    chk.expect('CDEP', 2)
    chk.expect('ACCSEED', 8)
    chk.expect('PAIR', 8)
    chk.expect('TABLE', 8)
    chk.expect('NEGSLICE', 2)


def excset(repo, chk):
    """The alignment attempt of the export is wrapped in a try whose handler writes the words unaligned. The fields of a line that
    may be absent (those TextLine.__init__ defaults to None) are dereferenced inside that try; each kind of dereference of
    None raises a known exception class (attribute access: AttributeError; subscript, len(), call, iteration: TypeError), and
    the handler has to list every one of them - otherwise `posteriors absent` makes the export fail instead of falling back."""
    fi = repo.func(L + ':PageLayout.to_altoxml_string')
    init = repo.func(L + ':TextLine.__init__')
    a = init.node.args
    pos = a.posonlyargs + a.args
    optional = {p_.arg for p_, d_ in zip(pos[len(pos) - len(a.defaults):], a.defaults) if isinstance(d_, ast.Constant) and d_.value is None}
    optional |= {k.arg for k, d_ in zip(a.kwonlyargs, a.kw_defaults) if isinstance(d_, ast.Constant) and d_.value is None}
    tries = [t for t in ast.walk(fi.node) if isinstance(t, ast.Try) and any(call_name(c) == 'align_text' for c in ast.walk(ast.Module(body=t.body, type_ignores=[])) if isinstance(c, ast.Call))]
    need(len(tries) == 1, 'the try block around align_text not found in to_altoxml_string')
    t = tries[0]
    caught = set()
    for h in t.handlers:
        if h.type is None:
            caught.add('BaseException')
        else:
            for x in (h.type.elts if isinstance(h.type, ast.Tuple) else [h.type]):
                caught.add(dotted(x) or '?')
    everything = bool(caught & {'Exception', 'BaseException'})

    def is_field(e):
        return isinstance(e, ast.Attribute) and isinstance(e.value, ast.Name) and e.value.id == 'line' and e.attr in optional
    raised = {}
    body = ast.Module(body=t.body, type_ignores=[])
    for n in ast.walk(body):
        if isinstance(n, ast.Attribute) and is_field(n.value):
            raised.setdefault('AttributeError', []).append(n)
        elif isinstance(n, ast.Subscript) and is_field(n.value):
            raised.setdefault('TypeError', []).append(n)
        elif isinstance(n, ast.Call) and call_name(n) in ('len', 'iter', 'zip', 'enumerate', 'list', 'dict') and any(is_field(x) for x in n.args):
            raised.setdefault('TypeError', []).append(n)
        elif isinstance(n, (ast.For, ast.comprehension)) and is_field(n.iter):
            raised.setdefault('TypeError', []).append(n)
    need(raised, 'no dereference of an optional line field inside the alignment attempt')
    for cls, nodes in sorted(raised.items()):
        ok = everything or cls in caught
        chk.ob('EXCSET', fi, nodes[0], '%s from an absent line field (%s) inside the alignment attempt is caught by its handler' % (
            cls, ', '.join(sorted({src(x.value if isinstance(x, (ast.Attribute, ast.Subscript)) else (x.args[0] if isinstance(x, ast.Call) else x.iter)) for x in nodes}))),
            ok, 'handler catches %s' % sorted(caught), construct='handler covers %s' % cls)
    chk.ob('EXCSET', fi, t, 'the handler of the alignment attempt writes the words unaligned (it does not re-raise)',
           not any(isinstance(x, ast.Raise) for h in t.handlers for x in ast.walk(h)), construct='handler falls back')


def token(repo, chk):
    fi = repo.func(L + ':PageLayout.to_altoxml_string')
    sites = []
    for n in ast.walk(fi.node):
        if isinstance(n, ast.Call) and isinstance(n.func, ast.Attribute) and n.func.attr == 'split' and 'transcription' in src(n.func.value):
            if not n.args and not n.keywords:
                sites.append((n, 'isspace', 'str.split()'))
            else:
                a = const_str(n.args[0]) if n.args else None
                sites.append((n, 'literal %r' % a, 'str.split(%r)' % a))
        if isinstance(n, (ast.ListComp, ast.GeneratorExp)) and 'transcription' in src(n.generators[0].iter):
            for t in n.generators[0].ifs:
                if isinstance(t, ast.Compare) and isinstance(t.ops[0], ast.Eq) and const_str(t.comparators[0]) is not None:
                    sites.append((t, 'literal %r' % const_str(t.comparators[0]), 'char == %r' % const_str(t.comparators[0])))
                elif isinstance(t, ast.Call) and isinstance(t.func, ast.Attribute) and t.func.attr == 'isspace':
                    sites.append((t, 'isspace', 'char.isspace()'))
                elif isinstance(t, ast.Compare) and isinstance(t.ops[0], ast.In):
                    sites.append((t, 'set ' + src(t.comparators[0]), 'char in ' + src(t.comparators[0])))
    need(len(sites) >= 4, 'fewer tokenisation sites of the transcription than confirmed by reading (%d)' % len(sites))
    classes = {}
    for n, cls, how in sites:
        classes.setdefault(cls, []).append((n, how))
    major = max(classes, key=lambda k: len(classes[k]))
    for n, cls, how in sites:
        chk.ob('TOKEN', fi, n, 'the transcription is tokenised by %s: one notion of white space (%s) everywhere in the export' % (how, major), cls == major,
               'word boxes and word contents come from different segmentations: words are lost or an IndexError is raised for other white space',
               construct='tokenise ' + how + ' L%d' % sites.index((n, cls, how)))


def sibling(repo, chk):
    fi = repo.func(L + ':PageLayout.to_altoxml_string')
    pm = parents_map(fi.node)
    sets = [c for c in method_calls(fi.node, 'set') if len(c.args) == 2 and const_str(c.args[0]) == 'CONTENT']
    need(len(sets) >= 2, 'fewer than two String/@CONTENT writes')
    # group by enclosing try part
    tries = [n for n in ast.walk(fi.node) if isinstance(n, ast.Try)]

    def part(c):
        for t in tries:
            for h in t.handlers:
                if any(x is c for x in ast.walk(h)):
                    return 'fallback'
            if any(x is c for s in t.orelse for x in ast.walk(s)):
                return 'aligned'
        return 'other'
    groups = {}
    for c in sets:
        groups.setdefault(part(c), []).append(c)
    need({'fallback', 'aligned'} <= set(groups), 'String writes found in %s, expected the aligned branch and the fallback branch' % sorted(groups))
    for g in ('aligned', 'fallback'):
        conv = raw = False
        for c in groups[g]:
            v = c.args[1]
            arab = [(' '.join(src(t).split()), pol) for t, pol in guards_of(pm, c) if 'arabic' in src(t)]
            is_conv = any(isinstance(x, ast.Call) and isinstance(x.func, ast.Attribute) and x.func.attr in ('label_form_to_string', 'string_to_label_form') for x in ast.walk(v))
            if isinstance(v, ast.IfExp) and 'arabic' in src(v.test):
                conv = raw = True
                continue
            if is_conv and any(p for t, p in arab):
                conv = True
            if not is_conv and any(not p for t, p in arab):
                raw = True
        chk.ob('SIBLING', fi, groups[g][0], '%s branch: Arabic lines get the logical-order conversion per word, other lines the word as it is' % g, conv and raw,
               'the two String-emitting branches disagree: an Arabic line whose alignment fails is exported in label order', construct='content transform ' + g)


def intattr(repo, chk):
    fi = repo.func(L + ':PageLayout.to_altoxml_string')
    flow = fi.flow
    for c in method_calls(fi.node, 'set'):
        if len(c.args) != 2 or const_str(c.args[0]) not in GEOM:
            continue
        v = c.args[1]
        ok = False
        how = ' '.join(src(v).split())
        if isinstance(v, ast.Constant) and isinstance(v.value, str) and v.value.lstrip('-').isdigit():
            ok = True
        elif isinstance(v, ast.Call) and dotted(v.func) == 'str' and v.args:
            a = v.args[0]
            if isinstance(a, ast.Call) and dotted(a.func) == 'int':
                ok = True
            elif isinstance(a, ast.Constant) and isinstance(a.value, int):
                ok = True
            elif isinstance(a, ast.Subscript) and src(a.value) == 'self.page_size':
                ok = True          # annotated list[int, int]; from_pagexml / from_altoxml build it with int()
            elif isinstance(a, ast.Name):
                inl = flow.inline(a, c)
                ds = flow.defs_reaching(a.id, c)
                ok = (isinstance(inl, ast.Call) and dotted(inl.func) == 'int') or \
                    (bool(ds) and all(d.value is not None and isinstance(d.value, ast.Call) and dotted(d.value.func) == 'int' for d in ds))
        elif isinstance(v, ast.Call) and isinstance(v.func, ast.Attribute) and v.func.attr == 'format' and const_str(v.func.value) == '{}' and v.args:
            a = v.args[0]
            ok = isinstance(a, ast.Call) and dotted(a.func) == 'int'
        elif isinstance(v, ast.JoinedStr) and len(v.values) == 1 and isinstance(v.values[0], ast.FormattedValue):
            a = v.values[0].value
            ok = isinstance(a, ast.Call) and dotted(a.func) == 'int'
        chk.ob('INTATTR', fi, c, '%s is written as an integer' % const_str(c.args[0]), ok, 'value %s is not str(int(..)) / "{}".format(int(..)) / an integer literal' % how,
               construct='%s = %s' % (const_str(c.args[0]), how))


def cdep(repo, chk):
    fi = repo.func(L + ':PageLayout.to_altoxml_string')
    pm = parents_map(fi.node)
    rem = [c for c in method_calls(fi.node, 'remove')]
    need(len(rem) == 1, 'expected exactly one element removal in the export, found %d' % len(rem))
    gs = guards_of(pm, rem[0])
    nonnull = any(pol and is_none_test(t) and is_none_test(t)[0] == 'isnot' and 'transcription_confidence' in src(t) for t, pol in gs)
    strict = False
    for t, pol in gs:
        if pol and isinstance(t, ast.Compare) and len(t.ops) == 1 and 'min_line_confidence' in src(t):
            l, r = src(t.left), src(t.comparators[0])
            if isinstance(t.ops[0], ast.Lt) and 'transcription_confidence' in l and r == 'min_line_confidence':
                strict = True
            if isinstance(t.ops[0], ast.Gt) and 'transcription_confidence' in r and l == 'min_line_confidence':
                strict = True
    chk.ob('CDEP', fi, rem[0], 'a line is removed only when its confidence is known', nonnull, construct='removal needs a confidence')
    chk.ob('CDEP', fi, rem[0], 'a line is removed only when its confidence is strictly below the requested minimum', strict,
           'tests: %s' % [(' '.join(src(t).split()), p) for t, p in gs if 'confidence' in src(t)], construct='removal condition')
    recv = src(rem[0].func.value)
    made = fi.flow.inline(rem[0].args[0], rem[0], stop={recv})
    ok = isinstance(made, ast.Call) and (call_name(made) or '').endswith('SubElement') and len(made.args) >= 2 and src(made.args[0]) == recv \
        and const_str(made.args[1]) == 'TextLine'
    chk.ob('CDEP', fi, rem[0], 'what is removed is the current line from its own block', ok, construct='removal target')


def accseed(repo, chk):
    fi = repo.func(L + ':PageLayout.to_altoxml_string')
    loop = next((l for l in find_loops(fi.node) if 'self.regions' in src(l.iter)), None)
    need(loop is not None, 'block loop not found')
    seeds = {}
    for s in fi.node.body:
        if s is loop:
            break
        if isinstance(s, ast.Assign) and isinstance(s.targets[0], ast.Name):
            seeds[s.targets[0].id] = s.value

    def cls(e):
        """'Lo' | 'Hi' | None of an expression at loop entry."""
        if isinstance(e, ast.Constant) and isinstance(e.value, (int, float)):
            return 'Lo' if e.value <= 0 else ('Hi' if e.value >= 1e4 else None)
        t = ' '.join(src(e).split())
        if t.startswith('self.page_size[') or t in ('float("inf")', "float('inf')", 'np.inf', 'math.inf'):
            return 'Hi'
        if t in ('-np.inf', '-math.inf', 'float("-inf")', "float('-inf')"):
            return 'Lo'
        if isinstance(e, ast.Name) and e.id in seeds:
            return cls(seeds[e.id])
        if isinstance(e, ast.BinOp) and isinstance(e.op, ast.Add):
            a, b = cls(e.left), cls(e.right)
            if a == 'Hi' or b == 'Hi':
                return 'Hi'
            if a == 'Lo' and b == 'Lo':
                return 'Lo'
        return None
    n = 0
    for s in loop.body:
        if isinstance(s, ast.Assign) and isinstance(s.targets[0], ast.Name) and s.targets[0].id in seeds:
            acc = s.targets[0].id
            val = fi.flow.inline(s.value, s, stop=set(seeds))
            if not (isinstance(val, ast.Call) and dotted(val.func) in ('max', 'min')):
                continue
            kind = dotted(val.func)
            ops = val.args[0].elts if len(val.args) == 1 and isinstance(val.args[0], (ast.List, ast.Tuple)) else val.args
            carried = [o for o in ops if any(isinstance(x, ast.Name) and x.id in seeds for x in ast.walk(o))]
            fresh = [o for o in ops if o not in carried]
            need(carried and fresh, 'accumulator %s: cannot split carried / new operand' % acc)
            c0 = cls(carried[0])
            want = 'Lo' if kind == 'max' else 'Hi'
            n += 1
            chk.ob('ACCSEED', fi, s, 'running %s %s starts from a %s bound of the page coordinates' % (kind, acc, 'lower' if want == 'Lo' else 'upper'), c0 == want,
                   'at loop entry the carried operand %s evaluates to %s: a running maximum seeded with the page size can never shrink to the blocks, so the print space always reaches the page edge'
                   % (' '.join(src(carried[0]).split()), c0), construct='accumulator %s' % acc)
            # what is accumulated: vpos / hpos for minima, vpos+height / hpos+width for maxima
            f = ' '.join(src(fresh[0]).split())
            okf = ('+' in f) == (kind == 'max')
            chk.ob('ACCSEED', fi, s, '%s accumulates the block\'s %s edge (%s)' % (acc, 'far' if kind == 'max' else 'near', f), okf, construct='accumulated edge %s' % acc)
    need(n == 4, 'expected four print-space accumulators (top, left, bottom, right), found %d' % n)
    # the repo's own correct idiom: CoupledRegions.__init__ seeds x_min, x_max, y_min, y_max = 1e5, 0, 1e5, 0
    cr = repo.func('pero_ocr.layout_engines.smart_sorter:CoupledRegions.__init__')
    ex = [s for s in walk_shallow(cr.node) if isinstance(s, ast.Assign) and isinstance(s.targets[0], ast.Tuple) and isinstance(s.value, ast.Tuple) and len(s.value.elts) == 4]
    need(ex, 'positive example vanished: CoupledRegions bounding-box seeds')
    for t, v in zip(ex[0].targets[0].elts, ex[0].value.elts):
        want = 'Hi' if t.attr.endswith('min') else 'Lo'
        chk.ob('ACCSEED', cr, ex[0], 'reference idiom: %s seeded with a %s bound' % (t.attr, 'upper' if want == 'Hi' else 'lower'), cls(v) == want, construct='seed ' + t.attr)


def margins(repo, chk):
    fi = repo.func(L + ':PageLayout.to_altoxml_string')
    writes, children, _ = writer_facts(repo, fi)
    val = {}
    for w in writes:
        if w.tag in ('TopMargin', 'LeftMargin', 'RightMargin', 'BottomMargin', 'PrintSpace', 'Page') and w.attr in ('HEIGHT', 'WIDTH', 'VPOS', 'HPOS'):
            v = w.value
            inner = None
            for x in ast.walk(v):
                if isinstance(x, ast.Call) and dotted(x.func) == 'int' and x.args:
                    inner = x.args[0]
                    break
            if inner is None:
                if isinstance(v, ast.Constant):
                    inner = ast.Constant(value=int(v.value))
                elif isinstance(v, ast.Call) and dotted(v.func) == 'str' and v.args:
                    inner = v.args[0]
            if inner is not None:
                val[(w.tag, w.attr)] = (linear(inner), w.node)
    need(len(val) >= 20, 'margin / print space attributes not found (%d)' % len(val))
    Z = linear(ast.Constant(value=0))
    H, W = val[('Page', 'HEIGHT')][0], val[('Page', 'WIDTH')][0]
    ps = {a: val[('PrintSpace', a)][0] for a in ('HEIGHT', 'WIDTH', 'VPOS', 'HPOS')}
    ids = [
        ('TopMargin', 'HEIGHT', ps['VPOS'], 'top margin height = print space top'),
        ('TopMargin', 'WIDTH', W, 'top margin spans the page width'),
        ('LeftMargin', 'WIDTH', ps['HPOS'], 'left margin width = print space left'),
        ('LeftMargin', 'HEIGHT', H, 'left margin spans the page height'),
        ('RightMargin', 'HPOS', ps['HPOS'] + ps['WIDTH'], 'right margin starts at the right edge of the print space'),
        ('RightMargin', 'WIDTH', W - (ps['HPOS'] + ps['WIDTH']), 'right margin width = page width - right edge of the print space'),
        ('RightMargin', 'HEIGHT', H, 'right margin spans the page height'),
        ('BottomMargin', 'VPOS', ps['VPOS'] + ps['HEIGHT'], 'bottom margin starts at the bottom edge of the print space'),
        ('BottomMargin', 'HEIGHT', H - (ps['VPOS'] + ps['HEIGHT']), 'bottom margin height = page height - bottom edge of the print space'),
        ('BottomMargin', 'WIDTH', W, 'bottom margin spans the page width'),
        ('TopMargin', 'VPOS', Z, 'top margin at the top'), ('LeftMargin', 'HPOS', Z, 'left margin at the left'),
    ]
    for tag, attr, want, what in ids:
        got = val.get((tag, attr))
        chk.ob('PAIR', fi, got[1] if got else fi.node, what, got is not None and got[0] == want, 'written %s, expected %s' % (got[0] if got else None, want),
               construct='%s@%s' % (tag, attr))
    # page size axes
    ok = 'page_size[0]' in src(val[('Page', 'HEIGHT')][1]) and 'page_size[1]' in src(val[('Page', 'WIDTH')][1])
    chk.ob('PAIR', fi, val[('Page', 'HEIGHT')][1], 'page HEIGHT is page_size[0], WIDTH is page_size[1]', ok, construct='page size axes')


def table(repo, chk):
    wfi = repo.func(L + ':PageLayout.to_altoxml_string')
    writes, children, _ = writer_facts(repo, wfi)
    wkeys = {(w.tag, w.attr) for w in writes}
    ra = ReaderAnalysis(repo, [repo.func(L + ':PageLayout.from_altoxml')])
    reads = ra.pair()
    need(len(reads) >= 7, 'ALTO reader table too small')
    seen = set()
    for r in reads:
        for t in r.tags:
            if (t, r.attr) in seen:
                continue
            seen.add((t, r.attr))
            chk.ob('TABLE', r.fi, r.node, '%s@%s read by the importer is written by the exporter' % (t, r.attr), (t, r.attr) in wkeys, construct='%s@%s' % (t, r.attr))
    # "id_" prefix <-> [3:]
    pid = [w for w in writes if (w.tag, w.attr) == ('Page', 'ID')]
    need(pid, 'Page@ID is not written')
    prefixes = set()
    for w in pid:
        v = w.value
        if isinstance(v, ast.BinOp) and isinstance(v.op, ast.Add) and const_str(v.left) is not None:
            prefixes.add(const_str(v.left))
        else:
            prefixes.add(None)
    rfi = repo.func(L + ':PageLayout.from_altoxml')
    cut = [n for n in ast.walk(rfi.node) if isinstance(n, ast.Subscript) and isinstance(n.slice, ast.Slice) and "attrib['ID']" in src(n.value)]
    k = cut[0].slice.lower.value if cut and isinstance(cut[0].slice.lower, ast.Constant) else None
    ok = len(prefixes) == 1 and None not in prefixes and k == len(next(iter(prefixes)))
    chk.ob('TABLE', rfi, cut[0] if cut else rfi.node, 'the importer strips exactly the prefix the exporter adds to the page id', ok, 'prefixes %s, stripped %s characters' % (sorted(map(str, prefixes)), k),
           construct='page id prefix')
    t = ' '.join(src(rfi.node).split())
    ok = "word + ' ' + text.get('CONTENT')" in t and "word + text.get('CONTENT')" in t
    chk.ob('TABLE', rfi, rfi.node, 'words are read from String/@CONTENT and joined by one blank', ok, construct='join words', soft=True)
    # text content of lines is carried by String/@CONTENT only
    chk.ob('TABLE', wfi, wfi.node, 'String/@CONTENT is written', ('String', 'CONTENT') in wkeys, construct='String@CONTENT')


def negslice(repo, chk):
    ah = repo.func('pero_ocr.core.arabic_helper:ArabicHelper._reverse')
    pm = parents_map(ah.node)
    found = negative_slices(ah.node)
    need(len(found) >= 2, 'expected the two trailing-delimiter slices in _reverse')
    for n, which, var in found:
        chk.ob('NEGSLICE', ah, n, 'seq.chars[:-%s] is taken only when %s > 0 (x[:-0] would drop the whole run)' % (src(var), src(var)), positive_guard(pm, n, src(var)),
               construct='slice ' + ' '.join(src(n).split()) + ' L%d' % found.index((n, which, var)))
