"""C19 - engine merging keeps, per line, the most confident engine's result (structural clauses)."""
import ast

from ..core import call_name, dotted, src, walk_shallow, is_const, parents_map
from ..lib import Soft, Rules, need, attr_stores, find_loops, guards_of
from . import refcheck

M = 'user_scripts.merge_ocr_results'
WHAT = {
    'get_confidences': 'per-line character map built from THAT line\'s character table; 0.5 fallback on alignment failure; empty for empty text',
    'merge_layouts': 'lines zipped across layouts; strict > against an accumulator starting at 0; text, logits, characters and confidence copied from the winner',
}


def run(repo, chk):
    chk.explanation = ('SIBLING: the three copied fields come from one loop variable and the recorded confidence is the compared value; '
                       'FACTS: strict > against an accumulator initialised to 0 and updated with the winner; WRSET: only those four attributes are stored.')
    chk.note_undecided('"merging a result with itself changes nothing" (values)', 'the confidence values themselves (C16)')
    R = Rules(repo, chk)
    refcheck.run_all(R, repo, chk, 'RECUR', 'mergeocr_ref.py', WHAT)
    refcheck.run_all(R, repo, chk, 'RECUR', 'conf_ref.py', {'get_line_confidence': 'the per-character confidences whose mean is compared'}, only=('get_line_confidence', 'get_line_confidence_transformer'))
    R.run('SIBLING', sibling, repo, Soft(chk))
    chk.expect('SIBLING', 6)
    chk.expect('RECUR', 4)


def sibling(repo, chk):
    fi = repo.func(M + ':merge_layouts')
    pm = parents_map(fi.node)
    stores = [(s, t, v) for s, t, v in attr_stores(fi.node) if isinstance(t.value, ast.Name)]
    need(stores, 'merge_layouts stores no attributes')
    recv = {t.value.id for s, t, v in stores}
    need(len(recv) == 1, 'attribute stores go to several objects: %s' % recv)
    merged = recv.pop()
    fields = {t.attr: (s, v) for s, t, v in stores}
    chk.ob('SIBLING', fi, stores[0][0], 'only transcription, logits, characters and transcription_confidence of the merged line are written (ids and geometry untouched)',
           set(fields) == {'transcription', 'logits', 'characters', 'transcription_confidence'}, 'stored: %s' % sorted(fields), construct='write set')
    srcvars = set()
    for f in ('transcription', 'logits', 'characters'):
        if f in fields:
            v = fields[f][1]
            ok = isinstance(v, ast.Attribute) and v.attr == f and isinstance(v.value, ast.Name)
            chk.ob('SIBLING', fi, fields[f][0], 'merged.%s is copied from the same-named field of an engine\'s line' % f, ok, construct='copy ' + f)
            if ok:
                srcvars.add(v.value.id)
    chk.ob('SIBLING', fi, stores[0][0], 'text, logits and character table are copied from ONE line (the same loop variable)', len(srcvars) == 1,
           'sources: %s' % sorted(srcvars), construct='one source line')
    # the winning branch: if conf > best
    s0 = fields['transcription'][0]
    gs = [(t, pol) for t, pol in guards_of(pm, s0) if isinstance(t, ast.Compare)]
    need(gs, 'field copies are not under a comparison')
    test, pol = gs[0]
    strict = pol and len(test.ops) == 1 and isinstance(test.ops[0], ast.Gt) and isinstance(test.left, ast.Name) and isinstance(test.comparators[0], ast.Name)
    chk.ob('SIBLING', fi, test, 'a later engine replaces the current best only when strictly more confident (first wins on ties)', strict, construct='strict >')
    if strict:
        conf, best = test.left.id, test.comparators[0].id
        # accumulator initialised to 0 inside the per-line loop and updated with the winner
        inits = [s for s in walk_shallow(fi.node) if isinstance(s, ast.Assign) and isinstance(s.targets[0], ast.Name) and s.targets[0].id == best]
        init0 = [s for s in inits if is_const(s.value, 0) or is_const(s.value, 0.0)]
        upd = [s for s in inits if isinstance(s.value, ast.Name) and s.value.id == conf]
        in_if = any(any(x is u for x in ast.walk(a)) for u in upd for a in [pm.get(u)] if isinstance(a, ast.If) and a.test is test)
        chk.ob('SIBLING', fi, inits[0] if inits else fi.node, 'the best confidence starts at 0 for every line and is raised to the winner\'s confidence', bool(init0) and bool(upd) and in_if,
               construct='accumulator')
        tc = fields.get('transcription_confidence')
        ok = tc is not None and isinstance(tc[1], ast.Name) and tc[1].id == conf
        chk.ob('SIBLING', fi, tc[0] if tc else fi.node, 'the recorded line confidence is the compared value', ok, construct='recorded confidence')
        # the compared value is the mean of that line's confidences
        d = [s for s in walk_shallow(fi.node) if isinstance(s, ast.Assign) and isinstance(s.targets[0], ast.Name) and s.targets[0].id == conf]
        ok = any('.mean()' in src(s.value) or 'np.mean(' in src(s.value) for s in d)
        chk.ob('SIBLING', fi, d[0] if d else fi.node, 'the compared value is the mean character confidence of that engine\'s line', ok, construct='mean confidence')
        gc = [c for c in ast.walk(fi.node) if isinstance(c, ast.Call) and call_name(c) == 'get_confidences']
        ok = bool(gc) and all(isinstance(c.args[0], ast.Name) and c.args[0].id in srcvars for c in gc)
        chk.ob('SIBLING', fi, gc[0] if gc else fi.node, 'confidences are computed for the line whose fields are copied', ok, construct='confidence of the copied line')
    # lines are zipped across layouts, the merged line is the first layout's
    z = [c for c in ast.walk(fi.node) if isinstance(c, ast.Call) and dotted(c.func) == 'zip' and c.args and isinstance(c.args[0], ast.Starred)]
    chk.ob('SIBLING', fi, z[0] if z else fi.node, 'lines are matched position-wise across all layouts (zip(*iterators))', bool(z), construct='zip lines')
