"""Program model of /repo built from `ast` only (nothing is imported or run).

Repo      : modules, import tables, qualified-name index of functions / classes
CFG       : statement-level control-flow graph of one function
Flow      : reaching definitions, inlining of locals, derivation closure
canon     : AC-normal form of expressions (parameters by position)
linear    : integer-coefficient linear normal form
"""
import ast
import hashlib
import os
import warnings

warnings.simplefilter("ignore", SyntaxWarning)

REPO = os.environ.get('PVS_REPO', '/repo')
PKG_DIRS = ('pero_ocr', 'user_scripts')


def copy_ast(node):
    """Structural copy of an AST (sub)tree: much cheaper than copy.deepcopy, keeps the extra attributes set at load time."""
    if isinstance(node, ast.AST):
        new = node.__class__.__new__(node.__class__)
        d = new.__dict__
        for k, v in node.__dict__.items():
            if isinstance(v, ast.AST):
                d[k] = copy_ast(v)
            elif isinstance(v, list):
                d[k] = [copy_ast(x) for x in v]
            else:
                d[k] = v
        return new
    if isinstance(node, list):
        return [copy_ast(x) for x in node]
    return node


class AnalysisError(Exception):
    """The analyser cannot decide (anchor vanished, unknown idiom). Exit code 2."""


class SelfCheckError(AnalysisError):
    """A recogniser no longer fires on its own embedded positive example: the checker is broken, whatever the code looks like."""


# ----------------------------------------------------------------------------
# small AST helpers
# ----------------------------------------------------------------------------

def src(node):
    try:
        return ast.unparse(node)
    except Exception:  # pragma: no cover
        return '<%s>' % type(node).__name__


def norm_stmt(node):
    """Statement text normalised for keying findings (no line numbers)."""
    s = src(node)
    return ' '.join(s.split())[:200]


def dotted(node):
    """'a.b.c' for Name/Attribute chains, else None."""
    parts = []
    while isinstance(node, ast.Attribute):
        parts.append(node.attr)
        node = node.value
    if isinstance(node, ast.Name):
        parts.append(node.id)
        return '.'.join(reversed(parts))
    return None


def call_name(call):
    return dotted(call.func) if isinstance(call, ast.Call) else None


def is_const(node, *values):
    if isinstance(node, ast.Constant):
        return (not values) or any(type(node.value) == type(v) and node.value == v for v in values)
    if isinstance(node, ast.UnaryOp) and isinstance(node.op, ast.USub) and isinstance(node.operand, ast.Constant):
        v = -node.operand.value
        return (not values) or any(type(v) == type(w) and v == w for w in values)
    return False


def const_value(node):
    if isinstance(node, ast.Constant):
        return node.value
    if isinstance(node, ast.UnaryOp) and isinstance(node.op, ast.USub) and isinstance(node.operand, ast.Constant) \
            and isinstance(node.operand.value, (int, float)):
        return -node.operand.value
    raise ValueError('not a constant')


def walk_shallow(node, into_lambdas=True):
    """ast.walk that does not descend into nested function / class definitions."""
    todo = [node]
    first = True
    while todo:
        n = todo.pop()
        if not first and isinstance(n, (ast.FunctionDef, ast.AsyncFunctionDef, ast.ClassDef)):
            continue
        if not first and not into_lambdas and isinstance(n, ast.Lambda):
            continue
        first = False
        yield n
        todo.extend(ast.iter_child_nodes(n))


def names_loaded(node):
    return {n.id for n in ast.walk(node) if isinstance(n, ast.Name) and isinstance(n.ctx, ast.Load)}


_MUTATING_METHODS = ('append', 'extend', 'insert', 'add', 'update', 'pop', 'remove', 'sort', 'reverse', 'clear', 'setdefault', 'popitem',
                     'fill', 'put', 'resize', 'itemset', 'add_', 'mul_', 'sub_', 'div_', 'copy_', 'zero_', 'fill_', 'clamp_')


def store_path(t):
    """`a.b[i].c[j] = ..` writes into the object `a.b[i].c`; the dotted prefix before the first subscript names it: 'a.b'.
    A plain attribute store `a.b = ..` re-binds 'a.b'."""
    chain = []
    e = t
    while isinstance(e, (ast.Subscript, ast.Attribute)):
        chain.append(e)
        e = e.value
    if not isinstance(e, ast.Name):
        return None
    parts = [e.id]
    for c in reversed(chain):
        if isinstance(c, ast.Attribute):
            parts.append(c.attr)
        else:
            break
    return '.'.join(parts)


def read_paths(e):
    out = set()
    for x in ast.walk(e):
        if isinstance(x, (ast.Name, ast.Attribute)) and isinstance(getattr(x, 'ctx', None), ast.Load):
            p = dotted(x)
            if p:
                out.add(p)
    return out


def paths_conflict(w, r):
    return w == r or w.startswith(r + '.') or r.startswith(w + '.')


def free_names(e):
    """Names an expression reads from its surroundings (names bound by its own comprehensions / lambdas excluded)."""
    out = set()

    def go(n, bound):
        if isinstance(n, (ast.ListComp, ast.SetComp, ast.GeneratorExp, ast.DictComp)):
            b = set(bound)
            for g in n.generators:
                go(g.iter, b)
                b |= {x.id for x in ast.walk(g.target) if isinstance(x, ast.Name)}
                for i in g.ifs:
                    go(i, b)
            if isinstance(n, ast.DictComp):
                go(n.key, b)
                go(n.value, b)
            else:
                go(n.elt, b)
            return
        if isinstance(n, ast.Lambda):
            b = set(bound) | {a.arg for a in n.args.args + n.args.kwonlyargs + n.args.posonlyargs}
            go(n.body, b)
            return
        if isinstance(n, ast.Name):
            if isinstance(n.ctx, ast.Load) and n.id not in bound:
                out.add(n.id)
            return
        for c in ast.iter_child_nodes(n):
            go(c, bound)
    go(e, set())
    return out


def target_names(t):
    """Names bound by an assignment target (Name / Tuple / List / Starred)."""
    out = []
    if isinstance(t, ast.Name):
        out.append(t.id)
    elif isinstance(t, (ast.Tuple, ast.List)):
        for e in t.elts:
            out.extend(target_names(e))
    elif isinstance(t, ast.Starred):
        out.extend(target_names(t.value))
    return out


def parents_map(root):
    pm = {}
    for p in ast.walk(root):
        for c in ast.iter_child_nodes(p):
            pm[c] = p
    return pm


# ----------------------------------------------------------------------------
# repository model
# ----------------------------------------------------------------------------

_SWAP_OPS = {ast.NotEq: ast.Eq, ast.IsNot: ast.Is, ast.NotIn: ast.In, ast.Gt: ast.LtE, ast.GtE: ast.Lt}


# method name -> (attribute walked by the outer loop, attribute walked by the inner loop) for generator methods of the tree
# under analysis that are exactly `for a in self.X: for b in a.Y: yield b` (PageLayout.lines_iterator); filled by Repo._load
# from the sources it is about to analyse, so with a changed generator the nested loops are not written as calls of it
SIMPLE_GENERATORS = {}


def scan_simple_generators(sources):
    """sources: iterable of module source texts -> {name: (X, Y)} for uniquely named two-level walker generators."""
    found, counts = {}, {}
    for text in sources:
        try:
            tree = ast.parse(text)
        except SyntaxError:
            continue
        for n in ast.walk(tree):
            if not isinstance(n, (ast.FunctionDef, ast.AsyncFunctionDef)):
                continue
            counts[n.name] = counts.get(n.name, 0) + 1
            body = [x for x in n.body if not (isinstance(x, ast.Expr) and isinstance(x.value, ast.Constant))]
            if not (isinstance(n, ast.FunctionDef) and len(n.args.args) == 1 and n.args.args[0].arg == 'self' and not n.args.vararg and not n.args.kwarg
                    and not n.args.kwonlyargs and not n.decorator_list and len(body) == 1 and isinstance(body[0], ast.For)):
                continue
            o = body[0]
            if not (isinstance(o.target, ast.Name) and isinstance(o.iter, ast.Attribute) and isinstance(o.iter.value, ast.Name) and o.iter.value.id == 'self'
                    and not o.orelse and len(o.body) == 1 and isinstance(o.body[0], ast.For)):
                continue
            i_ = o.body[0]
            if isinstance(i_.target, ast.Name) and isinstance(i_.iter, ast.Attribute) and isinstance(i_.iter.value, ast.Name) and i_.iter.value.id == o.target.id \
                    and not i_.orelse and len(i_.body) == 1 and isinstance(i_.body[0], ast.Expr) and isinstance(i_.body[0].value, ast.Yield) \
                    and isinstance(i_.body[0].value.value, ast.Name) and i_.body[0].value.value.id == i_.target.id:
                found[n.name] = (o.iter.attr, i_.iter.attr)
    return {k: v for k, v in found.items() if counts.get(k) == 1}


def _expand_simple_generators(tree):
    """One form for walking a two-level structure: `for r in obj.regions: for t in r.lines: B` (r used for nothing else, B
    without a `break` of its own) is `for t in obj.lines_iterator(): B`; the same inside comprehensions.  (The generator's
    own definition is left alone.)"""
    by_attrs = {v: k for k, v in SIMPLE_GENERATORS.items()}

    def own_break(body):
        for st in body:
            if isinstance(st, ast.Break):
                return True
            if isinstance(st, (ast.For, ast.While, ast.FunctionDef, ast.AsyncFunctionDef, ast.ClassDef)):
                if isinstance(st, (ast.For, ast.While)) and own_break(st.orelse):
                    return True
                continue
            for field in ('body', 'orelse', 'finalbody'):
                sub = getattr(st, field, None)
                if isinstance(sub, list) and sub and isinstance(sub[0], ast.stmt) and own_break(sub):
                    return True
            for h in getattr(st, 'handlers', []) or []:
                if own_break(h.body):
                    return True
        return False

    def uses(name, nodes):
        return any(isinstance(x, ast.Name) and x.id == name for n in nodes for x in ast.walk(n))

    class G(ast.NodeTransformer):
        def visit_FunctionDef(self, n):
            if n.name in SIMPLE_GENERATORS:
                return n
            self.generic_visit(n)
            return n

        def visit_For(self, n):
            self.generic_visit(n)
            if n.orelse or len(n.body) != 1 or not isinstance(n.body[0], ast.For) or not isinstance(n.target, ast.Name):
                return n
            inner = n.body[0]
            if inner.orelse or not (isinstance(n.iter, ast.Attribute) and isinstance(n.iter.value, (ast.Name, ast.Attribute)) and dotted(n.iter.value)):
                return n
            if not (isinstance(inner.iter, ast.Attribute) and isinstance(inner.iter.value, ast.Name) and inner.iter.value.id == n.target.id):
                return n
            name = by_attrs.get((n.iter.attr, inner.iter.attr))
            if name is None or uses(n.target.id, inner.body) or uses(n.target.id, [inner.target]) or own_break(inner.body):
                return n
            call = ast.Call(func=ast.Attribute(value=n.iter.value, attr=name, ctx=ast.Load()), args=[], keywords=[])
            new = ast.For(target=inner.target, iter=call, body=inner.body, orelse=[])
            return ast.fix_missing_locations(ast.copy_location(new, n))

        def _comp(self, n):
            self.generic_visit(n)
            gens = list(n.generators)
            k = 0
            while k + 1 < len(gens):
                a, b = gens[k], gens[k + 1]
                ok = isinstance(a.target, ast.Name) and not a.ifs and not a.is_async and not b.is_async and isinstance(a.iter, ast.Attribute) \
                    and isinstance(a.iter.value, (ast.Name, ast.Attribute)) and dotted(a.iter.value) and isinstance(b.iter, ast.Attribute) \
                    and isinstance(b.iter.value, ast.Name) and b.iter.value.id == a.target.id
                name = by_attrs.get((a.iter.attr, b.iter.attr)) if ok else None
                others = [x for g in gens[k + 2:] for x in [g.target, g.iter] + g.ifs] + [b.target] + b.ifs + \
                    [getattr(n, 'elt', None), getattr(n, 'key', None), getattr(n, 'value', None)]
                if name is not None and not uses(a.target.id, [x for x in others if x is not None]):
                    call = ast.Call(func=ast.Attribute(value=a.iter.value, attr=name, ctx=ast.Load()), args=[], keywords=[])
                    gens[k:k + 2] = [ast.comprehension(target=b.target, iter=call, ifs=b.ifs, is_async=0)]
                    continue
                k += 1
            n.generators = gens
            return ast.fix_missing_locations(n)
        visit_ListComp = visit_SetComp = visit_GeneratorExp = visit_DictComp = _comp
    return G().visit(tree)


def normalise_tree(tree):
    """One control shape for equivalent phrasings, applied to every module when it is loaded (line numbers kept):
    annotated assignments become plain ones; a two-armed conditional whose test is negated (`not c`, `!=`, `is not`,
    `not in`, `>`, `>=`) is turned around."""
    class C(ast.NodeTransformer):
        def visit_AnnAssign(self, n):
            self.generic_visit(n)
            if n.value is None:
                return n
            return ast.copy_location(ast.Assign(targets=[n.target], value=n.value), n)

        def visit_Call(self, n):
            self.generic_visit(n)
            # dict.fromkeys(xs[, constant]) is {k: constant for k in xs}
            if isinstance(n.func, ast.Attribute) and n.func.attr == 'fromkeys' and isinstance(n.func.value, ast.Name) and n.func.value.id == 'dict' \
                    and 1 <= len(n.args) <= 2 and not n.keywords and not any(isinstance(a, ast.Starred) for a in n.args) \
                    and (len(n.args) == 1 or (isinstance(n.args[1], ast.Constant) and not isinstance(n.args[1].value, bytes))):
                val = n.args[1] if len(n.args) == 2 else ast.Constant(value=None)
                comp = ast.DictComp(key=ast.Name(id='k__fromkeys', ctx=ast.Load()), value=val, generators=[
                    ast.comprehension(target=ast.Name(id='k__fromkeys', ctx=ast.Store()), iter=n.args[0], ifs=[], is_async=0)])
                return ast.fix_missing_locations(ast.copy_location(comp, n))
            return n

        def visit_If(self, n):
            self.generic_visit(n)
            for _ in range(4):
                if not n.orelse:
                    break
                t = n.test
                if isinstance(t, ast.UnaryOp) and isinstance(t.op, ast.Not):
                    n.test = t.operand
                    n.body, n.orelse = n.orelse, n.body
                    continue
                if isinstance(t, ast.Compare) and len(t.ops) == 1 and type(t.ops[0]) in _SWAP_OPS:
                    t.ops = [_SWAP_OPS[type(t.ops[0])]()]
                    n.body, n.orelse = n.orelse, n.body
                break
            return n
    tree = C().visit(tree)
    if SIMPLE_GENERATORS:
        tree = _expand_simple_generators(tree)

    def fold_loops(body):
        """`v = []` directly followed by `for t in it: v.append(e)` (optionally under one `if c:`)  ->  `v = [e for t in it if c]`."""
        out = []
        i = 0
        while i < len(body):
            s = body[i]
            for field in ('body', 'orelse', 'finalbody'):
                sub = getattr(s, field, None)
                if isinstance(sub, list) and sub and isinstance(sub[0], ast.stmt):
                    setattr(s, field, fold_loops(sub))
            for h in getattr(s, 'handlers', []) or []:
                h.body = fold_loops(h.body)
            nxt = body[i + 1] if i + 1 < len(body) else None
            tgt = s.targets[0] if isinstance(s, ast.Assign) and len(s.targets) == 1 else None
            if tgt is not None and (isinstance(tgt, ast.Name) or (isinstance(tgt, ast.Attribute) and isinstance(tgt.value, ast.Name))) \
                    and ((isinstance(s.value, ast.List) and not s.value.elts) or (isinstance(s.value, ast.Dict) and not s.value.keys)) \
                    and isinstance(nxt, ast.For) and not nxt.orelse and len(nxt.body) == 1:
                key = ast.dump(tgt).replace('Store()', 'Load()')

                def is_v(e):
                    return isinstance(e, (ast.Name, ast.Attribute)) and ast.dump(e).replace('Store()', 'Load()') == key

                def mentions(e):
                    return any(is_v(x) for x in ast.walk(e))
                inner = nxt.body[0]
                cond = []
                if isinstance(inner, ast.If) and not inner.orelse and len(inner.body) == 1:
                    cond = [inner.test]
                    inner = inner.body[0]
                comp = None
                if isinstance(s.value, ast.List) and isinstance(inner, ast.Expr) and isinstance(inner.value, ast.Call) and isinstance(inner.value.func, ast.Attribute) \
                        and inner.value.func.attr == 'append' and is_v(inner.value.func.value) and len(inner.value.args) == 1 and not inner.value.keywords \
                        and not mentions(inner.value.args[0]) and not mentions(nxt.iter) and not any(mentions(t) for t in cond):
                    comp = ast.ListComp(elt=inner.value.args[0], generators=[ast.comprehension(target=nxt.target, iter=nxt.iter, ifs=cond, is_async=0)])
                elif isinstance(s.value, ast.Dict) and isinstance(inner, ast.Assign) and len(inner.targets) == 1 and isinstance(inner.targets[0], ast.Subscript) \
                        and is_v(inner.targets[0].value) and not mentions(inner.targets[0].slice) and not mentions(inner.value) \
                        and not mentions(nxt.iter) and not any(mentions(t) for t in cond):
                    # `d = {}` then `for t in it: d[k] = v`  ->  `d = {k: v for t in it}` (later keys win in both)
                    comp = ast.DictComp(key=inner.targets[0].slice, value=inner.value, generators=[ast.comprehension(target=nxt.target, iter=nxt.iter, ifs=cond, is_async=0)])
                if comp is not None:
                    new = ast.Assign(targets=s.targets, value=comp)
                    ast.copy_location(new, nxt)
                    ast.copy_location(comp, nxt)
                    out.append(new)
                    i += 2
                    continue
            out.append(s)
            i += 1
        return out
    def pure_default(e):
        if isinstance(e, ast.Constant):
            return True
        if isinstance(e, ast.Name):
            return True
        if isinstance(e, ast.UnaryOp) and isinstance(e.op, ast.USub):
            return pure_default(e.operand)
        if isinstance(e, (ast.List, ast.Tuple)):
            return all(pure_default(x) for x in e.elts)
        if isinstance(e, ast.Dict):
            return not e.keys
        if isinstance(e, ast.Call) and isinstance(e.func, ast.Name) and e.func.id in ('set', 'list', 'dict') and not e.args and not e.keywords:
            return True
        return False

    def fold_defaults(body):
        """`v = D` directly followed by `if c: ...; v = E; ...` (no else; D a constant / name / empty literal; v not read
        in c nor before its assignment in the branch)  ->  `if c: ... else: v = D`."""
        out = []
        i = 0
        while i < len(body):
            s = body[i]
            for field in ('body', 'orelse', 'finalbody'):
                sub = getattr(s, field, None)
                if isinstance(sub, list) and sub and isinstance(sub[0], ast.stmt):
                    setattr(s, field, fold_defaults(sub))
            for h in getattr(s, 'handlers', []) or []:
                h.body = fold_defaults(h.body)
            nxt = body[i + 1] if i + 1 < len(body) else None
            if isinstance(s, ast.Assign) and len(s.targets) == 1 and isinstance(s.targets[0], ast.Name) and pure_default(s.value) \
                    and isinstance(nxt, ast.If) and not nxt.orelse:
                v = s.targets[0].id
                reads = lambda e: any(isinstance(x, ast.Name) and x.id == v for x in ast.walk(e))
                ok = not reads(nxt.test) and not (isinstance(s.value, ast.Name) and s.value.id == v)
                hit = False
                if ok:
                    for st in nxt.body:
                        if isinstance(st, ast.Assign) and len(st.targets) == 1 and isinstance(st.targets[0], ast.Name) and st.targets[0].id == v:
                            hit = not reads(st.value)
                            break
                        if reads(st) or any(isinstance(x, ast.Name) and x.id == v and isinstance(x.ctx, ast.Store) for x in ast.walk(st)):
                            break
                # the default's own names must not be re-bound by the branch test (walrus) - names only, so nothing else can interfere
                if hit and not any(isinstance(x, ast.NamedExpr) for x in ast.walk(nxt.test)):
                    dflt = ast.copy_location(ast.Assign(targets=s.targets, value=s.value), s)
                    nxt.orelse = [dflt]
                    out.append(nxt)
                    i += 2
                    continue
            out.append(s)
            i += 1
        return out
    def push_empty(body):
        """`v = <fresh empty container>` directly followed by `if c: for ..: <fills v> ...` (no else, c does not read v) is
        `if c: v = <empty>; for .. else: v = <empty>`: the loop can then be folded into a comprehension like any other."""
        for s in body:
            for field in ('body', 'orelse', 'finalbody'):
                sub = getattr(s, field, None)
                if isinstance(sub, list) and sub and isinstance(sub[0], ast.stmt) and not isinstance(s, (ast.FunctionDef, ast.AsyncFunctionDef, ast.ClassDef)):
                    push_empty(sub)
            for h in getattr(s, 'handlers', []) or []:
                push_empty(h.body)
        i = 0
        while i + 1 < len(body):
            s, nxt = body[i], body[i + 1]
            empty = isinstance(s, ast.Assign) and len(s.targets) == 1 and isinstance(s.targets[0], ast.Name) and (
                (isinstance(s.value, (ast.List, ast.Set)) and not s.value.elts) or (isinstance(s.value, ast.Dict) and not s.value.keys) or
                (isinstance(s.value, ast.Call) and isinstance(s.value.func, ast.Name) and s.value.func.id in ('list', 'set', 'dict') and not s.value.args and not s.value.keywords))
            if empty and isinstance(nxt, ast.If) and not nxt.orelse and nxt.body:
                v = s.targets[0].id
                reads = lambda e: any(isinstance(x, ast.Name) and x.id == v for x in ast.walk(e))
                k = next((k for k, st in enumerate(nxt.body) if reads(st)), None)      # first statement of the arm that touches v
                if k is not None and isinstance(nxt.body[k], ast.For) and not reads(nxt.test) and not reads(nxt.body[k].iter) \
                        and not any(isinstance(x, ast.NamedExpr) for x in ast.walk(nxt.test)):
                    import copy as _copy
                    bind = ast.copy_location(ast.Assign(targets=[ast.Name(id=v, ctx=ast.Store())], value=_copy.deepcopy(s.value)), nxt.body[k])
                    nxt.body = nxt.body[:k] + [bind] + nxt.body[k:]
                    nxt.orelse = [s]
                    del body[i]
                    continue
            i += 1
    def collapse_fresh_alias(fn):
        """`t = <fresh empty container>; v = t` with t used nowhere else is `v = <fresh empty container>`."""
        counts = {}
        for x in ast.walk(fn):
            if isinstance(x, ast.Name):
                counts[x.id] = counts.get(x.id, 0) + 1

        def is_empty(e):
            return (isinstance(e, (ast.List, ast.Set)) and not e.elts) or (isinstance(e, ast.Dict) and not e.keys) or (
                isinstance(e, ast.Call) and isinstance(e.func, ast.Name) and e.func.id in ('list', 'set', 'dict') and not e.args and not e.keywords)

        def go(body):
            i = 0
            while i + 1 < len(body):
                a, b = body[i], body[i + 1]
                if isinstance(a, ast.Assign) and len(a.targets) == 1 and isinstance(a.targets[0], ast.Name) and is_empty(a.value) \
                        and isinstance(b, ast.Assign) and len(b.targets) == 1 and isinstance(b.targets[0], ast.Name) and isinstance(b.value, ast.Name) \
                        and b.value.id == a.targets[0].id and counts.get(a.targets[0].id) == 2 and b.targets[0].id != a.targets[0].id:
                    b.value = a.value
                    del body[i]
                    continue
                i += 1
            for st in body:
                for field in ('body', 'orelse', 'finalbody'):
                    sub = getattr(st, field, None)
                    if isinstance(sub, list) and sub and isinstance(sub[0], ast.stmt) and not isinstance(st, (ast.FunctionDef, ast.AsyncFunctionDef, ast.ClassDef)):
                        go(sub)
                for h in getattr(st, 'handlers', []) or []:
                    go(h.body)
        go(fn.body)
    def join_same_returns(body):
        """`if c: A; return v` followed by `REST; return v` (the same plain name / constant, not re-bound in REST, no other return in
        REST) is `if c: A else: REST` followed by one `return v`."""
        changed = True
        while changed:
            changed = False
            plain = lambda v_: isinstance(v_, (ast.Name, ast.Constant)) or (
                isinstance(v_, ast.Tuple) and all(isinstance(x_, (ast.Name, ast.Constant)) for x_ in v_.elts))
            if len(body) < 3 or not (isinstance(body[-1], ast.Return) and body[-1].value is not None and plain(body[-1].value)):
                return
            final = ast.dump(body[-1].value)
            for i in range(len(body) - 2, -1, -1):
                st = body[i]
                if isinstance(st, ast.If) and not st.orelse and st.body and isinstance(st.body[-1], ast.Return) and st.body[-1].value is not None \
                        and ast.dump(st.body[-1].value) == final:
                    rest = body[i + 1:-1]
                    if not rest:
                        break
                    vs = {x.id for x in ast.walk(body[-1].value) if isinstance(x, ast.Name)}
                    if any(isinstance(x, ast.Name) and x.id in vs and isinstance(x.ctx, (ast.Store, ast.Del)) for r_ in rest for x in ast.walk(r_)):
                        break
                    if any(isinstance(x, ast.Return) for r_ in rest for x in ast.walk(r_)):
                        break
                    arm = st.body[:-1]
                    if arm:
                        new_if = ast.If(test=st.test, body=arm, orelse=rest)
                    else:
                        new_if = ast.If(test=ast.UnaryOp(op=ast.Not(), operand=st.test), body=rest, orelse=[])
                    body[i:-1] = [ast.fix_missing_locations(ast.copy_location(new_if, st))]
                    changed = True
                    break
    for n in ast.walk(tree):
        if isinstance(n, (ast.FunctionDef, ast.AsyncFunctionDef)):
            join_same_returns(n.body)
            collapse_fresh_alias(n)
            push_empty(n.body)
            n.body = fold_loops(n.body)
            n.body = fold_defaults(n.body)
    # the folded conditionals may have a negated test: same orientation rule as above
    tree = C().visit(tree)
    ast.fix_missing_locations(tree)
    return tree


class Module:
    def __init__(self, name, path, relpath, source):
        self.name = name
        self.path = path
        self.relpath = relpath
        self.source = source
        self.tree = normalise_tree(ast.parse(source, filename=path))
        self.digest = hashlib.sha256(source.encode('utf-8')).hexdigest()[:16]
        self.imports = {}      # local alias -> dotted target ("pkg.mod" or "pkg.mod.attr")
        self._collect_imports()

    def _collect_imports(self):
        pkg = self.name.rsplit('.', 1)[0] if '.' in self.name else ''
        for n in ast.walk(self.tree):
            if isinstance(n, ast.Import):
                for a in n.names:
                    if a.asname:
                        self.imports[a.asname] = a.name
                    else:
                        self.imports[a.name.split('.')[0]] = a.name.split('.')[0]
            elif isinstance(n, ast.ImportFrom):
                base = n.module or ''
                if n.level:
                    parts = self.name.split('.')
                    parts = parts[:len(parts) - n.level]
                    base = '.'.join(parts + ([n.module] if n.module else []))
                for a in n.names:
                    self.imports[a.asname or a.name] = (base + '.' + a.name) if base else a.name


class FuncInfo:
    def __init__(self, module, cls, name, node, qual):
        self.module = module
        self.cls = cls          # class name or None
        self.name = name
        self.node = node
        self.qual = qual
        self.relocated = False
        self._cfg = None
        self._flow = None

    @property
    def relpath(self):
        return self.module.relpath

    def loc(self, node=None):
        node = node if node is not None else self.node
        return '%s:%d' % (self.module.relpath, getattr(node, '_orig_lineno', getattr(node, 'lineno', 0)))

    @property
    def params(self):
        a = self.node.args
        return [x.arg for x in a.posonlyargs + a.args] + ([a.vararg.arg] if a.vararg else []) + \
               [x.arg for x in a.kwonlyargs] + ([a.kwarg.arg] if a.kwarg else [])

    @property
    def cfg(self):
        if self._cfg is None:
            self._cfg = CFG(self.node)
        return self._cfg

    @property
    def flow(self):
        if self._flow is None:
            self._flow = Flow(self)
        return self._flow

    def __repr__(self):
        return '<Func %s>' % self.qual


class ClassInfo:
    def __init__(self, module, name, node, qual):
        self.module = module
        self.name = name
        self.node = node
        self.qual = qual
        self.methods = {}
        self.base_names = [dotted(b) for b in node.bases]


class Repo:
    def __init__(self, root=None):
        self.root = root or REPO
        self.modules = {}
        self.funcs = {}
        self.classes = {}
        self.relocations = []
        self._load()
        from .inliner import Inliner
        self.inliner = Inliner(self)
        self.inliner.run()

    def _load(self):
        texts = []
        for d in PKG_DIRS:
            for dirpath, dirnames, filenames in os.walk(os.path.join(self.root, d)):
                for fn in sorted(filenames):
                    if fn.endswith('.py'):
                        try:
                            with open(os.path.join(dirpath, fn), encoding='utf-8') as f:
                                texts.append(f.read())
                        except OSError:
                            pass
        SIMPLE_GENERATORS.clear()
        SIMPLE_GENERATORS.update(scan_simple_generators(texts))
        for d in PKG_DIRS:
            top = os.path.join(self.root, d)
            if not os.path.isdir(top):
                raise AnalysisError('source directory missing: %s' % top)
            for dirpath, dirnames, filenames in os.walk(top):
                dirnames[:] = sorted(x for x in dirnames if x != '__pycache__')
                for fn in sorted(filenames):
                    if not fn.endswith('.py'):
                        continue
                    path = os.path.join(dirpath, fn)
                    rel = os.path.relpath(path, self.root)
                    name = rel[:-3].replace(os.sep, '.')
                    if name.endswith('.__init__'):
                        name = name[:-9]
                    with open(path, encoding='utf-8') as f:
                        source = f.read()
                    try:
                        m = Module(name, path, rel, source)
                    except SyntaxError as e:
                        raise AnalysisError('cannot parse %s: %s' % (rel, e))
                    m.repo = self
                    self.modules[name] = m
                    self._index(m)

    def _index(self, m):
        def visit(body, cls, prefix):
            for n in body:
                if isinstance(n, (ast.FunctionDef, ast.AsyncFunctionDef)):
                    q = '%s:%s%s' % (m.name, prefix, n.name)
                    fi = FuncInfo(m, cls, n.name, n, q)
                    self.funcs[q] = fi
                    if cls and prefix == cls + '.':
                        self.classes['%s:%s' % (m.name, cls)].methods[n.name] = fi
                    visit(n.body, cls, prefix + n.name + '.')
                elif isinstance(n, ast.ClassDef):
                    cq = '%s:%s%s' % (m.name, prefix, n.name)
                    self.classes[cq] = ClassInfo(m, n.name, n, cq)
                    visit(n.body, n.name, prefix + n.name + '.')
                elif isinstance(n, (ast.If, ast.Try, ast.With, ast.For, ast.While)):
                    for field in ('body', 'orelse', 'finalbody'):
                        visit(getattr(n, field, []) or [], cls, prefix)
                    for h in getattr(n, 'handlers', []) or []:
                        visit(h.body, cls, prefix)
        visit(m.tree.body, None, '')

    # -- anchors -------------------------------------------------------------
    def func(self, qual):
        fi = self.funcs.get(qual)
        if fi is not None:
            return fi
        tail = qual.split(':', 1)[1]
        cands = [f for q, f in self.funcs.items() if q.split(':', 1)[1] == tail]
        if len(cands) == 1:
            cands[0].relocated = True
            self.relocations.append((qual, cands[0].qual))
            return cands[0]
        raise AnalysisError('anchor vanished: function %s (candidates elsewhere: %d)' % (qual, len(cands)))

    def has_func(self, qual):
        try:
            self.func(qual)
            return True
        except AnalysisError:
            return False

    def cls(self, qual):
        ci = self.classes.get(qual)
        if ci is not None:
            return ci
        tail = qual.split(':', 1)[1]
        cands = [c for q, c in self.classes.items() if q.split(':', 1)[1] == tail]
        if len(cands) == 1:
            self.relocations.append((qual, cands[0].qual))
            return cands[0]
        raise AnalysisError('anchor vanished: class %s' % qual)

    def module(self, name):
        m = self.modules.get(name)
        if m is None:
            raise AnalysisError('anchor vanished: module %s' % name)
        return m

    # -- name resolution -------------------------------------------------------
    def resolve_dotted(self, module, name):
        """Resolve a dotted name used in `module` to 'mod:Qual' of a repo function / class, or None."""
        parts = name.split('.')
        head = parts[0]
        # local definition
        q = '%s:%s' % (module.name, name)
        if q in self.funcs or q in self.classes:
            return q
        if head in module.imports:
            target = module.imports[head] + ('.' + '.'.join(parts[1:]) if len(parts) > 1 else '')
            # split target into module + attribute path
            tp = target.split('.')
            for i in range(len(tp), 0, -1):
                mod = '.'.join(tp[:i])
                if mod in self.modules:
                    rest = '.'.join(tp[i:])
                    if not rest:
                        return None
                    q = '%s:%s' % (mod, rest)
                    if q in self.funcs or q in self.classes:
                        return q
                    # re-export through the other module's imports
                    other = self.modules[mod]
                    if tp[i] in other.imports and other is not module:
                        return self.resolve_dotted(other, rest)
                    return None
        return None

    def mro(self, cq):
        """Repo classes in method-resolution order (repo bases only, linearised depth-first)."""
        out = []
        todo = [cq]
        while todo:
            c = todo.pop(0)
            if c in out or c not in self.classes:
                continue
            out.append(c)
            ci = self.classes[c]
            for b in ci.base_names:
                if b:
                    r = self.resolve_dotted(ci.module, b)
                    if r in self.classes:
                        todo.append(r)
        return out

    def find_method(self, cq, name):
        for c in self.mro(cq):
            fi = self.classes[c].methods.get(name)
            if fi is not None:
                return fi
        return None

    def subclasses(self, cq):
        return [c for c in self.classes if c != cq and cq in self.mro(c)]

    def digest(self, modnames):
        h = hashlib.sha256()
        for n in sorted(modnames):
            h.update(self.modules[n].digest.encode())
        return h.hexdigest()[:16]


# ----------------------------------------------------------------------------
# control-flow graph
# ----------------------------------------------------------------------------

class Node:
    __slots__ = ('id', 'kind', 'ast', 'stmt')

    def __init__(self, id, kind, astnode, stmt):
        self.id = id
        self.kind = kind      # entry exit raise stmt test for with except return break continue
        self.ast = astnode    # expression / statement evaluated at this node
        self.stmt = stmt      # enclosing statement

    def __repr__(self):
        return '<N%d %s %s>' % (self.id, self.kind, norm_stmt(self.ast)[:40] if self.ast is not None else '')


class CFG:
    def __init__(self, func):
        self.func = func
        self.nodes = []
        self.succ = {}
        self.pred = {}
        self.entry = self._new('entry', None, None)
        self.exit = self._new('exit', None, None)
        self.raise_exit = self._new('raise', None, None)
        self._loops = []
        self._trys = []
        self.of_stmt = {}      # id(ast stmt) -> node id (simple statements, tests, loop heads)
        out = self._seq(func.body, [(self.entry, None)])
        self._link(out, self.exit)
        self._owner = None

    # construction -------------------------------------------------------------
    def _new(self, kind, astnode, stmt):
        n = Node(len(self.nodes), kind, astnode, stmt)
        self.nodes.append(n)
        self.succ[n.id] = []
        self.pred[n.id] = []
        if getattr(self, '_trys', None):
            for h in self._trys[-1]:
                self._edge(n.id, h, 'exc')
        return n.id

    def _edge(self, a, b, label):
        if (b, label) not in self.succ[a]:
            self.succ[a].append((b, label))
            self.pred[b].append((a, label))

    def _link(self, outs, b):
        for a, label in outs:
            self._edge(a, b, label)

    def _seq(self, stmts, preds):
        for s in stmts:
            preds = self._stmt(s, preds)
        return preds

    def _stmt(self, s, preds):
        if isinstance(s, ast.If):
            t = self._new('test', s.test, s)
            self.of_stmt[id(s)] = t
            self._link(preds, t)
            out = self._seq(s.body, [(t, True)])
            out = out + (self._seq(s.orelse, [(t, False)]) if s.orelse else [(t, False)])
            return out
        if isinstance(s, (ast.For, ast.AsyncFor)):
            h = self._new('for', s, s)
            self.of_stmt[id(s)] = h
            self._link(preds, h)
            breaks = []
            self._loops.append((h, breaks))
            body_out = self._seq(s.body, [(h, 'loop')])
            self._link(body_out, h)
            self._loops.pop()
            out = self._seq(s.orelse, [(h, 'done')]) if s.orelse else [(h, 'done')]
            return out + breaks
        if isinstance(s, ast.While):
            t = self._new('test', s.test, s)
            self.of_stmt[id(s)] = t
            self._link(preds, t)
            breaks = []
            self._loops.append((t, breaks))
            body_out = self._seq(s.body, [(t, True)])
            self._link(body_out, t)
            self._loops.pop()
            if is_const(s.test, True) or is_const(s.test, 1):
                out = []
            else:
                out = self._seq(s.orelse, [(t, False)]) if s.orelse else [(t, False)]
            return out + breaks
        if isinstance(s, ast.Try) or (hasattr(ast, 'TryStar') and isinstance(s, getattr(ast, 'TryStar'))):
            handlers = []
            # handler entry nodes are created outside the protected region
            for h in s.handlers:
                handlers.append(self._new('except', h, s))
            self._trys.append(handlers)
            # predecessors may raise on the first protected statement: modelled by the
            # 'exc' edges that every node created inside the body gets
            body_out = self._seq(s.body, preds)
            self._trys.pop()
            out = self._seq(s.orelse, body_out) if s.orelse else body_out
            for h, n in zip(s.handlers, handlers):
                out = out + self._seq(h.body, [(n, None)])
            if s.finalbody:
                out = self._seq(s.finalbody, out)
            return out
        if isinstance(s, (ast.With, ast.AsyncWith)):
            w = self._new('with', s, s)
            self.of_stmt[id(s)] = w
            self._link(preds, w)
            return self._seq(s.body, [(w, None)])
        if isinstance(s, ast.Return):
            n = self._new('return', s, s)
            self.of_stmt[id(s)] = n
            self._link(preds, n)
            self._edge(n, self.exit, None)
            return []
        if isinstance(s, ast.Raise):
            n = self._new('raise', s, s)
            self.of_stmt[id(s)] = n
            self._link(preds, n)
            if not self._trys:
                self._edge(n, self.raise_exit, None)
            return []
        if isinstance(s, ast.Break):
            n = self._new('break', s, s)
            self.of_stmt[id(s)] = n
            self._link(preds, n)
            if not self._loops:
                raise AnalysisError('break outside loop')
            self._loops[-1][1].append((n, None))
            return []
        if isinstance(s, ast.Continue):
            n = self._new('continue', s, s)
            self.of_stmt[id(s)] = n
            self._link(preds, n)
            self._edge(n, self._loops[-1][0], None)
            return []
        if isinstance(s, ast.Assert):
            t = self._new('test', s.test, s)
            self.of_stmt[id(s)] = t
            self._link(preds, t)
            self._edge(t, self.raise_exit, False)
            return [(t, True)]
        if hasattr(ast, 'Match') and isinstance(s, ast.Match):
            raise AnalysisError('match statement not modelled')
        n = self._new('stmt', s, s)
        self.of_stmt[id(s)] = n
        self._link(preds, n)
        return [(n, None)]

    # queries --------------------------------------------------------------------
    def reach(self, starts, avoid_nodes=(), avoid_edges=(), skip_exc=False):
        avoid_nodes = set(avoid_nodes)
        avoid_edges = set(avoid_edges)
        seen = set()
        todo = [s for s in starts if s not in avoid_nodes]
        while todo:
            n = todo.pop()
            if n in seen:
                continue
            seen.add(n)
            for m, label in self.succ[n]:
                if skip_exc and label == 'exc':
                    continue
                if m in avoid_nodes or (n, m, label) in avoid_edges:
                    continue
                if m not in seen:
                    todo.append(m)
        return seen

    def reach_back(self, starts, avoid_nodes=()):
        avoid_nodes = set(avoid_nodes)
        seen = set()
        todo = [s for s in starts if s not in avoid_nodes]
        while todo:
            n = todo.pop()
            if n in seen:
                continue
            seen.add(n)
            for m, _ in self.pred[n]:
                if m not in avoid_nodes and m not in seen:
                    todo.append(m)
        return seen

    def between(self, a, b):
        """Nodes that lie on some path a -> b that does not revisit a (a and b excluded)."""
        fwd = set()
        todo = [m for m, _ in self.succ[a]]
        while todo:
            n = todo.pop()
            if n in fwd or n == a:
                continue
            fwd.add(n)
            if n == b:
                continue
            todo.extend(m for m, _ in self.succ[n])
        back = self.reach_back([b], avoid_nodes=[a])
        return (fwd & back) - {a, b}

    def reachable_nodes(self):
        return self.reach([self.entry])

    def owner_map(self):
        """id(any ast sub-node evaluated at a CFG node) -> node id."""
        if self._owner is None:
            om = {}
            for n in self.nodes:
                if n.ast is None:
                    continue
                if n.kind == 'for':
                    parts = [n.ast.iter, n.ast.target]
                elif n.kind == 'with':
                    parts = list(n.ast.items)
                elif n.kind == 'except':
                    parts = [n.ast.type] if n.ast.type is not None else []
                    om[id(n.ast)] = n.id
                else:
                    parts = [n.ast]
                for p in parts:
                    for sub in walk_shallow(p):
                        om[id(sub)] = n.id
                    # lambdas / comprehensions belong to the node too
                    for sub in ast.walk(p):
                        om.setdefault(id(sub), n.id)
            self._owner = om
        return self._owner

    def node_of(self, astnode):
        nid = self.owner_map().get(id(astnode))
        if nid is None:
            nid = self.of_stmt.get(id(astnode))
        if nid is None:
            raise AnalysisError('no CFG node for %s' % norm_stmt(astnode))
        return nid

    def must_pass(self, target, via, start=None, skip_exc=False):
        """Every path start->target passes through a node in `via` (target itself not counted)."""
        start = self.entry if start is None else start
        via = set(via) - {target}
        if start in via:
            return True
        r = self.reach([start], avoid_nodes=via, skip_exc=skip_exc)
        return target not in r

    def path(self, start, target, avoid_nodes=(), skip_exc=False):
        """One path (list of node ids) start->target avoiding nodes, or None."""
        avoid_nodes = set(avoid_nodes) - {target}
        prev = {start: None}
        todo = [start]
        while todo:
            n = todo.pop(0)
            if n == target:
                out = []
                while n is not None:
                    out.append(n)
                    n = prev[n]
                return list(reversed(out))
            for m, label in self.succ[n]:
                if skip_exc and label == 'exc':
                    continue
                if m in prev or m in avoid_nodes:
                    continue
                prev[m] = n
                todo.append(m)
        return None

    def facts_at(self, target):
        """(test ast, polarity) facts holding on every path entry->target."""
        facts = []
        for n in self.nodes:
            if n.kind != 'test':
                continue
            for pol in (True, False):
                edges = [(n.id, m, lab) for m, lab in self.succ[n.id] if lab == pol]
                if not edges:
                    continue
                r = self.reach([self.entry], avoid_edges=edges)
                if target not in r and target in self.reachable_nodes() and n.id != target:
                    facts.append((n.ast, pol, n.id))
        return facts

    def describe_path(self, path, limit=8):
        out = []
        for nid in path:
            n = self.nodes[nid]
            if n.kind in ('entry', 'exit'):
                out.append(n.kind)
            elif n.ast is not None:
                out.append('L%d %s' % (getattr(n.stmt, 'lineno', 0), n.kind))
        if len(out) > limit:
            out = out[:limit // 2] + ['...'] + out[-limit // 2:]
        return ' -> '.join(out)


# ----------------------------------------------------------------------------
# reaching definitions, inlining, derivation
# ----------------------------------------------------------------------------

class Def:
    __slots__ = ('node', 'name', 'value', 'path', 'kind', 'stmt')

    def __init__(self, node, name, value, path, kind, stmt):
        self.node = node      # cfg node id
        self.name = name
        self.value = value    # RHS expression (or iter for loops, None for params)
        self.path = path      # tuple index path into the RHS for unpacking; () for direct
        self.kind = kind      # param assign aug for with except import def
        self.stmt = stmt


class Flow:
    def __init__(self, fi):
        self.fi = fi
        self.cfg = fi.cfg
        self.defs_at = {}       # node id -> [Def]
        self._between = {}
        self._inl_memo = {}
        self._dom = {}
        self._collect()
        self._solve()

    def _bind(self, nid, target, value, path, kind, stmt):
        if isinstance(target, ast.Name):
            self.defs_at.setdefault(nid, []).append(Def(nid, target.id, value, path, kind, stmt))
        elif isinstance(target, (ast.Tuple, ast.List)):
            for i, e in enumerate(target.elts):
                self._bind(nid, e, value, path + (i,), kind, stmt)
        elif isinstance(target, ast.Starred):
            self._bind(nid, target.value, value, path + ('*',), kind, stmt)
        # attribute / subscript targets do not (re)define a local name

    def _collect(self):
        cfg = self.cfg
        for p in self.fi.params:
            self.defs_at.setdefault(cfg.entry, []).append(Def(cfg.entry, p, None, (), 'param', None))
        for n in cfg.nodes:
            a = n.ast
            if a is None:
                continue
            if n.kind == 'stmt':
                if isinstance(a, ast.Assign):
                    for t in a.targets:
                        self._bind(n.id, t, a.value, (), 'assign', a)
                elif isinstance(a, ast.AnnAssign) and a.value is not None:
                    self._bind(n.id, a.target, a.value, (), 'assign', a)
                elif isinstance(a, ast.AugAssign):
                    if isinstance(a.target, ast.Name):
                        self.defs_at.setdefault(n.id, []).append(Def(n.id, a.target.id, a, (), 'aug', a))
                elif isinstance(a, (ast.FunctionDef, ast.ClassDef, ast.AsyncFunctionDef)):
                    self.defs_at.setdefault(n.id, []).append(Def(n.id, a.name, a, (), 'def', a))
                elif isinstance(a, (ast.Import, ast.ImportFrom)):
                    for al in a.names:
                        nm = (al.asname or al.name).split('.')[0]
                        self.defs_at.setdefault(n.id, []).append(Def(n.id, nm, a, (), 'import', a))
            elif n.kind == 'for':
                self._bind(n.id, a.target, a.iter, ('elem',), 'for', a)
            elif n.kind == 'with':
                for it in a.items:
                    if it.optional_vars is not None:
                        self._bind(n.id, it.optional_vars, it.context_expr, (), 'with', a)
            elif n.kind == 'except':
                if a.name:
                    self.defs_at.setdefault(n.id, []).append(Def(n.id, a.name, a.type, (), 'except', a))
            # walrus
            if n.kind in ('stmt', 'test', 'return'):
                for sub in walk_shallow(a):
                    if isinstance(sub, ast.NamedExpr):
                        self._bind(n.id, sub.target, sub.value, (), 'assign', a)

    def _solve(self):
        cfg = self.cfg
        self.rd_in = {n.id: {} for n in cfg.nodes}
        self.rd_out = {n.id: {} for n in cfg.nodes}
        work = [n.id for n in cfg.nodes]
        while work:
            nid = work.pop(0)
            inn = {}
            for p, label in cfg.pred[nid]:
                src_sets = self.rd_out[p] if label != 'exc' else self._merge(self.rd_in[p], self.rd_out[p])
                for k, v in src_sets.items():
                    inn.setdefault(k, set()).update(v)
            self.rd_in[nid] = inn
            out = {k: set(v) for k, v in inn.items()}
            for d in self.defs_at.get(nid, []):
                out[d.name] = {d}
            if out != self.rd_out[nid]:
                self.rd_out[nid] = out
                for m, _ in cfg.succ[nid]:
                    if m not in work:
                        work.append(m)

    @staticmethod
    def _merge(a, b):
        out = {k: set(v) for k, v in a.items()}
        for k, v in b.items():
            out.setdefault(k, set()).update(v)
        return out

    def written_paths(self, nid):
        """Dotted paths of the objects a CFG node writes in place."""
        if not hasattr(self, '_wpaths'):
            self._wpaths = {}
        if nid not in self._wpaths:
            n = self.cfg.nodes[nid]
            out = set()
            a = n.ast
            if a is not None and n.kind in ('stmt', 'return', 'test', 'for', 'with'):
                roots = [a.iter] if n.kind == 'for' else ([a.test] if n.kind == 'test' and hasattr(a, 'test') else [a])
                for root in roots:
                    for x in walk_shallow(root) if isinstance(root, ast.stmt) else ast.walk(root):
                        if isinstance(x, (ast.Subscript, ast.Attribute)) and isinstance(getattr(x, 'ctx', None), (ast.Store, ast.Del)):
                            p = store_path(x)
                            if p:
                                out.add(p)
                        elif isinstance(x, ast.Call) and isinstance(x.func, ast.Attribute) and x.func.attr in _MUTATING_METHODS:
                            p = dotted(x.func.value)
                            if p:
                                out.add(p)
                if isinstance(a, ast.Expr) and isinstance(a.value, ast.Call):
                    for arg in list(a.value.args) + [k.value for k in a.value.keywords]:
                        p = dotted(arg) if isinstance(arg, (ast.Name, ast.Attribute)) else None
                        if p:
                            out.add(p)
            self._wpaths[nid] = out
        return self._wpaths[nid]

    # queries ------------------------------------------------------------------
    def defs_reaching(self, name, at_ast):
        nid = self.cfg.node_of(at_ast)
        return self.rd_in[nid].get(name, set())

    def unique_def(self, name, at_ast):
        ds = self.defs_reaching(name, at_ast)
        if len(ds) == 1:
            return next(iter(ds))
        return None

    def inline(self, expr, at_ast=None, depth=60, stop=()):
        """Replace local Names by their unique simple reaching definition (recursively)."""
        at_ast = expr if at_ast is None else at_ast
        try:
            at_nid = self.cfg.node_of(at_ast)
        except AnalysisError:
            return expr
        return self._inline_at(expr, at_nid, depth, set(stop))

    def _inline_at(self, expr, at_nid, depth, stop, active=frozenset()):
        flow = self
        import copy as _copy

        class T(ast.NodeTransformer):
            def visit_Lambda(self, node):
                return node

            bound = frozenset()

            def visit_ListComp(self, node):
                # a comprehension is evaluated where its statement stands: free names may be replaced by their definition
                # unless the comprehension binds them, or binds a name the definition mentions (capture)
                mine = set()
                for g in node.generators:
                    mine |= {x.id for x in ast.walk(g.target) if isinstance(x, ast.Name)}
                prev = self.bound
                self.bound = prev | mine
                self.generic_visit(node)
                self.bound = prev
                return node
            visit_SetComp = visit_DictComp = visit_GeneratorExp = visit_ListComp

            def visit_Name(self, node):
                if not isinstance(node.ctx, ast.Load) or depth <= 0 or node.id in stop or node.id in self.bound:
                    return node
                mkey = (node.id, at_nid, frozenset(stop), active)
                if mkey in flow._inl_memo:
                    hit = flow._inl_memo[mkey]
                    res = node if hit is None else copy_ast(hit)
                else:
                    res = self._visit_Name(node)
                    flow._inl_memo[mkey] = None if res is node else res
                if res is not node and self.bound and (free_names(res) & self.bound):
                    return node
                return res

            def _visit_Name(self, node):
                ds = flow.rd_in[at_nid].get(node.id, set())
                if len(ds) != 1:
                    return node
                d = next(iter(ds))
                if d.kind != 'assign' or d.path != () or d.value is None:
                    return node
                def movable(e):
                    """Every free variable of e means the same at the definition and at the use site, and no object e
                    reads is written in place (element / attribute store, mutating method, passed to a call made for its
                    effect) on a path in between."""
                    fvs = free_names(e)          # names bound by the expression's own lambdas / comprehensions are not free
                    for fv in fvs:
                        if flow.rd_in[d.node].get(fv, set()) != flow.rd_in[at_nid].get(fv, set()):
                            return False
                    if d.node != at_nid:
                        key = (d.node, at_nid)
                        if key not in flow._between:
                            flow._between[key] = flow.cfg.between(d.node, at_nid)
                        reads = None
                        for mid in flow._between[key]:
                            for d2 in flow.defs_at.get(mid, ()):
                                if d2.name in fvs or d2.name == node.id:
                                    return False
                            w = flow.written_paths(mid)
                            if w:
                                if reads is None:
                                    reads = read_paths(e)
                                if any(paths_conflict(p, r) for p in w for r in reads):
                                    return False
                    return True
                if id(d) in active:
                    return node          # a definition that (through a loop) feeds itself: not a temporary
                if d.node != at_nid:
                    dk = (d.node, at_nid)
                    if dk not in flow._dom:
                        flow._dom[dk] = flow.cfg.must_pass(at_nid, [d.node])
                    if not flow._dom[dk]:
                        return node      # the definition reaches this use only around a loop (value of an earlier iteration)
                inner = flow._inline_at(d.value, d.node, depth - 1, stop, active | {id(d)})
                if movable(inner):
                    return inner
                return node

        import copy
        import copy as _copy
        return T().visit(copy_ast(expr)) if not isinstance(expr, ast.Name) else T().visit_Name(expr)

    def resolve(self, expr, at_ast=None):
        """Follow plain aliases `a = b` / temporaries back to the defining expression (arguments are not expanded)."""
        at = expr if at_ast is None else at_ast
        e = expr
        for _ in range(12):
            if not isinstance(e, ast.Name):
                break
            try:
                d = self.unique_def(e.id, at)
            except AnalysisError:
                break
            if d is None or d.kind != 'assign' or d.path != () or d.value is None:
                break
            e, at = d.value, d.stmt
        return e

    def sources(self, expr, at_ast=None, depth=12):
        """Transitive closure of expressions `expr` may derive from (through local definitions).
        Returns the set of leaf/intermediate ast expressions visited."""
        at_ast = expr if at_ast is None else at_ast
        at_nid = self.cfg.node_of(at_ast)
        seen = set()
        out = []
        todo = [(expr, at_nid, depth)]
        while todo:
            e, nid, dep = todo.pop()
            key = (id(e), nid)
            if key in seen:
                continue
            seen.add(key)
            out.append(e)
            if dep <= 0:
                continue
            for sub in ast.walk(e):
                if isinstance(sub, ast.Name) and isinstance(sub.ctx, ast.Load):
                    for d in self.rd_in[nid].get(sub.id, set()):
                        if d.value is not None and d.kind in ('assign', 'for', 'with', 'aug'):
                            v = d.value.value if d.kind == 'aug' else d.value
                            todo.append((v, d.node, dep - 1))
                            if d.kind == 'aug':
                                todo.append((d.value.target, d.node, dep - 1))
        return out


# ----------------------------------------------------------------------------
# normal forms
# ----------------------------------------------------------------------------

_FN_ALIAS = {'np.amin': 'np.min', 'np.amax': 'np.max', 'numpy.amin': 'np.min', 'numpy.amax': 'np.max', 'np.array': 'np.asarray',
             'numpy.array': 'np.asarray', 'numpy.asarray': 'np.asarray', 'np.round_': 'np.round', 'np.around': 'np.round'}
_ARRAY_METHODS = {'min', 'max', 'sum', 'mean', 'argmax', 'argmin', 'reshape', 'flatten', 'ravel', 'astype', 'transpose', 'copy', 'tolist', 'nonzero', 'cumsum'}


def _format_to_fstr(fmt, args):
    """'{}-l{:03d}'.format(a, b)  ->  the JoinedStr f'{a}-l{b:03d}' (auto-numbered or explicitly numbered fields only)."""
    import string
    values = []
    auto = 0
    try:
        parsed = list(string.Formatter().parse(fmt))
    except ValueError:
        return None
    for lit, field, spec, conv in parsed:
        if lit:
            values.append(ast.Constant(value=lit))
        if field is None:
            continue
        if field == '':
            idx = auto
            auto += 1
        elif field.isdigit():
            idx = int(field)
        else:
            return None
        if idx >= len(args) or (spec and '{' in spec):
            return None
        fv = ast.FormattedValue(value=args[idx], conversion=ord(conv) if conv else -1,
                                format_spec=ast.JoinedStr(values=[ast.Constant(value=spec)]) if spec else None)
        values.append(fv)
    return ast.JoinedStr(values=values)


COMMUTATIVE_CALLS = {'np.logaddexp', 'np.minimum', 'np.maximum', 'numpy.logaddexp', 'np.add', 'min', 'max',
                     'np.logical_and', 'np.logical_or'}


_NEG_CMP = {ast.Eq: ast.NotEq, ast.NotEq: ast.Eq, ast.Lt: ast.GtE, ast.GtE: ast.Lt, ast.Gt: ast.LtE, ast.LtE: ast.Gt,
            ast.Is: ast.IsNot, ast.IsNot: ast.Is, ast.In: ast.NotIn, ast.NotIn: ast.In}


def canon(expr, params=(), rename=None, consts=None):
    """Nested-tuple normal form: + and * flattened and sorted, a-b as a+(-b), commutative
    calls sorted, parameters replaced by their position, other names kept."""
    params = list(params)
    rename = rename or {}
    consts = consts or {}

    def c(e):
        if isinstance(e, ast.Name):
            if e.id in rename:
                return ('sym', rename[e.id])
            if e.id in params:
                return ('param', params.index(e.id))
            if e.id in consts:
                return c(consts[e.id])
            return ('name', e.id)
        if isinstance(e, ast.Constant):
            v = e.value
            if isinstance(v, bool) or not isinstance(v, (int, float)):
                return ('const', repr(v))
            return ('const', repr(float(v)) if isinstance(v, float) and v != int(v) else repr(int(v)) if float(v) == int(v) else repr(v))
        if isinstance(e, ast.UnaryOp):
            if isinstance(e.op, ast.USub):
                inner = c(e.operand)
                if inner[0] == 'const':
                    try:
                        return c(ast.Constant(value=-ast.literal_eval(inner[1])))
                    except Exception:
                        pass
                return ('neg', inner)
            if isinstance(e.op, ast.UAdd):
                return c(e.operand)
            if isinstance(e.op, ast.Not):
                o = e.operand
                # negation normal form: double negation, negated comparison, De Morgan, `not len(x)`
                if isinstance(o, ast.UnaryOp) and isinstance(o.op, ast.Not):
                    return c(o.operand)
                if isinstance(o, ast.Compare) and len(o.ops) == 1 and type(o.ops[0]) in _NEG_CMP:
                    return c(ast.Compare(left=o.left, ops=[_NEG_CMP[type(o.ops[0])]()], comparators=o.comparators))
                if isinstance(o, ast.BoolOp):
                    return c(ast.BoolOp(op=ast.Or() if isinstance(o.op, ast.And) else ast.And(),
                                        values=[ast.UnaryOp(op=ast.Not(), operand=v) for v in o.values]))
                if isinstance(o, ast.Call) and dotted(o.func) == 'len' and len(o.args) == 1 and not o.keywords:
                    return ('cmp', ('Eq',), c(o), ('const', '0'))
            return ('unary', type(e.op).__name__, c(e.operand))
        if isinstance(e, ast.BinOp):
            # a choice inside a sum / product is the choice between the sums: a + (x if t else y) is (a + x) if t else (a + y)
            if isinstance(e.op, (ast.Add, ast.Sub, ast.Mult)) and isinstance(e.left, ast.IfExp) != isinstance(e.right, ast.IfExp):
                if isinstance(e.right, ast.IfExp):
                    ch = e.right
                    return c(ast.IfExp(test=ch.test, body=ast.BinOp(left=e.left, op=e.op, right=ch.body), orelse=ast.BinOp(left=e.left, op=e.op, right=ch.orelse)))
                ch = e.left
                return c(ast.IfExp(test=ch.test, body=ast.BinOp(left=ch.body, op=e.op, right=e.right), orelse=ast.BinOp(left=ch.orelse, op=e.op, right=e.right)))
            if isinstance(e.op, ast.Add):
                items = [x for x in flat(e, ast.Add) if x != ('const', '0')] or [('const', '0')]
                if len(items) == 1:
                    return items[0]
                return ('add',) + tuple(sorted(items, key=repr))
            if isinstance(e.op, ast.Sub):
                items = flat(e, ast.Add)
                return ('add',) + tuple(sorted(items, key=repr))
            if isinstance(e.op, ast.Mult):
                items = flat(e, ast.Mult)
                return ('mul',) + tuple(sorted(items, key=repr))
            return ('bin', type(e.op).__name__, c(e.left), c(e.right))
        if isinstance(e, ast.Call):
            fn = dotted(e.func)
            if fn and (fn.split('.')[0] in rename or fn.split('.')[0] in params or (consts and '.' in fn and fn.split('.')[0] in consts)) and fn.split('.')[0] != 'self':
                fn = None           # method call on a local / parameter: the receiver is a term, not a name
            fn = _FN_ALIAS.get(fn, fn)
            if isinstance(e.func, ast.Attribute) and e.func.attr == 'tolist' and not e.args and not e.keywords and isinstance(e.func.value, ast.Call) \
                    and dotted(e.func.value.func) in ('np.asarray', 'np.array', 'numpy.asarray', 'numpy.array') and len(e.func.value.args) == 1 \
                    and not e.func.value.keywords and isinstance(e.func.value.args[0], ast.List) and e.func.value.args[0].elts \
                    and all(isinstance(r_, ast.List) for r_ in e.func.value.args[0].elts) \
                    and len({len(r_.elts) for r_ in e.func.value.args[0].elts}) == 1 \
                    and not any(isinstance(x_, (ast.List, ast.Tuple, ast.Starred)) for r_ in e.func.value.args[0].elts for x_ in r_.elts):
                # np.asarray([[a, b], [c, d]]).tolist() of a visibly rectangular list of rows is that list
                return c(e.func.value.args[0])
            if fn in ('sorted', 'min', 'max', 'sum', 'any', 'all', 'tuple', 'set', 'enumerate', 'len', 'np.array', 'np.asarray') and e.args \
                    and isinstance(e.args[0], ast.Call) and isinstance(e.args[0].func, ast.Name) and e.args[0].func.id == 'list' \
                    and len(e.args[0].args) == 1 and not e.args[0].keywords and (fn not in ('len', 'np.array', 'np.asarray') or (
                        fn == 'len' and isinstance(e.args[0].args[0], ast.Call) and isinstance(e.args[0].args[0].func, ast.Attribute)
                        and e.args[0].args[0].func.attr in SIMPLE_GENERATORS)):
                # sorted(list(x), ..) is sorted(x, ..): the consumer walks its argument once anyway
                e = ast.Call(func=e.func, args=[e.args[0].args[0]] + list(e.args[1:]), keywords=e.keywords)
            if fn in ('sorted', 'min', 'max', 'any', 'all', 'tuple', 'set', 'list', 'frozenset', 'enumerate', 'len', 'sum') and e.args \
                    and isinstance(e.args[0], ast.Call) and isinstance(e.args[0].func, ast.Attribute) and e.args[0].func.attr == 'keys' \
                    and not e.args[0].args and not e.args[0].keywords:
                # walking d.keys() is walking d
                e = ast.Call(func=e.func, args=[e.args[0].func.value] + list(e.args[1:]), keywords=e.keywords)
            if isinstance(e.func, ast.Attribute) and e.func.attr == 'join' and len(e.args) == 1 and not e.keywords and isinstance(e.args[0], ast.ListComp):
                # sep.join([..]) is sep.join(..)
                e = ast.Call(func=e.func, args=[ast.GeneratorExp(elt=e.args[0].elt, generators=e.args[0].generators)], keywords=[])
            if isinstance(e.func, ast.Attribute) and e.func.attr == 'reshape' and len(e.args) == 2 and not e.keywords:
                shp = [a.value if isinstance(a, ast.Constant) else (-a.operand.value if isinstance(a, ast.UnaryOp) and isinstance(a.op, ast.USub) and isinstance(a.operand, ast.Constant) else None) for a in e.args]
                # column / row view of a vector: x.reshape(-1, 1) is x[:, None], x.reshape(1, -1) is x[None, :]
                if shp == [-1, 1]:
                    return ('sub', c(e.func.value), ('tuple', ('slice', None, None, None), ('const', 'None')))
                if shp == [1, -1]:
                    return ('sub', c(e.func.value), ('tuple', ('const', 'None'), ('slice', None, None, None)))
            # array methods and their numpy function forms are one idiom: a.min(axis=0) == np.min(a, axis=0)
            if isinstance(e.func, ast.Attribute) and e.func.attr in _ARRAY_METHODS and not (isinstance(e.func.value, ast.Name) and e.func.value.id in ('np', 'numpy', 'torch', 'math')):
                recv = e.func.value
                if not (isinstance(recv, ast.Name) and recv.id == 'self'):
                    args = [c(recv)] + [c(a) for a in e.args]
                    kws = tuple(sorted((k.arg or '**', c(k.value)) for k in e.keywords))
                    return ('call', ('fn', 'np.' + e.func.attr), tuple(args), kws)
            if fn == 'getattr' and len(e.args) == 2 and not e.keywords and isinstance(e.args[1], ast.Constant) and isinstance(e.args[1].value, str) \
                    and e.args[1].value.isidentifier():
                return c(ast.Attribute(value=e.args[0], attr=e.args[1].value, ctx=ast.Load()))      # getattr(x, 'name') is x.name
            if fn in ('dict', 'list', 'tuple') and not e.args and not e.keywords:
                return (fn,)
            if fn == 'list' and len(e.args) == 1 and not e.keywords and isinstance(e.args[0], (ast.Tuple, ast.List)) \
                    and not any(isinstance(x, ast.Starred) for x in e.args[0].elts):
                return c(ast.List(elts=e.args[0].elts, ctx=ast.Load()))
            if fn == 'super' and len(e.args) == 2 and not e.keywords and isinstance(e.args[1], ast.Name) and e.args[1].id in ('self', 'cls'):
                return ('call', ('fn', 'super'), (), ())      # super(Class, self) is super() inside that class
            if fn == 'all' and len(e.args) == 1 and not e.keywords and isinstance(e.args[0], (ast.ListComp, ast.GeneratorExp)):
                # all(c for ..) is not any(not c for ..)
                inner = e.args[0]
                neg = ast.GeneratorExp(elt=ast.UnaryOp(op=ast.Not(), operand=inner.elt), generators=inner.generators)
                return c(ast.UnaryOp(op=ast.Not(), operand=ast.Call(func=ast.Name(id='any', ctx=ast.Load()), args=[neg], keywords=[])))
            if fn == 'any' and len(e.args) == 1 and not e.keywords and isinstance(e.args[0], ast.ListComp):
                return c(ast.Call(func=e.func, args=[ast.GeneratorExp(elt=e.args[0].elt, generators=e.args[0].generators)], keywords=[]))
            if fn in ('list', 'set') and len(e.args) == 1 and not e.keywords and isinstance(e.args[0], (ast.ListComp, ast.GeneratorExp)):
                # list(<comprehension>) is the list comprehension, set(<comprehension>) the set comprehension
                inner = e.args[0]
                return c((ast.ListComp if fn == 'list' else ast.SetComp)(elt=inner.elt, generators=inner.generators))
            if fn == 'list' and len(e.args) == 1 and not e.keywords and isinstance(e.args[0], ast.Call) and dotted(e.args[0].func) == 'reversed' \
                    and len(e.args[0].args) == 1:
                # list(reversed(x)) is x[::-1] for the lists it is used on
                return ('sub', c(e.args[0].args[0]), ('slice', None, None, ('const', '-1')))
            if isinstance(e.func, ast.Attribute) and e.func.attr == 'group' and len(e.args) == 1 and not e.keywords \
                    and isinstance(e.args[0], ast.Constant) and isinstance(e.args[0].value, int) and e.args[0].value >= 1:
                # match.group(k) is match.groups()[k - 1]
                return ('sub', ('call', c(ast.Attribute(value=e.func.value, attr='groups', ctx=ast.Load())), (), ()), ('const', repr(e.args[0].value - 1)))
            if fn == 'dict' and len(e.args) == 1 and not e.keywords and isinstance(e.args[0], (ast.ListComp, ast.GeneratorExp)) \
                    and isinstance(e.args[0].elt, ast.Tuple) and len(e.args[0].elt.elts) == 2:
                lc = e.args[0]           # dict([(k, v) for ..]) is the dict comprehension
                return c(ast.DictComp(key=lc.elt.elts[0], value=lc.elt.elts[1], generators=lc.generators))
            if fn == 'str' and len(e.args) == 1 and not e.keywords:
                return ('fstr', ('fmt', c(e.args[0]), -1, None))
            if isinstance(e.func, ast.Attribute) and e.func.attr == 'format' and isinstance(e.func.value, ast.Constant) and isinstance(e.func.value.value, str) and not e.keywords:
                conv = _format_to_fstr(e.func.value.value, e.args)
                if conv is not None:
                    return c(conv)
            fnc = ('fn', fn) if fn else c(e.func)
            eargs = e.args
            if fn and fn in ('min', 'max', 'np.min', 'np.max', 'np.amin', 'np.amax') and len(eargs) == 1 and not e.keywords \
                    and isinstance(eargs[0], (ast.List, ast.Tuple)):
                eargs = eargs[0].elts      # min([a, b]) == min(a, b)
                fnc = ('fn', fn.split('.')[-1].replace('amin', 'min').replace('amax', 'max'))
                fn = fnc[1]
            args = [c(a) for a in eargs]
            kws = tuple(sorted((k.arg or '**', c(k.value)) for k in e.keywords))
            if fn and fn in COMMUTATIVE_CALLS and not kws:
                args = sorted(args, key=repr)
            return ('call', fnc, tuple(args), kws)
        if isinstance(e, ast.Attribute):
            if dotted(e) in ('np.newaxis', 'numpy.newaxis'):
                return ('const', 'None')
            if consts and isinstance(e.ctx, ast.Load) and dotted(e) in consts:
                return c(consts[dotted(e)])
            return ('attr', c(e.value), e.attr)
        if isinstance(e, ast.Subscript):
            # the first extent of an array is its length
            if isinstance(e.value, ast.Attribute) and e.value.attr == 'shape' and isinstance(e.slice, ast.Constant) and e.slice.value == 0:
                return ('call', ('fn', 'len'), (c(e.value.value),), ())
            # the k-th element of list(<call>) in the index form of a walk is written without the list()
            if isinstance(e.value, ast.Call) and dotted(e.value.func) == 'list' and len(e.value.args) == 1 and not e.value.keywords \
                    and isinstance(e.value.args[0], ast.Call) and not isinstance(e.slice, ast.Slice):
                return c(ast.Subscript(value=e.value.args[0], slice=e.slice, ctx=ast.Load()))
            # an element of a choice is the choice of the elements: (A if t else B)[k] is A[k] if t else B[k]
            if isinstance(e.value, ast.IfExp) and not isinstance(e.slice, ast.Slice):
                v = e.value
                return c(ast.IfExp(test=v.test, body=ast.Subscript(value=v.body, slice=e.slice, ctx=ast.Load()),
                                   orelse=ast.Subscript(value=v.orelse, slice=e.slice, ctx=ast.Load())))
            # every element of the endless constant sequence is the constant (only the index form of a zip() produces this)
            if isinstance(e.value, ast.Call) and dotted(e.value.func) in ('itertools.repeat', 'repeat') and len(e.value.args) == 1 and not e.value.keywords \
                    and not isinstance(e.slice, ast.Slice):
                return c(e.value.args[0])
            return ('sub', c(e.value), c(e.slice))
        if isinstance(e, ast.Slice):
            lower = e.lower
            if isinstance(lower, ast.Constant) and lower.value == 0 and type(lower.value) is int and e.step is None:
                lower = None                      # x[0:n] is x[:n]
            return ('slice', c(lower) if lower else None, c(e.upper) if e.upper else None,
                    c(e.step) if e.step else None)
        if isinstance(e, ast.Tuple):
            return ('tuple',) + tuple(c(x) for x in e.elts)
        if isinstance(e, ast.List):
            return ('list',) + tuple(c(x) for x in e.elts)
        if isinstance(e, ast.Compare):
            if len(e.ops) == 1 and isinstance(e.ops[0], (ast.In, ast.NotIn)) and isinstance(e.comparators[0], ast.Call) \
                    and isinstance(e.comparators[0].func, ast.Attribute) and e.comparators[0].func.attr == 'keys' and not e.comparators[0].args:
                # `k in d.keys()` is `k in d`
                return c(ast.Compare(left=e.left, ops=e.ops, comparators=[e.comparators[0].func.value]))
            if len(e.ops) == 1:
                op, l, r = type(e.ops[0]).__name__, c(e.left), c(e.comparators[0])
                if op in ('Gt', 'GtE'):                      # one orientation for order comparisons
                    op, l, r = {'Gt': 'Lt', 'GtE': 'LtE'}[op], r, l
                is_len = lambda t: isinstance(t, tuple) and len(t) == 4 and t[0] == 'call' and t[1] == ('fn', 'len')
                # emptiness tests on a length: 0 < len, 1 <= len, len != 0 are one test; len < 1, len <= 0, len == 0 the other
                if (op == 'Lt' and l == ('const', '0') and is_len(r)) or (op == 'LtE' and l == ('const', '1') and is_len(r)):
                    op, l, r = 'NotEq', r, ('const', '0')
                elif (op == 'Lt' and is_len(l) and r == ('const', '1')) or (op == 'LtE' and is_len(l) and r == ('const', '0')):
                    op, r = 'Eq', ('const', '0')
                if op in ('Eq', 'NotEq') and (l == ('const', 'None') or r == ('const', 'None')):
                    op = 'Is' if op == 'Eq' else 'IsNot'          # `x == None` is written `x is None` (same for everything but exotic __eq__)
                    if l == ('const', 'None'):
                        l, r = r, l
                if op in ('Eq', 'NotEq'):
                    l, r = sorted([l, r], key=repr)
                return ('cmp', (op,), l, r)
            return ('cmp', tuple(type(o).__name__ for o in e.ops), c(e.left)) + tuple(c(x) for x in e.comparators)
        if isinstance(e, ast.BoolOp):
            opn = type(e.op).__name__.lower()
            vals = []
            for v in e.values:
                t_ = c(v)
                if isinstance(t_, tuple) and t_ and t_[0] == opn:
                    vals.extend(t_[1:])          # (a and b) and c is a and b and c
                else:
                    vals.append(t_)
            return (opn,) + tuple(sorted(vals, key=repr))
        if isinstance(e, ast.IfExp) and isinstance(e.body, ast.Constant) and isinstance(e.orelse, ast.Constant) \
                and isinstance(e.body.value, bool) and isinstance(e.orelse.value, bool) and e.body.value != e.orelse.value \
                and isinstance(e.test, ast.Call) and dotted(e.test.func) in _RE_MATCHERS:
            # a match object is always true: `True if re.match(..) else False` is `re.match(..) is not None`
            return c(ast.Compare(left=e.test, ops=[ast.IsNot() if e.body.value else ast.Is()], comparators=[ast.Constant(value=None)]))
        if isinstance(e, ast.IfExp) and isinstance(e.body, ast.Constant) and isinstance(e.orelse, ast.Constant) \
                and isinstance(e.body.value, bool) and isinstance(e.orelse.value, bool) and e.body.value != e.orelse.value \
                and isinstance(e.test, (ast.Compare, ast.BoolOp)) or (isinstance(e, ast.IfExp) and isinstance(e.test, ast.UnaryOp) and isinstance(e.test.op, ast.Not)
                                                                    and isinstance(e.body, ast.Constant) and isinstance(e.orelse, ast.Constant)
                                                                    and isinstance(e.body.value, bool) and isinstance(e.orelse.value, bool) and e.body.value != e.orelse.value):
            # `True if a < b else False` is `a < b` (the test is a boolean already), `False if .. else True` its negation
            return c(e.test) if e.body.value else c(ast.UnaryOp(op=ast.Not(), operand=e.test))
        if isinstance(e, ast.IfExp):
            t = e.test
            # `d[k] if k in d else x` is `d.get(k, x)`
            if isinstance(t, ast.Compare) and len(t.ops) == 1 and isinstance(t.ops[0], (ast.In, ast.NotIn)):
                hit, miss = (e.body, e.orelse) if isinstance(t.ops[0], ast.In) else (e.orelse, e.body)
                if isinstance(hit, ast.Subscript) and ast.dump(hit.value) == ast.dump(t.comparators[0]) and ast.dump(hit.slice) == ast.dump(t.left):
                    return c(ast.Call(func=ast.Attribute(value=hit.value, attr='get', ctx=ast.Load()), args=[t.left, miss], keywords=[]))
            # chained choices with a common arm: `n if p else (n if q else x)` is `n if (p or q) else x`;
            # `(x if q else n) if p else n` is `x if (p and q) else n`
            if isinstance(e.orelse, ast.IfExp) and ast.dump(e.orelse.body) == ast.dump(e.body):
                return c(ast.IfExp(test=ast.BoolOp(op=ast.Or(), values=[t, e.orelse.test]), body=e.body, orelse=e.orelse.orelse))
            if isinstance(e.body, ast.IfExp) and ast.dump(e.body.orelse) == ast.dump(e.orelse):
                return c(ast.IfExp(test=ast.BoolOp(op=ast.And(), values=[t, e.body.test]), body=e.body.body, orelse=e.orelse))
            # .. and the two mixed positions: `(n if q else x) if p else n` is `n if (not p or q) else x`;
            # `n if p else (x if q else n)` is `n if (p or not q) else x`
            if isinstance(e.body, ast.IfExp) and ast.dump(e.body.body) == ast.dump(e.orelse):
                return c(ast.IfExp(test=ast.BoolOp(op=ast.Or(), values=[ast.UnaryOp(op=ast.Not(), operand=t), e.body.test]), body=e.orelse, orelse=e.body.orelse))
            if isinstance(e.orelse, ast.IfExp) and ast.dump(e.orelse.orelse) == ast.dump(e.body):
                return c(ast.IfExp(test=ast.BoolOp(op=ast.Or(), values=[t, ast.UnaryOp(op=ast.Not(), operand=e.orelse.test)]), body=e.body, orelse=e.orelse.body))
            if isinstance(t, ast.BoolOp):
                flat_vals = []
                for v in t.values:
                    if isinstance(v, ast.BoolOp) and type(v.op) is type(t.op):
                        flat_vals.extend(v.values)
                    else:
                        flat_vals.append(v)
                if len(flat_vals) != len(t.values):
                    t = ast.BoolOp(op=t.op, values=flat_vals)
                    e = ast.IfExp(test=t, body=e.body, orelse=e.orelse)
            # `a if (not p or not q) else b` is `b if (p and q) else a` (De Morgan on a test made of negations only)
            def negative(v):
                return (isinstance(v, ast.UnaryOp) and isinstance(v.op, ast.Not)) or (
                    isinstance(v, ast.Compare) and len(v.ops) == 1 and type(v.ops[0]) in (ast.NotEq, ast.IsNot, ast.NotIn))

            def positive(v):
                if isinstance(v, ast.UnaryOp):
                    return v.operand
                return ast.Compare(left=v.left, ops=[_NEG_CMP[type(v.ops[0])]()], comparators=v.comparators)
            # one form for a compound test: a conjunction is written as the disjunction of the negations, arms exchanged
            # (`x if (p and q) else n` is `n if (not p or not q) else x`)
            if isinstance(t, ast.BoolOp) and isinstance(t.op, ast.And):
                return c(ast.IfExp(test=ast.BoolOp(op=ast.Or(), values=[ast.UnaryOp(op=ast.Not(), operand=v) for v in t.values]), body=e.orelse, orelse=e.body))
            # `a if not c else b` is `b if c else a` (same orientation rule as for statements)
            if isinstance(t, ast.UnaryOp) and isinstance(t.op, ast.Not):
                return c(ast.IfExp(test=t.operand, body=e.orelse, orelse=e.body))
            if isinstance(t, ast.Compare) and len(t.ops) == 1 and type(t.ops[0]) in (ast.NotEq, ast.IsNot, ast.NotIn, ast.LtE, ast.GtE) \
                    and type(t.ops[0]) in _NEG_CMP:
                return c(ast.IfExp(test=ast.Compare(left=t.left, ops=[_NEG_CMP[type(t.ops[0])]()], comparators=t.comparators), body=e.orelse, orelse=e.body))
            return ('ifexp', c(e.test), c(e.body), c(e.orelse))
        if isinstance(e, ast.Starred):
            return ('star', c(e.value))
        def it(x):
            # walking a copy of a sequence is walking the sequence (nothing in a comprehension can change it meanwhile)
            if isinstance(x, ast.Call) and isinstance(x.func, ast.Attribute) and x.func.attr == 'copy' and not x.args and not x.keywords:
                return c(x.func.value)
            if isinstance(x, ast.Call) and isinstance(x.func, ast.Name) and x.func.id == 'list' and len(x.args) == 1 and not x.keywords:
                return it(x.args[0])
            if isinstance(x, ast.Call) and isinstance(x.func, ast.Attribute) and x.func.attr == 'keys' and not x.args and not x.keywords:
                return c(x.func.value)
            return c(x)
        if isinstance(e, ast.ListComp) and len(e.generators) == 1 and not e.generators[0].ifs and isinstance(e.elt, ast.Name) \
                and isinstance(e.generators[0].target, ast.Name) and e.elt.id == e.generators[0].target.id:
            # [x for x in xs] is list(xs)
            return c(ast.Call(func=ast.Name(id='list', ctx=ast.Load()), args=[e.generators[0].iter], keywords=[]))
        if isinstance(e, (ast.ListComp, ast.SetComp, ast.GeneratorExp)):
            gens = tuple(('gen', c(g.target), it(g.iter), tuple(c(i) for i in g.ifs)) for g in e.generators)
            return ('comp', 'set' if isinstance(e, ast.SetComp) else 'seq', c(e.elt)) + gens
        if isinstance(e, ast.DictComp):
            gens = tuple(('gen', c(g.target), c(g.iter), tuple(c(i) for i in g.ifs)) for g in e.generators)
            return ('comp', 'dict', c(e.key), c(e.value)) + gens
        if isinstance(e, ast.Lambda):
            return ('lambda', tuple(a.arg for a in e.args.args), c(e.body))
        if isinstance(e, ast.Dict):
            return ('dict',) + tuple(sorted(((c(k) if k is not None else None, c(v)) for k, v in zip(e.keys, e.values)), key=repr))
        if isinstance(e, ast.Set):
            return ('set',) + tuple(sorted((c(x) for x in e.elts), key=repr))
        if isinstance(e, ast.JoinedStr):
            parts = []
            for v in e.values:
                if isinstance(v, ast.Constant) and v.value == '':
                    continue
                t_ = c(v)
                # a formatted string placed into a bare `{}` is spliced in: '{}_{}'.format('r{:03d}'.format(n), k) is 'r{:03d}_{}'.format(n, k)
                if isinstance(t_, tuple) and len(t_) == 4 and t_[0] == 'fmt' and t_[2] == -1 and t_[3] is None and isinstance(t_[1], tuple) and t_[1][:1] == ('fstr',):
                    parts.extend(t_[1][1:])
                else:
                    parts.append(t_)
            merged = []
            for t_ in parts:
                if merged and t_[0] == 'const' and merged[-1][0] == 'const':
                    try:
                        a_, b_ = ast.literal_eval(merged[-1][1]), ast.literal_eval(t_[1])
                        if isinstance(a_, str) and isinstance(b_, str):
                            merged[-1] = ('const', repr(a_ + b_))
                            continue
                    except Exception:
                        pass
                merged.append(t_)
            return ('fstr',) + tuple(merged)
        if isinstance(e, ast.FormattedValue):
            return ('fmt', c(e.value), e.conversion, c(e.format_spec) if e.format_spec else None)
        return ('raw', ' '.join(src(e).split()))

    def flat(e, kind):
        """Flatten nested + / - (kind Add) or * (kind Mult)."""
        out = []
        if kind is ast.Add:
            def go(x, sign):
                if isinstance(x, ast.BinOp) and isinstance(x.op, ast.Add):
                    go(x.left, sign)
                    go(x.right, sign)
                elif isinstance(x, ast.BinOp) and isinstance(x.op, ast.Sub):
                    go(x.left, sign)
                    go(x.right, -sign)
                elif isinstance(x, ast.UnaryOp) and isinstance(x.op, ast.USub) and not isinstance(x.operand, ast.Constant):
                    go(x.operand, -sign)
                else:
                    t = c(x)
                    out.append(t if sign > 0 else neg(t))
            go(e, 1)
        else:
            def go(x):
                if isinstance(x, ast.BinOp) and isinstance(x.op, ast.Mult):
                    go(x.left)
                    go(x.right)
                else:
                    out.append(c(x))
            go(e)
        return out

    def neg(t):
        if t[0] == 'neg':
            return t[1]
        if t[0] == 'const':
            try:
                v = ast.literal_eval(t[1])
                return c(ast.Constant(value=-v))
            except Exception:
                pass
        return ('neg', t)

    return c(expr)


_RE_MATCHERS = ('re.match', 're.search', 're.fullmatch')


def canon_src(text, params=(), rename=None):
    return canon(ast.parse(text, mode='eval').body, params, rename)


class Linear:
    """sum(coef * atom) + const with integer coefficients; atoms are canonical tuples."""

    def __init__(self, terms=None, const=0):
        self.terms = {k: v for k, v in (terms or {}).items() if v != 0}
        self.const = const

    def __add__(self, o):
        t = dict(self.terms)
        for k, v in o.terms.items():
            t[k] = t.get(k, 0) + v
        return Linear(t, self.const + o.const)

    def scale(self, k):
        return Linear({a: v * k for a, v in self.terms.items()}, self.const * k)

    def __sub__(self, o):
        return self + o.scale(-1)

    def __eq__(self, o):
        return isinstance(o, Linear) and self.terms == o.terms and self.const == o.const

    def __hash__(self):
        return hash((tuple(sorted(self.terms.items(), key=repr)), self.const))

    def is_const(self):
        return not self.terms

    def __repr__(self):
        parts = ['%+d*%s' % (v, _short(k)) for k, v in sorted(self.terms.items(), key=repr)]
        if self.const or not parts:
            parts.append('%+d' % self.const)
        return ' '.join(parts)


def _short(t):
    if isinstance(t, tuple):
        if not t:
            return '()'
        if t[0] in ('name',):
            return t[1]
        if t[0] == 'param':
            return 'p%d' % t[1]
        if t[0] == 'attr':
            return _short(t[1]) + '.' + t[2]
        if t[0] == 'const':
            return t[1]
        return '(' + ' '.join(_short(x) for x in t) + ')'
    return str(t)


def linear(expr, params=(), rename=None):
    """Linear normal form of an integer expression. int(...) wrappers are transparent."""
    def L(e):
        if isinstance(e, ast.Constant) and isinstance(e.value, int) and not isinstance(e.value, bool):
            return Linear({}, e.value)
        if isinstance(e, ast.UnaryOp) and isinstance(e.op, ast.USub):
            return L(e.operand).scale(-1)
        if isinstance(e, ast.UnaryOp) and isinstance(e.op, ast.UAdd):
            return L(e.operand)
        if isinstance(e, ast.BinOp) and isinstance(e.op, ast.Add):
            return L(e.left) + L(e.right)
        if isinstance(e, ast.BinOp) and isinstance(e.op, ast.Sub):
            return L(e.left) - L(e.right)
        if isinstance(e, ast.BinOp) and isinstance(e.op, ast.Mult):
            a, b = L(e.left), L(e.right)
            if a.is_const():
                return b.scale(a.const)
            if b.is_const():
                return a.scale(b.const)
        if isinstance(e, ast.Call) and dotted(e.func) == 'int' and len(e.args) == 1 and not e.keywords:
            inner = e.args[0]
            # int(x // k) and int(x) are transparent for integer-valued x
            return L(inner)
        if isinstance(e, ast.BinOp) and isinstance(e.op, ast.FloorDiv):
            num, den = L(e.left), L(e.right)
            return Linear({('floordiv', _freeze(num), _freeze(den)): 1}, 0)
        return Linear({canon(e, params, rename): 1}, 0)
    return L(expr)


def _freeze(lin):
    return (tuple(sorted(lin.terms.items(), key=repr)), lin.const)
