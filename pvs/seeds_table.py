"""Specific breaks (DESIGN appendix A) as text edits of the current sources: (relative path, old, new, what).
Each must make the check of its property report a new VIOLATION (thorough tier). An entry whose `old` text no longer
occurs is skipped (the code moved on), never a failure."""

LAY = 'pero_ocr/core/layout.py'
DEC = 'pero_ocr/decoding/decoders.py'
BOH = 'pero_ocr/decoding/bag_of_hypotheses.py'
FA = 'pero_ocr/core/force_alignment.py'
ENG = 'pero_ocr/ocr_engine/line_ocr_engine.py'
PTE = 'pero_ocr/ocr_engine/pytorch_ocr_engine.py'
PP = 'pero_ocr/document_ocr/page_parser.py'
CROP = 'pero_ocr/core/crop_engine.py'
LH = 'pero_ocr/layout_engines/layout_helpers.py'
SS = 'pero_ocr/layout_engines/smart_sorter.py'
NS = 'pero_ocr/layout_engines/naive_sorter.py'
SA = 'pero_ocr/sequence_alignment.py'
ES = 'pero_ocr/error_summary.py'
CN = 'pero_ocr/decoding/confusion_networks.py'
CE = 'pero_ocr/core/confidence_estimation.py'
PF = 'user_scripts/parse_folder.py'
CNN = 'pero_ocr/layout_engines/cnn_layout_engine.py'
MO = 'user_scripts/merge_ocr_results.py'
TR = 'pero_ocr/ocr_engine/transformer.py'
TE = 'pero_ocr/ocr_engine/transformer_ocr_engine.py'
AH = 'pero_ocr/core/arabic_helper.py'
ITF = 'pero_ocr/decoding/decoding_itf.py'

TABLE = {
    'C01': [
        (LAY, 'self.reading_order[k.id] if k.id in self.reading_order', 'self.reading_order[k] if k in self.reading_order', 'probe reading_order with the region object'),
        (LAY, 'text_element.set("conf", f"{line.transcription_confidence:.3f}")', 'text_element.set("confidence", f"{line.transcription_confidence:.3f}")', 'rename conf in the writer only'),
        (LAY, 'page.set("imageWidth", str(self.page_size[1]))', 'page.set("imageWidth", str(self.page_size[0]))', 'page width from the height'),
        (LAY, 'points = ["{},{}".format(int(np.round(coord[0])), int(np.round(coord[1]))) for coord in\n                              line.baseline]',
         'points = ["{},{}".format(int(coord[0]), int(coord[1])) for coord in\n                              line.baseline]', 'drop the rounding of baseline points'),
        (LAY, '{line.heights[0]:.1f},{line.heights[1]:.1f}', '{line.heights[0]:.0f},{line.heights[1]:.0f}', 'heights rounded to integers'),
        (LAY, '                if line.transcription is not None:\n                    text_element = ET.SubElement(text_line, "TextEquiv")', '                if line.transcription:\n                    text_element = ET.SubElement(text_line, "TextEquiv")', 'truthiness test drops empty transcriptions'),
        (LAY, '        if self.reading_order is not None:\n            self.sort_regions_by_reading_order()\n            self.reading_order_to_page_xml(page)', '        if self.reading_order is not None:\n            self.reading_order_to_page_xml(page)', 'do not sort before writing'),
        (LAY, 'new_textline.index = int(line.attrib[\'index\'])', 'new_textline.index = int(line.attrib[\'id\'][-3:])', 'index read from another attribute'),
    ],
    'C02': [
        (DEC, "        if logprobs_max_deviation(logits) > max_unnormalization:\n            raise ValueError('Expected properly normalized logits')\n\n        prefixes = [EMPTY_PREFIX]", "        prefixes = [EMPTY_PREFIX]", 'delete the normalisation guard of the beam decoder'),
        (DEC, 'return np.logaddexp(Pb_old, Pnb_old) + P_blank', 'return np.maximum(Pb_old, Pnb_old) + P_blank', 'max instead of sum in compute_Pb'),
        (DEC, 'one=0.0, zero=-np.inf)', 'one=-np.inf, zero=0.0)', 'mask polarity swapped'),
        (DEC, '        P_visual[joinable_prefix_ind, last_chars[p_ind]] = -np.inf\n', '        pass\n', 'joining copies mass instead of moving it'),
        (DEC, 'np.sum(np.isfinite(total_P))', 'np.sum(np.isfinite(visual_P))', 'finite count of another array'),
        (DEC, 'total_Pnb = self.compute_Pnb(Pnb, Pb, reduced_Pc, reduced_last_chars)', 'total_Pnb = self.compute_Pnb(Pb, Pnb, reduced_Pc, reduced_last_chars)', 'swap Pb / Pnb at the call'),
        (DEC, 'Pnb = total_Pnb[best_inds]', 'Pnb = total_Pnb[best_inds[0], -1]', 'Pnb not permuted by the selected column'),
        (DEC, 'return np.nonzero(logits > -10)', 'return np.nonzero(logits > -1)', 'harsher pre-selection threshold'),
    ],
    'C03': [
        (DEC, 'np.argmax(Pom + Plm*self._lm_scale)', 'np.argmax(Pom + Plm)', 'unscaled LM at idx_of_best'),
        (BOH, 'self.lm_weight * hyp.lm_sc if hyp.lm_sc is not None else 0', 'hyp.lm_sc if hyp.lm_sc is not None else 0', 'unscaled LM in best_hyp'),
        (DEC, 'Pom, Plm, lm_weight=self._lm_scale)', 'Pom, Plm, lm_weight=1.0)', 'archive a constant LM weight'),
        (DEC, 'return np.concatenate([new, Plm_old[:, np.newaxis]], axis=1)', 'return np.concatenate([new, Plm_old[:, np.newaxis] + self._insertion_bonus], axis=1)', 'bonus also on the carried-over column'),
        (DEC, '        if model_eos:\n            eos_scores', '        if True:\n            eos_scores', 'EOS score always added'),
        (DEC, 'lm_preds_new = lm_preds[best_inds_l[0]]', 'lm_preds_new = lm_preds.copy()', 'LM predictions not permuted with the beam'),
        (ITF, 'return CTCPrefixLogRawNumpyDecoder(full_characters, k, lm, lm_scale, insertion_bonus=insertion_bonus)', 'return CTCPrefixLogRawNumpyDecoder(full_characters, k, lm, insertion_bonus, insertion_bonus=lm_scale)', 'LM scale and bonus swapped in the factory'),
    ],
    'C04': [
        (DEC, 'reduced = [g[0] for g in itertools.groupby(argmaxes)]', 'reduced = [g[0] for g in itertools.groupby(a for a in argmaxes if a != self._blank_ind)]', 'blanks filtered before the merge'),
        (PTE, 'best = torch.argmax(scores_probs, 1) + 1', 'best = torch.argmax(scores_probs, 1)', 'class shift removed'),
        (PTE, 'best[best == scores_probs.shape[1]] = 0', 'best[best == scores_probs.shape[1] - 1] = 0', 'blank compared in the unshifted domain'),
        (PTE, '    best = best[:, 1:]\n', '    best = best[:, :-1]\n', 'wrong frame dropped'),
        (PTE, '        scores_probs[:, -1, 0] = 1000\n', '', 'prepended frame not forced to blank'),
    ],
    'C05': [
        (FA, '            if elements[ind_elem] != elements[ind_elem+1]:\n                desired[i, i+2] = 0.0', '            desired[i, i+2] = 0.0', 'skip allowed between equal labels'),
        (FA, 'if i % 2 == 1 and i < last_nonblank_state:', 'if i % 2 == 0 and i < last_nonblank_state:', 'skip from blank states'),
        (FA, '    cost[1] = 0.0\n    return cost', '    return cost', 'alignment cannot start in the first label'),
        (FA, 'updated_cost = act_cost[j] + column_frame[i]', 'updated_cost = act_cost[i] + column_frame[j]', 'from/to roles swapped'),
        (FA, '    if np.amin(final_frame_cost) == np.inf:\n        raise ValueError("It was not possible to align the states with the logits, best path has cost of np.inf")\n', '', 'infeasibility not reported'),
        (FA, 'best_pos = np.argmax(max_probs[seq_positions])', 'best_pos = np.argmin(max_probs[seq_positions])', 'least confident frame chosen'),
    ],
    'C06': [
        (LAY, 'if char.isspace()]', "if char == ' ']", 'word boxes cut at U+0020 only'),
        (LAY, '                        if arabic_line:\n                            string.set("CONTENT", arabic_helper.label_form_to_string(word))\n                        else:\n                            string.set("CONTENT", word)', '                        string.set("CONTENT", word)', 'fallback branch without the Arabic conversion'),
        (LAY, 'text_line.set("VPOS", str(int(text_line_vpos)))', 'text_line.set("VPOS", str(text_line_vpos))', 'non-integer geometry attribute'),
        (LAY, 'if line.transcription_confidence < min_line_confidence:', 'if line.transcription_confidence > min_line_confidence:', 'confidence filter inverted'),
        (LAY, 'page.set("ID", "id_" + page_uuid)', 'page.set("ID", "id-" + page_uuid)', 'id prefix changed on one path only'),
        (LAY, '        print_space_bottom = 0\n', '        print_space_bottom = self.page_size[0]\n', 'running maximum seeded with the page size'),
        (LAY, 'right_margin.set("WIDTH", "{}" .format(int(self.page_size[1] - (print_space_hpos + print_space_width))))', 'right_margin.set("WIDTH", "{}" .format(int(self.page_size[1] - print_space_width)))', 'right margin ignores the left offset'),
        (AH, '                        if number_of_ending_spaces > 0:\n                            seq.chars = seq.chars[:-number_of_ending_spaces]\n                        sequences.append(seq)', '                        seq.chars = seq.chars[:-number_of_ending_spaces]\n                        sequences.append(seq)', 'unguarded negative slice in the order conversion'),
    ],
    'C07': [
        (ENG, '                for ids, transcription, line_logits in zip(batch_line_ids, out_transcriptions, out_logits):', '                for ids, (transcription, line_logits) in enumerate(zip(out_transcriptions, out_logits)):', 'scatter with the position in the batch'),
        (ENG, 'line_ids = line_ids[batch_size:]', 'line_ids = line_ids[batch_size + 1:]', 'a line dropped between batches'),
        (ENG, '                            int(self.line_padding_px // self.net_subsampling),\n                            int((self.line_padding_px + lines[ids].shape[1]) // self.net_subsampling)]', '                            int(self.line_padding_px // self.net_subsampling),\n                            int(lines[ids].shape[1] // self.net_subsampling)]', 'frame window without the padding'),
        (ENG, 'line_logits[line_probs < 0.0001] = 0', 'line_logits[line_probs < 0.001] = 0', 'sparsification threshold'),
        (PP, 'zip(page_layout.lines_iterator(), transcriptions, logits, logit_coords)', 'zip(sorted(page_layout.lines_iterator(), key=lambda l: l.id), transcriptions, logits, logit_coords)', 'results zipped onto re-ordered lines'),
    ],
    'C08': [
        (PP, '        self.last_h = None\n        self.last_line = None\n        for line in page_layout.lines_iterator():', '        self.last_line = None\n        for line in page_layout.lines_iterator():', 'LM state not reset at page start'),
        (PP, '        self.last_h = None\n        self.last_line = None\n        for line in page_layout.lines_iterator():', '        self.last_h = None\n        for line in page_layout.lines_iterator():', 'previous line not reset at page start'),
        (PP, '        t0 = time.time()\n        if self.continue_lines:', '        import random\n        t0 = time.time() + random.random()\n        if self.continue_lines:', 'global RNG on the page path'),
        (PF, 'tasks.append((image_file_name, file_id, index, len(ids_to_process)))', 'tasks.append((file_id, image_file_name, index, len(ids_to_process)))', 'pooled branch with another argument order'),
        (PP, '    def update_confidences(self, page_layout):\n        for line in page_layout.lines_iterator():\n            if line.logits is not None:', '    def update_confidences(self, page_layout):\n        for line in page_layout.lines_iterator():\n            if line.logits is not None and line.id not in _SEEN:\n                _SEEN.add(line.id)', 'module-level cache keyed by line id'),
    ],
    'C09': [
        (LAY, "logits_dict['line_characters'] = dict(characters)", "logits_dict['characters'] = dict(characters)", 'characters stored under another key'),
        (LAY, 'line.logit_coords = logit_coords[line.id]', 'line.logit_coords = characters[line.id]', 'component restored into the wrong field'),
        (LAY, '                if line.id not in logits_dict:\n                    continue\n', '', 'absent lines not skipped'),
        (ITF, 'ZERO_LOGITS = -80.0', 'ZERO_LOGITS = -60.0', 'another floor in one densifier'),
        (LAY, 'a = np.logaddexp.reduce(x, axis=1)[:, np.newaxis]', 'a = np.logaddexp.reduce(x, axis=0)[np.newaxis, :]', 'normalisation over frames'),
    ],
    'C10': [
        (CROP, ", kind='cubic', fill_value='extrapolate')", ", kind='cubic',)", 'cubic interpolant without extrapolation'),
        (CROP, 'line_crop = np.zeros([self.line_height, 32, img.shape[2]], dtype=np.uint8)', 'line_crop = np.zeros([32, 32, img.shape[2]], dtype=np.uint8)', 'fallback of a fixed height'),
        (CROP, 'coords = np.dot(coords, R).astype(np.float32)', 'coords = np.dot(coords, np.linalg.inv(R)).astype(np.float32)', 'inverse rotation on the way back too'),
        (CROP, 'x_coords_shifted = coords[:, :, 0] - x_min', 'x_coords_shifted = coords[:, :, 0] - y_min', 'x shifted by the y origin'),
        (CROP, 'img_crop = img[y_min:y_max+1, x_min:x_max+1]', 'img_crop = img[y_min:y_max, x_min:x_max]', 'sub-image one pixel short'),
        (CROP, 'np.linspace(-line_heights[0], line_heights[1], target_height)', 'np.linspace(line_heights[0], line_heights[1], target_height)', 'sign of the ascender lost'),
        (CROP, "interpolation=cv2.INTER_LINEAR, borderMode=cv2.BORDER_CONSTANT)\n        return line_crop", "interpolation=cv2.INTER_LINEAR, borderMode=cv2.BORDER_REPLICATE)\n        return line_crop", 'another border mode on the fast path'),
    ],
    'C11': [
        (LH, '                baseline=baseline_intersection,', '                baseline=baseline,', 'unclipped baseline placed'),
        (LH, 'if baseline_intersection is not None and textline_intersection is not None:', 'if baseline_intersection is not None or textline_intersection is not None:', 'placed when one piece is missing'),
        (LH, 'max_line[:, np.newaxis, 1] <= min_region[np.newaxis, :, 1]', 'max_line[:, np.newaxis, 1] >= min_region[np.newaxis, :, 1]', 'atom flipped'),
        (LH, 'textline_is = textline_is.geoms[np.argmax(areas)]', 'textline_is = textline_is.geoms[np.argmin(areas)]', 'smallest piece kept'),
        (PP, '                    region.lines = []\n                    region = helpers.assign_lines_to_regions(\n                        r_b_list, r_h_list, r_t_list, [region])[0]', '                    region = helpers.assign_lines_to_regions(\n                        r_b_list, r_h_list, r_t_list, [region])[0]', 'merge loop does not clear the region first'),
    ],
    'C12': [
        (SS, '        if len(page_layout.regions) < 2:\n            return page_layout\n', '', 'smart sorter without the small-page guard'),
        (NS, '        if len(regions) == 0:\n            return []\n\n', '', 'naive sorter without the empty guard'),
        (SS, 'page_layout.regions = [page_layout.regions[idx] for idx in region_idxs]', 'page_layout.regions = [page_layout.regions[idx] for idx in region_idxs if idx]', 'region filtered while re-ordering'),
        (SS, '                        non_aligned.pop(idx)\n                        coupled.add_regions(region)\n', '                        non_aligned.pop(idx)\n', 'popped region not added to a group'),
        (SS, 'page_layout = SmartRegionSorter.rotate_page_layout(page_layout, rotation)', 'page_layout = SmartRegionSorter.rotate_page_layout(page_layout, -rotation)', 'rotated twice the same way'),
        (SS, 'self.region_list = [CoupledRegions([region], self, self.intersect_param) for region in aligned]', 'self.region_list = [CoupledRegions([region], self, self.intersect_param) for region in aligned[1:]]', 'decouple loses a region'),
    ],
    'C13': [
        (SA, 'def levenshtein_distance(source, target, sub_cost=1, ins_cost=1, del_cost=1):\n    target = np.array(target)\n    dist = np.arange(len(target) + 1) * ins_cost', 'def levenshtein_distance(source, target, sub_cost=1, ins_cost=1, del_cost=1):\n    target = np.array(target)\n    dist = np.arange(len(target) + 1) * del_cost', 'ramp with the deletion cost'),
        (SA, 'dist[1:] = np.minimum(dist[1:] + del_cost, dist[:-1] + (target != s) * sub_cost)', 'dist[1:] = np.minimum(dist[1:] + del_cost, dist[1:] + (target != s) * sub_cost)', 'diagonal read from the same column'),
        (SA, '        dist[1:] = np.minimum(dist[1:] + del_cost, dist[:-1] + (target != s) * sub_cost)\n        dist[0] += del_cost', '        dist[0] += del_cost\n        dist[1:] = np.minimum(dist[1:] + del_cost, dist[:-1] + (target != s) * sub_cost)', 'column 0 updated before the diagonal is read'),
        (SA, "    dist[:-1] = np.arange(len(target) + 1) * ins_cost\n    if len(source) == 0:", "    dist[0] = 0\n    if len(source) == 0:", 'substring distance without the insertion ramp'),
        (ES, '_, _, nb_inss, nb_dels, nb_subs = edit_stats_for_alignment(alignment)', '_, _, nb_dels, nb_inss, nb_subs = edit_stats_for_alignment(alignment)', 'insertions and deletions swapped'),
        (ES, 'total_nb_subs += err.nb_subs', 'total_nb_subs += err.nb_inss', 'aggregate adds another counter'),
    ],
    'C14': [
        (CN, '                cn = cn[:cn_pointer] + [{None: cn_total_weight, tr_sym: score}] + cn[cn_pointer:]\n            cn_pointer += 1', '                cn = cn[:cn_pointer] + [{None: cn_total_weight, tr_sym: score}] + cn[cn_pointer:]\n                cn_pointer += 1', 'pointer not advanced after an append'),
        (CN, "                cn[cn_pointer][None] = score\n            cn_pointer += 1", "                cn[cn_pointer][None] = score\n            cn_pointer += 1\n            tr_pointer += 1", 'transcript pointer advanced on a network-only move'),
        (CN, '        sausage_normalizer = sum(cn[i].values())', '        sausage_normalizer = sum(cn[i - 1].values())', 'normalised by the previous column'),
        (CN, "return sorted(paths, key=lambda x: x[1], reverse=True)", "return sorted(paths, key=lambda x: x[1])", 'paths in ascending order'),
        (CN, 'alignment = levenshtein_alignment_path(list(transcript), pivot)', 'alignment = levenshtein_alignment_path(pivot, list(transcript))', 'alignment roles swapped'),
    ],
    'C15': [
        (ENG, '        keep = len(result_transcription) - (overlap + 1) // 2\n        result_transcription = result_transcription[:keep] + transcription[overlap // 2:]', '        keep = -overlap // 2\n        result_transcription = result_transcription[:keep] + transcription[overlap // 2:]', 'negative slice bound again'),
        (ENG, 'result_logits = np.concatenate([result_logits[:keep], logits[overlap // 2:]], axis=0)', 'result_logits = np.concatenate([result_logits[:keep], logits[overlap // 2 + 1:]], axis=0)', 'logits cut one row further'),
        (ENG, 'logits_parts_shrinked.append(logits[:len(transcription)])', 'logits_parts_shrinked.append(logits[:len(transcription) + 1])', 'one logit row too many per part'),
    ],
    'C16': [
        (CE, '    if log_probs is None:\n        log_probs = line.get_full_logprobs()', '    if log_probs is None:\n        log_probs = line.get_dense_logits()', 'confidence from unnormalised logits'),
        (CE, 'confidences[i] = max(0, label_prob - other_prob)', 'confidences[i] = label_prob - other_prob', 'clip at 0 dropped'),
        (BOH, 'total_prob = logsumexp(total_scores)', 'total_prob = logsumexp([hyp.vis_sc for hyp in self._hyps])', 'posteriors normalised by the visual scores only'),
        (PP, 'return worst_best_prob > confidence_threshold', 'return worst_best_prob * confidence_threshold > confidence_threshold ** 2', 'threshold on both sides'),
        (PP, "        log_probs = logits - np.logaddexp.reduce(logits, axis=1)[:, np.newaxis]\n        best_ids = np.argmax(log_probs, axis=-1)", "        log_probs = logits\n        best_ids = np.argmax(log_probs, axis=-1)", 'line confidence without normalisation'),
    ],
    'C17': [
        (PF, '[output_xml_path, output_logit_path, output_render_path, output_alto_path]', '[output_xml_path, output_logit_path, output_render_path]', 'ALTO not consulted'),
        (PF, r'file_pattern = r"(.+)(\.logits|\.xml|\.jpg)$"', r'file_pattern = r"(.+)(\.logits|\.xml|\.jpg)"', 'end anchor dropped'),
        (PF, r'file_pattern = r"(.+)(\.logits|\.xml|\.jpg)$"', r'file_pattern = r"(.+?)(\.logits|\.xml|\.jpg)$"', 'lazy id group'),
        (PF, "    if ids_to_process:\n        logger.info(f'AVERAGE", "    if True:\n        logger.info(f'AVERAGE", 'division by the number of ids unguarded'),
        (PF, 'images_to_process = [image for id, image in zip(ids_to_process, images_to_process) if id not in already_processed_files]', 'images_to_process = [image for id, image in zip(ids_to_process, images_to_process)]', 'only the ids are filtered'),
        (PF, '                already_processed = already_processed.intersection(files)', '                already_processed = already_processed.union(files)', 'done if present in any directory'),
    ],
    'C18': [
        (CNN, '            for b in b_list:\n                b[:, 0] = shape[0] - b[:, 0]', '            for b in b_list:\n                b[:, 0] = shape[1] - b[:, 0]', 'wrong extent in the rot == 1 branch'),
        (CNN, '            for p in p_list:\n                p[:, 0] = shape[0] - p[:, 0]\n        elif rot == 2:', '        elif rot == 2:', 'regions not mapped back in the rot == 1 branch'),
        (CNN, 'h_list.append([downsample * heights_pred[0], downsample * heights_pred[1]])', 'h_list.append([heights_pred[0], heights_pred[1]])', 'heights not scaled'),
        (CNN, 'np.round(inds[:, 1]).astype(int), 0, heights_map.shape[0]-1)', 'np.round(inds[:, 1]).astype(int), 0, heights_map.shape[1]-1)', 'y clipped by the number of columns'),
        (CNN, 'pos_all = np.stack([inds[1][bl_inds], inds[0][bl_inds]], axis=1)', 'pos_all = np.stack([inds[0][bl_inds], inds[1][bl_inds]], axis=1)', 'points in (row, col) order'),
    ],
    'C19': [
        (MO, 'merged_line.logits = line.logits', 'merged_line.logits = lines[0].logits', 'logits from the first engine'),
        (MO, 'if line_confidence > best_confidence:', 'if line_confidence >= best_confidence:', 'last engine wins ties'),
        (MO, '                merged_line.transcription_confidence = line_confidence', '                merged_line.transcription_confidence = line_confidence\n                merged_line.id = line.id', 'id overwritten'),
    ],
    'C20': [
        (TR, 'if self.linear_cache is None or seq_len == 1:', 'if self.linear_cache is None:', 'caches not re-initialised at the first step'),
        (TR, 'self.linear_cache[seq_len - 1] = F.linear(query, in_proj_weight, in_proj_bias)', 'self.linear_cache[seq_len] = F.linear(query, in_proj_weight, in_proj_bias)', 'cache row off by one'),
        (TR, 'return self.memory_tgt[:seq_len, :, :]\n\n    def cache_index_select', 'return self.memory_tgt[:seq_len - 1, :, :]\n\n    def cache_index_select', 'memory slice one short'),
        (TE, "            if len(partial_transcripts) > inputs.shape[-1] // 4:  # four pixels per letter is already ridiculous\n                print(f'The transcription is getting way too long ({len(partial_transcripts)}) for the line '\n                      f'({inputs.shape}), aborting it at shape {partial_transcripts.shape}')\n                break\n", '', 'length cap removed'),
        (TE, '                elif s == ignore_ind:\n                    continue\n', '', 'ignore symbol kept'),
    ],
}
