"""A deliberately generous, name-resolved call graph: which repo functions can the body of a function reach in one step.
Used to find the dependency cone of the functions a property's rules look at."""
import ast

from .core import dotted
from .lifetime import GENERIC_METHODS


class CallGraph:
    def __init__(self, repo):
        self.repo = repo
        self.by_name = {}
        for q, fi in repo.funcs.items():
            if fi.cls:
                self.by_name.setdefault(fi.name, []).append(fi)
        self._memo = {}
        self._fields = {}

    def field_types(self, cq):
        """{field: classes} from `self.field = ClassName(...)` anywhere in the class (and its repo bases)."""
        if cq in self._fields:
            return self._fields[cq]
        out = {}
        r = self.repo
        for k in r.mro(cq):
            ci = r.classes[k]
            for m in ci.methods.values():
                for a in ast.walk(m.node):
                    if isinstance(a, ast.Assign) and isinstance(a.value, ast.Call):
                        for t in a.targets:
                            if isinstance(t, ast.Attribute) and isinstance(t.value, ast.Name) and t.value.id == 'self':
                                q = r.resolve_dotted(ci.module, dotted(a.value.func) or '')
                                if q in r.classes:
                                    out.setdefault(t.attr, set()).add(q)
        self._fields[cq] = out
        return out

    def class_of(self, fi):
        cq = '%s:%s' % (fi.module.name, fi.cls) if fi.cls else None
        return cq if cq in self.repo.classes else None

    def deps(self, fi):
        """{callee qual: how it is reached} - direct calls (module functions, constructors -> __init__), methods on
        self/cls (with overrides in subclasses), super() calls, decorators, the constructor of the function's own class
        (it sets the fields the method reads), and methods on receivers of unknown type when the method name is
        specific enough (at most three classes define it and it is not a generic container / tensor method)."""
        if fi.qual in self._memo:
            return self._memo[fi.qual]
        r = self.repo
        out = {}
        cq = self.class_of(fi)
        if cq:
            m = r.find_method(cq, '__init__')
            if m is not None:
                out.setdefault(m.qual, 'constructor of its class')
        for d in fi.node.decorator_list:
            nm = dotted(d.func if isinstance(d, ast.Call) else d)
            q = r.resolve_dotted(fi.module, nm) if nm else None
            if q in r.funcs:
                out.setdefault(q, 'decorator')
        # receivers whose class is visible: locals bound to a constructor call, fields bound to one anywhere in the class
        local_types = {}
        for a in ast.walk(fi.node):
            if isinstance(a, ast.Assign) and isinstance(a.value, ast.Call) and len(a.targets) == 1 and isinstance(a.targets[0], ast.Name):
                q = r.resolve_dotted(fi.module, dotted(a.value.func) or '')
                if q in r.classes:
                    local_types.setdefault(a.targets[0].id, set()).add(q)
        field_types = self.field_types(cq) if cq else {}
        for c in ast.walk(fi.node):
            if not isinstance(c, ast.Call):
                continue
            if isinstance(c.func, ast.Attribute):
                recv = c.func.value
                ks = set()
                if isinstance(recv, ast.Name) and recv.id in local_types:
                    ks = local_types[recv.id]
                elif isinstance(recv, ast.Attribute) and isinstance(recv.value, ast.Name) and recv.value.id == 'self' and recv.attr in field_types:
                    ks = field_types[recv.attr]
                hit = False
                for k in ks:
                    m = r.find_method(k, c.func.attr)
                    if m is not None:
                        out.setdefault(m.qual, 'method of %s' % k.split(':')[-1])
                        hit = True
                if hit:
                    continue
            nm = dotted(c.func)
            if nm and not nm.startswith(('self.', 'cls.')):
                q = r.resolve_dotted(fi.module, nm)
                if q in r.funcs:
                    out.setdefault(q, 'called')
                    continue
                if q in r.classes:
                    m = r.find_method(q, '__init__')
                    if m is not None:
                        out.setdefault(m.qual, 'constructed')
                    continue
            if not isinstance(c.func, ast.Attribute):
                continue
            name, recv = c.func.attr, c.func.value
            if isinstance(recv, ast.Name) and recv.id in ('self', 'cls') and cq:
                m = r.find_method(cq, name)
                if m is not None:
                    out.setdefault(m.qual, 'method on self')
                for s in r.subclasses(cq):
                    mm = r.classes[s].methods.get(name)
                    if mm is not None:
                        out.setdefault(mm.qual, 'override of a method on self')
                continue
            if isinstance(recv, ast.Call) and isinstance(recv.func, ast.Name) and recv.func.id == 'super' and cq:
                for b in r.mro(cq)[1:]:
                    mm = r.classes[b].methods.get(name)
                    if mm is not None:
                        out.setdefault(mm.qual, 'super() call')
                        break
                continue
            if name not in GENERIC_METHODS and not name.startswith('__'):
                cands = self.by_name.get(name, [])
                if 0 < len(cands) <= 3:
                    for x in cands:
                        out.setdefault(x.qual, 'method %s() on a receiver of unresolved type' % name)
        out.pop(fi.qual, None)
        self._memo[fi.qual] = out
        return out

    def cone(self, roots, depth):
        """{qual: (distance, parent qual, how)} for everything within `depth` steps of the roots (roots excluded)."""
        seen = {q: (0, None, 'root') for q in roots if q in self.repo.funcs}
        frontier = list(seen)
        for d in range(1, depth + 1):
            nxt = []
            for q in frontier:
                for callee, how in sorted(self.deps(self.repo.funcs[q]).items()):
                    if callee not in seen:
                        seen[callee] = (d, q, how)
                        nxt.append(callee)
            frontier = nxt
        return {q: v for q, v in seen.items() if v[0] > 0}
