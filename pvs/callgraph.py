"""A deliberately generous, name-resolved call graph: which repo functions can the body of a function reach in one step.
Used to find the dependency cone of the functions a property's rules look at."""
import ast

from .core import dotted
from .lifetime import GENERIC_METHODS


class CallGraph:
    def __init__(self, repo):
        self.repo = repo
        self.by_name = {}
        for q, fi in repo.funcs.items():
            if fi.cls:
                self.by_name.setdefault(fi.name, []).append(fi)
        self._memo = {}

    def class_of(self, fi):
        cq = '%s:%s' % (fi.module.name, fi.cls) if fi.cls else None
        return cq if cq in self.repo.classes else None

    def deps(self, fi):
        """{callee qual: how it is reached} - direct calls (module functions, constructors -> __init__), methods on
        self/cls (with overrides in subclasses), super() calls, decorators, the constructor of the function's own class
        (it sets the fields the method reads), and methods on receivers of unknown type when the method name is
        specific enough (at most three classes define it and it is not a generic container / tensor method)."""
        if fi.qual in self._memo:
            return self._memo[fi.qual]
        r = self.repo
        out = {}
        cq = self.class_of(fi)
        if cq:
            m = r.find_method(cq, '__init__')
            if m is not None:
                out.setdefault(m.qual, 'constructor of its class')
        for d in fi.node.decorator_list:
            nm = dotted(d.func if isinstance(d, ast.Call) else d)
            q = r.resolve_dotted(fi.module, nm) if nm else None
            if q in r.funcs:
                out.setdefault(q, 'decorator')
        for c in ast.walk(fi.node):
            if not isinstance(c, ast.Call):
                continue
            nm = dotted(c.func)
            if nm and not nm.startswith(('self.', 'cls.')):
                q = r.resolve_dotted(fi.module, nm)
                if q in r.funcs:
                    out.setdefault(q, 'called')
                    continue
                if q in r.classes:
                    m = r.find_method(q, '__init__')
                    if m is not None:
                        out.setdefault(m.qual, 'constructed')
                    continue
            if not isinstance(c.func, ast.Attribute):
                continue
            name, recv = c.func.attr, c.func.value
            if isinstance(recv, ast.Name) and recv.id in ('self', 'cls') and cq:
                m = r.find_method(cq, name)
                if m is not None:
                    out.setdefault(m.qual, 'method on self')
                for s in r.subclasses(cq):
                    mm = r.classes[s].methods.get(name)
                    if mm is not None:
                        out.setdefault(mm.qual, 'override of a method on self')
                continue
            if isinstance(recv, ast.Call) and isinstance(recv.func, ast.Name) and recv.func.id == 'super' and cq:
                for b in r.mro(cq)[1:]:
                    mm = r.classes[b].methods.get(name)
                    if mm is not None:
                        out.setdefault(mm.qual, 'super() call')
                        break
                continue
            if name not in GENERIC_METHODS and not name.startswith('__'):
                cands = self.by_name.get(name, [])
                if 0 < len(cands) <= 3:
                    for x in cands:
                        out.setdefault(x.qual, 'method %s() on a receiver of unresolved type' % name)
        out.pop(fi.qual, None)
        self._memo[fi.qual] = out
        return out

    def cone(self, roots, depth):
        """{qual: (distance, parent qual, how)} for everything within `depth` steps of the roots (roots excluded)."""
        seen = {q: (0, None, 'root') for q in roots if q in self.repo.funcs}
        frontier = list(seen)
        for d in range(1, depth + 1):
            nxt = []
            for q in frontier:
                for callee, how in sorted(self.deps(self.repo.funcs[q]).items()):
                    if callee not in seen:
                        seen[callee] = (d, q, how)
                        nxt.append(callee)
            frontier = nxt
        return {q: v for q, v in seen.items() if v[0] > 0}
