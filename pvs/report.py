"""Obligations, verdict lines, evidence files, known findings."""
import json
import os
import time

VERIF = os.path.dirname(os.path.dirname(os.path.abspath(__file__)))
EVIDENCE_DIR = os.path.join(VERIF, 'evidence')
REPLAY_DIR = os.path.join(VERIF, 'replay')
KNOWN = os.path.join(VERIF, 'known_findings.json')


# rules that scan for a violating construct wherever it sits (no expectation about the shape of the surrounding function):
# their verdict stands even when the functions around the construct were restructured
ROBUST_RULES = {'STATE', 'DECOR', 'RNG', 'GLOBALS', 'DEFS', 'WRAP'}


class Obligation:
    __slots__ = ('rule', 'anchor', 'loc', 'fact', 'ok', 'detail', 'construct', 'nontrivial', 'known', 'robust', 'stmtdiff')

    def __init__(self, rule, anchor, loc, fact, ok, detail='', construct='', nontrivial=True):
        self.rule = rule
        self.anchor = anchor
        self.loc = loc
        self.fact = fact
        self.ok = ok
        self.detail = detail
        self.construct = construct
        self.nontrivial = nontrivial
        self.known = None
        self.robust = False
        self.stmtdiff = None

    def as_dict(self):
        d = {'rule': self.rule, 'anchor': self.anchor, 'loc': self.loc, 'fact': self.fact,
             'verdict': 'ok' if self.ok else ('known-finding' if self.known else 'VIOLATION')}
        if self.detail:
            d['detail'] = self.detail
        if self.construct:
            d['construct'] = self.construct
        return d


class Check:
    def __init__(self, prop, tier='quick', seed=0, only=None):
        self.prop = prop
        self.tier = tier
        self.seed = seed
        self.only = only           # (rule, construct) to re-run for --replay
        self.obs = []
        self.errors = []
        self.not_decided = []
        self.functions = set()
        self.templated = set()
        self.matcher_errors = set()
        self.cone_functions = set()
        self.implied = []
        self.all_equivalent = False
        self.cone = None
        self.minimums = {}
        self.explanation = ''
        self.assumptions = []
        self.trusted = []
        self.extra = {}
        self.t0 = time.time()
        self.persist = True
        self.equiv = set()
        self.soft_skipped = set()
        self.restructured = set()

    # recording ---------------------------------------------------------------
    def ob(self, rule, fi, node, fact, ok, detail='', construct=None, nontrivial=True, soft=False, robust=False):
        """Record one obligation. `fi` is a FuncInfo (or None), `node` the ast node it is about."""
        if soft and not ok and fi is not None and fi.qual in self.equiv:
            # a name-sensitive fact about a function that was proven equal (modulo renaming) to its reviewed
            # reference form, for which the fact holds: the mismatch is a renaming, not a violation
            ok = True
            fact += ' [implied: function equals its reference form]'
        anchor = fi.qual if fi is not None else ''
        loc = fi.loc(node) if fi is not None and node is not None else (fi.loc() if fi is not None else '')
        if fi is not None:
            self.functions.add(fi.qual)
        if construct is None:
            from .core import norm_stmt
            construct = norm_stmt(node) if node is not None else fact
        o = Obligation(rule, anchor, loc, fact, bool(ok), detail, construct, nontrivial)
        o.robust = robust or rule in ROBUST_RULES
        self.obs.append(o)
        return o

    def error(self, rule, msg, matcher=False):
        self.errors.append((rule, msg))
        if matcher:
            self.matcher_errors.add((rule, msg))

    def expect(self, rule, minimum):
        self.minimums[rule] = minimum

    def note_undecided(self, *clauses):
        self.not_decided.extend(clauses)

    # finishing -----------------------------------------------------------------
    def settle_restructuring(self, repo):
        """A change that rewrites a reviewed function wholesale (most of its statements differ from the reviewed form, or
        it now calls helpers that cannot be inlined) is a RESTRUCTURING: the rules whose matchers were validated on the
        reviewed shape cannot decide it, and say so (ANALYSIS-ERROR, exit 2) instead of guessing a violation. Rules that
        positively identify a violating construct wherever it sits (robust) keep their verdict."""
        if repo is not None:
            from .template import function_diff
            known = load_known()
            memo = {}
            for o in self.obs:
                if not o.ok and match_known(known, self.prop, o) is not None:
                    o.robust = True       # identified and demonstrated on the reviewed tree already (open known finding)
                if o.ok or o.stmtdiff or o.robust:
                    continue
                if o.anchor not in memo:
                    fi = repo.funcs.get(o.anchor)
                    memo[o.anchor] = function_diff(fi) if fi is not None else None
                o.stmtdiff = memo[o.anchor]
        if os.environ.get('PVS_DIFFS'):
            print('PVS_DIFFS', sorted({(o.anchor.split(':')[-1], o.stmtdiff) for o in self.obs if not o.ok and o.stmtdiff and not o.robust}))
        big = [o for o in self.obs if not o.ok and o.stmtdiff and ((o.stmtdiff[0] >= 9 and o.stmtdiff[0] >= 0.6 * o.stmtdiff[1]) or o.stmtdiff[0] >= 20)]
        refused = []
        inl = getattr(repo, 'inliner', None) if repo is not None else None
        if inl is not None:
            mods = {q.split(':')[0] for q in self.functions}
            # a helper that is new to the tree and could not be folded back into its caller hides part of a reviewed function
            from .template import HelperInliner

            def folded_anyway(c, h, why):
                # single-expression helpers are folded into their callers when effects are compared
                if why != 'called inside an expression' or c not in repo.funcs or h not in repo.funcs:
                    return False
                try:
                    return HelperInliner(repo.funcs[c]).simple(repo.funcs[h]) is not None
                except Exception:
                    return False
            refused = [(c, h, why) for c, h, why in inl.refused if (c in self.functions or c.split(':')[0] in mods) and not folded_anyway(c, h, why)]
        mismatching = {o.anchor: o for o in self.obs if not o.ok and o.stmtdiff and o.stmtdiff[0] and o.rule in ('RECUR', 'DEPS')}.values()
        mismatching = list(mismatching)
        whole_run = bool(big) or len(mismatching) >= 4
        hidden = {c for c, h, why in refused}        # functions part of whose reviewed body now sits in a helper that cannot be folded back
        if not whole_run and not any((not o.ok and not o.robust and o.anchor in hidden) for o in self.obs):
            return
        reason = []
        if big:
            reason.append('rewritten: ' + ', '.join(sorted({'%s (%d of %d statements)' % (o.anchor.split(':')[-1], o.stmtdiff[0], o.stmtdiff[1]) for o in big})[:4]))
        if len(mismatching) >= 4:
            reason.append('%d reviewed functions differ at once' % len(mismatching))
        keep = []
        for o in self.obs:
            if not o.ok and not o.robust and (whole_run or o.anchor in hidden):
                why = list(reason)
                if o.anchor in hidden:
                    why.append('calls helpers that cannot be folded back: ' + ', '.join(sorted({'%s (%s)' % (h.split(':')[-1], w) for c, h, w in refused if c == o.anchor})[:3]))
                self.restructured.add(o.anchor)
                self.errors.append((o.rule, 'RESTRUCTURED: cannot decide "%s" at %s [%s]' % (o.fact[:90], o.loc, '; '.join(why)[:300])))
            else:
                keep.append(o)
        self.obs = keep

    def settle_equivalence(self, repo):
        """When every function in scope (the functions the rules looked at and their dependency cone) is either proven
        equal to its reviewed reference form or has exactly its reviewed statements, nothing the specific rules rest on
        has changed: a specific rule that still fails, or whose matcher no longer recognises an idiom, is looking at a
        re-phrasing (a temporary introduced, a lambda turned into a method) and its obligation is implied."""
        if repo is None or any((not o.ok) and o.rule in ('RECUR', 'DEPS') for o in self.obs):
            return
        if any((r, m) not in self.matcher_errors for r, m in self.errors):
            return
        from .template import function_diff
        for q in sorted(set(self.functions) | set(self.cone_functions)):
            if q in self.equiv:
                continue
            fi = repo.funcs.get(q)
            d = function_diff(fi) if fi is not None else None
            if d is None or d[0] != 0:
                return
        known = load_known()
        for o in self.obs:
            if not o.ok and not o.robust and match_known(known, self.prop, o) is None:
                o.ok = True
                o.detail = 'implied: every function in scope equals its reviewed form; the rule\'s matcher did not follow the re-phrasing | ' + (o.detail or '')
                self.implied.append('%s %s' % (o.rule, o.construct))
        for r, m in list(self.errors):
            self.implied.append('%s matcher: %s' % (r, m[:120]))
        if self.implied or self.errors:
            self.all_equivalent = True
        self.errors = []

    def finish(self, repo=None):
        self.settle_equivalence(repo)
        self.settle_restructuring(repo)
        known = load_known()
        counts = {}
        for o in self.obs:
            counts[o.rule] = counts.get(o.rule, 0) + 1
        for rule, minimum in self.minimums.items():
            if counts.get(rule, 0) < minimum and rule not in self.soft_skipped and not self.restructured and not self.all_equivalent:
                self.errors.append((rule, 'rule matched %d instance(s), fewer than the %d confirmed by reading '
                                          '(a rule that matches nothing must not pass vacuously)' % (counts.get(rule, 0), minimum)))
        violations = []
        for o in self.obs:
            if o.ok:
                continue
            k = match_known(known, self.prop, o)
            if k is not None:
                o.known = k
            else:
                violations.append(o)

        lines = []
        for o in self.obs:
            if not o.ok and o.known:
                lines.append('KNOWN-FINDING: property=%s %s [%s %s %s]' % (self.prop, o.known.get('what', ''), o.rule, o.loc, o.construct))
        os.makedirs(REPLAY_DIR, exist_ok=True)
        for i, o in enumerate(violations):
            slug = '%s-%s-%d' % (self.prop, o.rule.replace('/', '_'), i)
            path = os.path.join(REPLAY_DIR, slug + '.json')
            with open(path, 'w') as f:
                json.dump({'property': self.prop, 'rule': o.rule, 'anchor': o.anchor, 'construct': o.construct,
                           'loc': o.loc, 'fact': o.fact, 'detail': o.detail}, f, indent=1)
            lines.append('VIOLATION property=%s replay=%s' % (self.prop, path))
            lines.append('  %s %s  rule=%s  %s' % (o.loc, o.anchor, o.rule, o.fact))
            if o.detail:
                lines.append('  ' + o.detail)
            lines.append('  construct: ' + o.construct)
        for rule, msg in self.errors:
            lines.append('ANALYSIS-ERROR property=%s rule=%s %s' % (self.prop, rule, msg))

        if self.persist:
            self.write_evidence(violations, repo)
        ok_n = sum(1 for o in self.obs if o.ok)
        lines.append('%s: %d obligations, %d discharged, %d known finding(s), %d violation(s), %d analysis error(s) [%s, %.2fs]' % (
            self.prop, len(self.obs), ok_n, sum(1 for o in self.obs if o.known), len(violations), len(self.errors),
            self.tier, time.time() - self.t0))
        print('\n'.join(lines))
        if violations:
            return 1
        if self.errors:
            return 2
        return 0

    def write_evidence(self, violations, repo):
        os.makedirs(EVIDENCE_DIR, exist_ok=True)
        distinct = {(o.rule, o.anchor, o.construct, o.fact) for o in self.obs if o.nontrivial}
        by_rule = {}
        for o in self.obs:
            r = by_rule.setdefault(o.rule, {'obligations': 0, 'discharged': 0})
            r['obligations'] += 1
            r['discharged'] += 1 if o.ok else 0
        cov = {
            'explanation': self.explanation or 'static structural obligations decided from the source of /repo',
            'obligations': len(self.obs),
            'discharged': sum(1 for o in self.obs if o.ok),
            'evaluations': len(self.obs),
            'distinct_nontrivial': len(distinct),
            'rule': 'one obligation per rule instance found in the current sources; distinct = different '
                    '(rule, function, construct, fact); non-trivial = the instance inspected a non-empty construct',
            'samples': [o.as_dict() for o in self.obs],
            'by_rule': by_rule,
            'minimum_instances': self.minimums,
            'functions_analysed': sorted(self.functions),
            'dependency_cone': self.cone,
            'implied_by_equivalence': self.implied,
            'not_decided': self.not_decided,
            'checker_cmd': './check %s --tier %s' % (self.prop, self.tier),
            'trusted_base': self.trusted or ['CPython ast module', 'rule tables in pvs/rules (confirmed by reading)'],
            'analysis_errors': ['%s: %s' % e for e in self.errors],
            'known_findings': [o.as_dict() for o in self.obs if o.known],
        }
        if repo is not None:
            cov['relocated_anchors'] = ['%s -> %s' % r for r in repo.relocations]
            cov['modules_parsed'] = len(repo.modules)
        cov.update(self.extra)
        ev = {
            'property_id': self.prop,
            'tier': self.tier,
            'seed': int(self.seed),
            'level': 'other',
            'coverage': cov,
            'assumptions': self.assumptions,
            'wall_s': round(time.time() - self.t0, 3),
            'violations': len(violations),
        }
        with open(os.path.join(EVIDENCE_DIR, self.prop + '.json'), 'w') as f:
            json.dump(ev, f, indent=1, default=str)


def load_known():
    if not os.path.exists(KNOWN):
        return []
    with open(KNOWN) as f:
        data = json.load(f)
    return [e for e in data.get('findings', []) if e.get('status') == 'open']


def match_known(known, prop, o):
    for k in known:
        if k.get('property') != prop or k.get('rule') != o.rule:
            continue
        if k.get('anchor') and k['anchor'].split(':')[-1] != o.anchor.split(':')[-1]:
            continue
        if k.get('construct') and k['construct'] != o.construct:
            continue
        return k
    return None
