import argparse
import importlib
import json
import os
import sys
import traceback

from .core import AnalysisError, Repo
from .report import Check

PROPS = ['C%02d' % i for i in range(1, 21)]


def run_property(prop, tier, seed, root=None, quiet=False, only=None):
    chk = Check(prop, tier, seed, only=only)
    chk.persist = root is None
    repo = None
    try:
        repo = Repo(root)
        mod = importlib.import_module('pvs.rules.' + prop.lower())
        mod.run(repo, chk)
        from .rules import generic
        from .lib import Rules
        generic.cone_rule(repo, chk, Rules(repo, chk))
        generic.state_rule(repo, chk)
        generic.decorator_rule(repo, chk)
        generic.definitions_rule(repo, chk)
        chk.explanation = (getattr(chk, 'explanation', '') or '') + (
            ' | Rules run after every property\'s own: RECUR / DEPS: each analysed function and each function within %d call-graph steps has '
            'exactly the effects of its reviewed reference form (normal form modulo renaming, sound inlining, AC, idiom table of DESIGN section 3); '
            'STATE: no cross-call state outside the receiver object; DECOR: only transparent decorators; DEFS: module / class level data '
            'definitions have their reviewed value. A failing obligation on a function rewritten wholesale is reported as RESTRUCTURED (exit 2); '
            'specific-rule failures are implied away only when every function in scope is proven equal or textually unchanged.' % (
                generic.CONE_DEPTH.get(prop, 2)))
        if tier == 'thorough' and root is None:
            from . import selftest
            selftest.run(prop, repo, chk, seed)
    except AnalysisError as e:
        chk.error('analysis', str(e))
    except Exception as e:  # a traceback must not look like a violation
        chk.error('internal', '%s: %s | %s' % (type(e).__name__, e, traceback.format_exc().strip().splitlines()[-3:]))
    return chk, repo


def main(argv=None):
    ap = argparse.ArgumentParser()
    ap.add_argument('prop', nargs='?')
    ap.add_argument('--tier', default=os.environ.get('VERIF_TIER', 'quick'), choices=['quick', 'thorough'])
    ap.add_argument('--replay')
    ap.add_argument('--root', help='analyse this tree instead of /repo (self-test, pre-fix demonstrations)')
    args = ap.parse_args(argv)
    seed = int(os.environ.get('VERIF_SEED', '0') or 0)
    only = None
    prop = args.prop
    if args.replay:
        with open(args.replay) as f:
            rp = json.load(f)
        prop = rp['property']
        only = (rp['rule'], rp.get('construct'))
    if prop == 'all':
        rc = 0
        for p in PROPS:
            if os.path.exists(os.path.join(os.path.dirname(__file__), 'rules', p.lower() + '.py')):
                chk, repo = run_property(p, args.tier, seed, args.root)
                rc = max(rc, chk.finish(repo))
        return rc
    if prop not in PROPS:
        print('usage: ./check C01..C20|all [--tier quick|thorough] | --replay <file>')
        return 2
    chk, repo = run_property(prop, args.tier, seed, args.root, only=only)
    if only:
        chk.obs = [o for o in chk.obs if o.rule == only[0] and (only[1] is None or o.construct == only[1])]
        chk.minimums = {}
    return chk.finish(repo)


if __name__ == '__main__':
    try:
        sys.exit(main())
    except SystemExit:
        raise
    except BaseException as e:  # pragma: no cover
        print('ANALYSIS-ERROR internal %s: %s' % (type(e).__name__, e))
        traceback.print_exc()
        sys.exit(2)
