#!/usr/bin/env python3
"""tools/mkauto.py : (authoring only) add a reference to pvs/refs/auto_ref.py for every function in some property's
dependency cone that has none yet. A function is added only if the comparison machinery reproduces it on the reviewed tree."""
import ast, os, re, sys, textwrap
sys.path.insert(0, '/verif')
from pvs.__main__ import run_property, PROPS
from pvs.template import compare, template_func
out = '/verif/pvs/refs/auto_ref.py'
missing = set()
repo = None
for p in PROPS:
    chk, repo = run_property(p, 'quick', 0, '/repo', quiet=True)
    missing |= set((chk.cone or {}).get('functions_without_reference', []))
existing = open(out).read() if os.path.exists(out) else '"""References generated from the reviewed tree for functions in the dependency cones (tools/mkauto.py)."""\n'
k = len(re.findall(r'^# reference for', existing, re.M))
added, skipped = [], []
for q in sorted(missing):
    fi = repo.funcs[q]
    lines = fi.module.source.splitlines()[fi.node.lineno - 1:fi.node.end_lineno]
    text = textwrap.dedent('\n'.join(lines))
    body = text.splitlines()
    while body and not body[0].startswith(('def ', 'async def ')):
        body.pop(0)          # decorators
    text = '\n'.join(body)
    alias = 'a%03d_%s' % (k, re.sub(r'\W', '_', fi.qual.split(':')[-1]))
    text = re.sub(r'^def %s\(' % re.escape(fi.name), 'def %s(' % alias, text, count=1)
    chunk = '\n\n# reference for %s\n%s\n' % (q, text)
    tail = fi.qual.split(':')[-1]
    try:
        ok, m, x = compare(fi, template_func(existing + chunk, alias, closure=tail.count('.') >= (2 if fi.cls else 1)))
    except Exception as e:
        ok, m, x = False, [], []
        print('skip', q, type(e).__name__, e)
    if not ok:
        # multi-line string literals do not survive dedenting: take the function from its syntax tree instead
        import copy
        node = copy.deepcopy(fi.node)
        node.decorator_list = []
        node.name = alias
        chunk = '\n\n# reference for %s\n%s\n' % (q, ast.unparse(node))
        try:
            ok, m, x = compare(fi, template_func(existing + chunk, alias, closure=tail.count('.') >= (2 if fi.cls else 1)))
        except Exception as e:
            ok = False
    if ok:
        existing += chunk
        k += 1
        added.append(q)
    else:
        skipped.append(q)
open(out, 'w').write(existing)
print('added', len(added), 'skipped', skipped)
