#!/usr/bin/env python3
"""tools/verify_benign.py <dir-with-patch.diff> [...]

Re-verifies a proposed behaviour-preserving change on a scratch worktree of /repo HEAD (outside /repo and /verif): the
patch applies, the unedited suite is unchanged (217 passed, 4 pinned failures) and every demonstration kept for the
property (/verif/seeded/<prop>-m*/demo.py, each of which exits 0 on the clean tree and 1 under its own break) still exits 0.
The property id is taken from meta.json or from the path.  Prints one JSON line per directory; the worktree is removed."""
import glob, json, os, re, shutil, subprocess, sys, tempfile
from concurrent.futures import ThreadPoolExecutor

PY = '/venv/bin/python'


def sh(cmd, cwd, timeout=900):
    try:
        r = subprocess.run(cmd, cwd=cwd, shell=True, capture_output=True, text=True, timeout=timeout)
        return r.returncode, r.stdout + r.stderr
    except subprocess.TimeoutExpired:
        return 124, 'TIMEOUT'


def verify(d):
    d = os.path.abspath(d)
    m = re.search(r'C\d\d', d)
    prop = m.group(0)
    try:
        prop = json.load(open(os.path.join(d, 'meta.json'))).get('property', prop)
    except Exception:
        pass
    wt = tempfile.mkdtemp(prefix='vben')
    os.rmdir(wt)
    subprocess.check_call(['git', '-C', '/repo', 'worktree', 'add', '--detach', wt, 'HEAD'], stdout=subprocess.DEVNULL, stderr=subprocess.DEVNULL)
    res = {'dir': d, 'property': prop}
    try:
        rc, out = sh('git apply %s' % os.path.join(d, 'patch.diff'), wt)
        if rc != 0:
            res['apply'] = out[:200]
            res['ok'] = False
            return res
        rc, out = sh('%s -m pytest -q -p no:cacheprovider --timeout=900 2>&1 | tail -3' % PY, wt)
        m = re.search(r'(\d+) failed, (\d+) passed', out)
        res['suite'] = m.group(0) if m else out[-200:]
        bad = []
        demos = sorted(glob.glob('/verif/seeded/%s-m*/demo.py' % prop))
        for demo in demos:
            rc, out = sh('%s %s' % (PY, demo), wt, 400)
            if rc != 0:
                bad.append((os.path.basename(os.path.dirname(demo)), rc, out.strip().splitlines()[-1][:160] if out.strip() else ''))
        res['demos'] = len(demos)
        res['demos_failing'] = bad
        res['ok'] = res['suite'] == '4 failed, 217 passed' and not bad
        return res
    finally:
        subprocess.call(['git', '-C', '/repo', 'worktree', 'remove', '--force', wt], stdout=subprocess.DEVNULL, stderr=subprocess.DEVNULL)
        shutil.rmtree(wt, ignore_errors=True)


if __name__ == '__main__':
    with ThreadPoolExecutor(max_workers=4) as ex:
        for r in ex.map(verify, sys.argv[1:]):
            print(json.dumps(r), flush=True)
