#!/usr/bin/env python3
"""Regenerates MANIFEST.json from the rule modules present and tools/claims.json."""
import json, os
HERE = os.path.dirname(os.path.dirname(os.path.abspath(__file__)))
claims = json.load(open(os.path.join(HERE, 'tools', 'claims.json')))
base = json.load(open('/root/.vp/BASELINE.json'))
checks = []
na = []
for i in range(1, 21):
    pid = 'C%02d' % i
    c = claims.get(pid, {})
    if os.path.exists(os.path.join(HERE, 'pvs', 'rules', pid.lower() + '.py')) and not c.get('not_applicable'):
        checks.append({
            'property_id': pid,
            'quick_cmd': './check %s --tier quick' % pid,
            'thorough_cmd': './check %s --tier thorough' % pid,
            'evidence_file': 'evidence/%s.json' % pid,
            'replay_cmd_template': './check --replay {path}',
            'engine': 'pvs',
            'level_claimed': {
                'category': 'other',
                'text': c.get('text', 'static analysis: structural obligations on all paths; behavioural clauses listed as not decided'),
                'design_ref': 'DESIGN.md section 6, ' + pid,
            },
            'level_note': c.get('note', 'Trusted: CPython ast; rule tables confirmed by reading; library axioms in DESIGN section 7.'),
            'technique': c.get('technique', 'static analysis (custom AST/CFG/dataflow rules)'),
        })
    else:
        na.append({'property_id': pid, 'reason': c.get('not_applicable', 'no static rule built yet for this property in this round')})
m = {
    'version': 1,
    'setup_cmd': 'true',
    'hooks': {
        'guard': 'DCGM_PERO_OCR_VERIF',
        'enable': 'none: the checks parse the sources of /repo and never run them, so no instrumentation exists',
        'baseline_off_cmd': base['cmd'].replace('--junitxml=<file>', '').strip(),
        'source_commits': [],
        'add_only': True,
    },
    'engines': [{'name': 'pvs', 'path': 'pvs', 'serves_properties': [c['property_id'] for c in checks],
                 'kind_free_text': 'repository-specific static analyser over Python ast: CFG, reaching definitions, normal forms, rule tables'}],
    'checks': checks,
    'notes': 'Every check decides structural (S) clauses of its property from /repo sources on each run; behavioural (N) clauses are listed under not_decided in the evidence. Exit 2 + ANALYSIS-ERROR when an anchor vanished.',
    'not_applicable': na,
}
json.dump(m, open(os.path.join(HERE, 'MANIFEST.json'), 'w'), indent=1)
print(len(checks), 'checks,', len(na), 'not applicable')
