#!/usr/bin/env python3
"""tools/seed4run.py DIR [PROP...] : round-4 items under DIR/Cxx/<item>/patch.diff (l* = light behaviour-preserving edits, must stay silent; b* = breaks)."""
import glob, os, shutil, subprocess, sys, tempfile
from concurrent.futures import ThreadPoolExecutor
base = sys.argv[1]
only = sys.argv[2:]
here = os.path.dirname(os.path.dirname(os.path.abspath(__file__)))


def one(pd):
    d = os.path.dirname(pd)
    rel = os.path.relpath(d, base)
    prop = rel[:3]
    kind = 'light' if os.path.basename(d).startswith(('l', 'r', 'p', 's')) else 'break'
    tmp = tempfile.mkdtemp(prefix='pvsseed4')
    try:
        subprocess.check_call('git -C /repo archive HEAD pero_ocr user_scripts | tar -x -C %s' % tmp, shell=True)
        r = subprocess.run(['patch', '-p1', '-s', '-d', tmp, '-i', pd], capture_output=True, text=True)
        if r.returncode != 0:
            return rel, kind, 'PATCH-FAILED', ''
        r = subprocess.run([os.path.join(here, 'check'), prop, '--root', tmp], capture_output=True, text=True)
        viol = [l for l in r.stdout.splitlines() if l.startswith('  ') and 'rule=' in l]
        rules = sorted({l.split('rule=')[1].split()[0] + ':' + l.split()[1].split(':')[-1] for l in viol})
        errs = [l for l in r.stdout.splitlines() if 'ANALYSIS-ERROR' in l]
        status = {0: 'silent', 1: 'VIOLATION', 2: 'CANNOT-DECIDE'}.get(r.returncode, '?')
        good = (status == 'silent') if kind == 'light' else (status == 'VIOLATION')
        return rel, kind, status + ('' if good else '  <-- WRONG'), ', '.join(rules)[:300] + (' | ' + errs[0][:160] if errs else '')
    finally:
        shutil.rmtree(tmp)


pds = [p for p in sorted(glob.glob(os.path.join(base, 'C*', '*', 'patch.diff'))) if not only or os.path.relpath(os.path.dirname(p), base)[:3] in only]
with ThreadPoolExecutor(max_workers=12) as ex:
    rows = list(ex.map(one, pds))
for row in rows:
    print('%-10s %-6s %-24s %s' % row)
