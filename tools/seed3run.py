#!/usr/bin/env python3
"""tools/seed3run.py DIR : round-3 items (r* = behaviour-preserving refactorings, must stay silent; b* = breaks, must be reported)."""
import glob, os, shutil, subprocess, sys, tempfile
base = sys.argv[1] if len(sys.argv) > 1 else '/verif/seeded_r3'
only = sys.argv[2:]
here = os.path.dirname(os.path.dirname(os.path.abspath(__file__)))
rows = []
for pd in sorted(glob.glob(os.path.join(base, 'C*', '*', 'patch.diff')) + glob.glob(os.path.join(base, 'C*-*', 'patch.diff'))):
    d = os.path.dirname(pd)
    rel = os.path.relpath(d, base)
    prop = rel[:3]
    if only and prop not in only and rel not in only:
        continue
    kind = 'refactoring' if os.path.basename(d).lstrip('C0123456789-').startswith('r') else 'break'
    tmp = tempfile.mkdtemp(prefix='pvsseed3')
    try:
        subprocess.check_call('git -C /repo archive HEAD pero_ocr user_scripts | tar -x -C %s' % tmp, shell=True)
        r = subprocess.run(['patch', '-p1', '-s', '-d', tmp, '-i', pd], capture_output=True, text=True)
        if r.returncode != 0:
            rows.append((rel, kind, 'PATCH-FAILED', ''))
            continue
        r = subprocess.run([os.path.join(here, 'check'), prop, '--root', tmp], capture_output=True, text=True)
        viol = [l for l in r.stdout.splitlines() if l.startswith('  ') and 'rule=' in l]
        rules = sorted({l.split('rule=')[1].split()[0] + ':' + l.split()[1].split(':')[-1] for l in viol})
        errs = [l for l in r.stdout.splitlines() if 'ANALYSIS-ERROR' in l]
        status = {0: 'silent', 1: 'ALARM', 2: 'ERROR'}.get(r.returncode, '?')
        good = (status == 'silent') if kind == 'refactoring' else (status == 'ALARM')
        rows.append((rel, kind, status + ('' if good else '  <-- WRONG'), ', '.join(rules)[:400] + (' | ' + errs[0][:200] if errs else '')))
    finally:
        shutil.rmtree(tmp)
for row in rows:
    print('%-10s %-12s %-18s %s' % row)
