import sys, re, glob, os
sys.path.insert(0, '/verif')
from pvs.core import Repo
from pvs.template import compare, template_func
r = Repo()
for f in sorted(glob.glob('/verif/pvs/refs/*_ref.py')):
    ref = open(f).read()
    quals = dict(re.findall(r'^# reference for (\S+)\ndef (\w+)', ref, re.M))
    quals = {v: k for k, v in quals.items()}
    for n in re.findall(r'^def (\w+)', ref, re.M):
        q = quals.get(n)
        if not q:
            continue
        fi = r.func(q)
        tail = fi.qual.split(':')[-1]
        ok, m, x = compare(fi, template_func(ref, n, closure=tail.count('.') >= (2 if fi.cls else 1)))
        if not ok:
            print(os.path.basename(f), n, 'MISMATCH', [e.show()[:120] for e in m + x])
print('done')
