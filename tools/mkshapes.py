#!/usr/bin/env python3
"""tools/mkshapes.py : freeze the statement shapes of every referenced function on the reviewed tree (pvs/refs/shapes.json).
The shapes are used only to MEASURE how much of a function an edit rewrote (local deviation vs restructuring), never for a verdict."""
import glob, json, os, re, sys
sys.path.insert(0, os.path.dirname(os.path.dirname(os.path.abspath(__file__))))
from pvs.core import Repo
from pvs.template import statement_shape
repo = Repo('/repo')
out = {}
for q in sorted(repo.funcs):
    try:
        out[q] = {'raw': statement_shape(repo.funcs[q]), 'pos': statement_shape(repo.funcs[q], positional=True)}
    except Exception as e:
        print('skip', q, e)
p = os.path.join(os.path.dirname(os.path.abspath(__file__)), '..', 'pvs', 'refs', 'shapes.json')
with open(p, 'w') as f:
    f.write('{\n' + ',\n'.join('%s: %s' % (json.dumps(q), json.dumps(v)) for q, v in sorted(out.items())) + '\n}\n')
print(len(out), 'shapes')
