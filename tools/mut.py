#!/usr/bin/env python3
"""tools/mut.py PROP FILE OLD NEW : analyse a scratch copy of /repo with one textual edit (never executed)."""
import os, shutil, subprocess, sys, tempfile
prop, rel, old, new = sys.argv[1:5]
tmp = tempfile.mkdtemp(prefix='pvsmut')
try:
    for d in ('pero_ocr', 'user_scripts'):
        shutil.copytree(os.path.join('/repo', d), os.path.join(tmp, d), ignore=shutil.ignore_patterns('__pycache__'))
    p = os.path.join(tmp, rel)
    s = open(p).read()
    assert s.count(old) >= 1, 'old text not found'
    s = s.replace(old, new, 1)
    open(p, 'w').write(s)
    import ast; ast.parse(s)
    here = os.path.dirname(os.path.dirname(os.path.abspath(__file__)))
    r = subprocess.run([os.path.join(here, 'check'), prop, '--root', tmp], capture_output=True, text=True)
    out = [l for l in r.stdout.splitlines() if 'conda' not in l]
    print('\n'.join(out[-12:]) if len(sys.argv) < 6 else '\n'.join(out))
    print('exit', r.returncode)
finally:
    shutil.rmtree(tmp)
