#!/usr/bin/env python3
"""tools/verify_seed.py <dir-with-patch.diff-demo.py-meta.json> [...]

Re-verifies a proposed seeded break on a scratch worktree of /repo HEAD (outside /repo and /verif): demo.py exits 0 on the
clean tree, the patch applies, the unedited suite is unchanged (217 passed, 4 pinned failures), demo.py exits 1 with the
patch.  Prints one line per directory; the worktree is removed afterwards.  Nothing is analysed here - this only
establishes that a seed is a real break before it joins /verif/seeded."""
import json, os, re, shutil, subprocess, sys, tempfile
from concurrent.futures import ThreadPoolExecutor

PY = '/venv/bin/python'


def sh(cmd, cwd, timeout=900):
    try:
        r = subprocess.run(cmd, cwd=cwd, shell=True, capture_output=True, text=True, timeout=timeout)
        return r.returncode, r.stdout + r.stderr
    except subprocess.TimeoutExpired:
        return 124, 'TIMEOUT'


def verify(d):
    d = os.path.abspath(d)
    wt = tempfile.mkdtemp(prefix='vseed')
    os.rmdir(wt)
    subprocess.check_call(['git', '-C', '/repo', 'worktree', 'add', '--detach', wt, 'HEAD'], stdout=subprocess.DEVNULL, stderr=subprocess.DEVNULL)
    res = {'dir': d}
    try:
        demo = os.path.join(d, 'demo.py')
        rc0, out0 = sh('%s %s' % (PY, demo), wt, 300)
        res['demo_clean'] = rc0
        rc, out = sh('git apply %s' % os.path.join(d, 'patch.diff'), wt)
        if rc != 0:
            res['apply'] = out[:200]
            return res
        rc, out = sh('%s -m pytest -q -p no:cacheprovider --timeout=900 2>&1 | tail -3' % PY, wt)
        m = re.search(r'(\d+) failed, (\d+) passed', out)
        res['suite'] = m.group(0) if m else out[-200:]
        rc1, out1 = sh('%s %s' % (PY, demo), wt, 300)
        res['demo_mut'] = rc1
        res['demo_out'] = out1.strip().splitlines()[-1][:200] if out1.strip() else ''
        res['ok'] = rc0 == 0 and rc1 == 1 and res['suite'] == '4 failed, 217 passed'
        return res
    finally:
        subprocess.call(['git', '-C', '/repo', 'worktree', 'remove', '--force', wt], stdout=subprocess.DEVNULL, stderr=subprocess.DEVNULL)
        shutil.rmtree(wt, ignore_errors=True)


if __name__ == '__main__':
    with ThreadPoolExecutor(max_workers=4) as ex:
        for r in ex.map(verify, sys.argv[1:]):
            print(json.dumps(r))
