#!/usr/bin/env python3
"""tools/mkref.py OUT QUAL... : copy the (reviewed) source of functions from /repo into a reference file.
Only used while authoring; the references are then frozen and read as the oracle."""
import ast, sys, textwrap
sys.path.insert(0, '/verif')
from pvs.core import Repo
out = sys.argv[1]
r = Repo()
chunks = []
for q in sys.argv[2:]:
    alias = None
    if '=' in q:
        alias, q = q.split('=', 1)
    fi = r.func(q)
    seg = ast.get_source_segment(fi.module.source, fi.node)
    lines = fi.module.source.splitlines()[fi.node.lineno - 1:fi.node.end_lineno]
    text = textwrap.dedent('\n'.join(lines))
    # drop decorators
    text = '\n'.join(l for l in text.splitlines() if not l.startswith('@'))
    if alias:
        text = text.replace('def %s(' % fi.name, 'def %s(' % alias, 1)
    chunks.append('# reference for %s\n%s\n' % (q, text))
open(out, 'a').write('\n\n'.join(chunks) + '\n')
print('wrote', len(chunks), 'functions to', out)
