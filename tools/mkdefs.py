#!/usr/bin/env python3
"""tools/mkdefs.py : (authoring) freeze the module / class level data definitions of the reviewed tree into pvs/refs/moddefs.json."""
import json, os, sys
sys.path.insert(0, '/verif')
from pvs.core import Repo
from pvs.rules.generic import module_definitions
repo = Repo('/repo')
out = {}
for name, m in sorted(repo.modules.items()):
    d = module_definitions(m)
    if d:
        out[name] = d
json.dump(out, open('/verif/pvs/refs/moddefs.json', 'w'), indent=1, sort_keys=True)
print(sum(len(v) for v in out.values()), 'definitions in', len(out), 'modules')
