#!/usr/bin/env python3
"""tools/seedrun.py [DIR] [PROP...] : apply each seeded patch to a scratch copy of /repo (never /repo itself),
run the check of its property (and optionally all checks) on the copy, report which checks fire."""
import glob, json, os, shutil, subprocess, sys, tempfile
base = sys.argv[1] if len(sys.argv) > 1 else '/verif/seeded'
props = sys.argv[2:]
here = os.path.dirname(os.path.dirname(os.path.abspath(__file__)))
rows = []
for pd in sorted(glob.glob(os.path.join(base, 'C*', '*', 'patch.diff')) + glob.glob(os.path.join(base, 'C*-*', 'patch.diff'))):
    d = os.path.dirname(pd)
    rel = os.path.relpath(d, base)
    prop = rel[:3]
    if props and prop not in props:
        continue
    tmp = tempfile.mkdtemp(prefix='pvsseed')
    try:
        subprocess.check_call('git -C /repo archive HEAD pero_ocr user_scripts | tar -x -C %s' % tmp, shell=True)
        r = subprocess.run(['patch', '-p1', '-s', '-d', tmp, '-i', pd], capture_output=True, text=True)
        if r.returncode != 0:
            rows.append((rel, 'PATCH-FAILED', r.stdout[:100]))
            continue
        r = subprocess.run([os.path.join(here, 'check'), prop, '--root', tmp], capture_output=True, text=True)
        viol = [l for l in r.stdout.splitlines() if l.startswith('  ') and 'rule=' in l]
        rules = sorted({l.split('rule=')[1].split()[0] for l in viol})
        status = {0: 'missed', 1: 'CAUGHT', 2: 'ERROR'}.get(r.returncode, '?')
        rows.append((rel, status, ','.join(rules) if rules else ([l for l in r.stdout.splitlines() if 'ANALYSIS-ERROR' in l] or [''])[0][:150]))
    finally:
        shutil.rmtree(tmp)
for row in rows:
    print('%-12s %-8s %s' % row)
print('caught %d / %d' % (sum(1 for r in rows if r[1] == 'CAUGHT'), len(rows)))
if base.rstrip('/') == '/verif/seeded' and not props:
    import json
    with open(os.path.join(base, 'RESULTS.md'), 'w') as f:
        f.write('# Seeded changes and the rules that report them\n\nWritten by tools/seedrun.py: every patch is applied to a scratch copy of /repo HEAD (never to /repo) and the check of its property is run on the copy.\n\n')
        f.write('| seed | status | rules reporting a violation | what was changed |\n|---|---|---|---|\n')
        for rel, status, rules in rows:
            try:
                what = json.load(open(os.path.join(base, rel, 'meta.json')))['summary'].replace('|', '/').replace('\n', ' ')[:220]
            except Exception:
                what = ''
            f.write('| %s | %s | %s | %s |\n' % (rel, status, rules, what))
        f.write('\ncaught %d / %d\n' % (sum(1 for r in rows if r[1] == 'CAUGHT'), len(rows)))
