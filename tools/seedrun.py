#!/usr/bin/env python3
"""tools/seedrun.py [PROP...] : apply each seeded break (/verif/seeded) and each behaviour-preserving refactoring
(/verif/refactorings) to a scratch copy of /repo HEAD (never /repo itself), run the check of its property on the copy and
report what the check says. Writes seeded/RESULTS.md when run without arguments."""
import glob, json, os, shutil, subprocess, sys, tempfile
from concurrent.futures import ThreadPoolExecutor
props = sys.argv[1:]
here = os.path.dirname(os.path.dirname(os.path.abspath(__file__)))


def one(pd):
    d = os.path.dirname(pd)
    rel = os.path.basename(d)
    prop = rel[:3]
    tmp = tempfile.mkdtemp(prefix='pvsseed')
    try:
        subprocess.check_call('git -C /repo archive HEAD pero_ocr user_scripts | tar -x -C %s' % tmp, shell=True)
        r = subprocess.run(['patch', '-p1', '-s', '-d', tmp, '-i', pd], capture_output=True, text=True)
        if r.returncode != 0:
            return rel, 'PATCH-FAILED', r.stdout[:100]
        r = subprocess.run([os.path.join(here, 'check'), prop, '--root', tmp], capture_output=True, text=True)
        viol = [l for l in r.stdout.splitlines() if l.startswith('  ') and 'rule=' in l]
        rules = sorted({l.split('rule=')[1].split()[0] for l in viol})
        errs = [l for l in r.stdout.splitlines() if 'ANALYSIS-ERROR' in l]
        status = {0: 'silent', 1: 'VIOLATION', 2: 'CANNOT-DECIDE'}.get(r.returncode, '?')
        return rel, status, ','.join(rules) if rules else (errs or [''])[0].replace('ANALYSIS-ERROR ', '')[:170]
    finally:
        shutil.rmtree(tmp)


def table(base):
    pds = [p for p in sorted(glob.glob(os.path.join(base, 'C*-*', 'patch.diff'))) if not props or os.path.basename(os.path.dirname(p))[:3] in props]
    with ThreadPoolExecutor(max_workers=12) as ex:
        return list(ex.map(one, pds))


def summary(base, rel):
    try:
        return json.load(open(os.path.join(base, rel, 'meta.json')))['summary'].replace('|', '/').replace('\n', ' ')[:220]
    except Exception:
        return ''


breaks = table('/verif/seeded')
for row in breaks:
    print('%-12s %-14s %s' % row)
nb = sum(1 for r in breaks if r[1] == 'VIOLATION')
print('breaks: VIOLATION %d / %d, cannot-decide %d, silent %d' % (nb, len(breaks), sum(1 for r in breaks if r[1] == 'CANNOT-DECIDE'), sum(1 for r in breaks if r[1] == 'silent')))
refs = table('/verif/refactorings')
for row in refs:
    print('%-12s %-14s %s' % row)
print('refactorings: silent %d / %d, cannot-decide %d, false VIOLATION %d' % (sum(1 for r in refs if r[1] == 'silent'), len(refs), sum(1 for r in refs if r[1] == 'CANNOT-DECIDE'), sum(1 for r in refs if r[1] == 'VIOLATION')))
if not props:
    with open('/verif/seeded/RESULTS.md', 'w') as f:
        f.write('# Seeded changes and what the checks say about them\n\nWritten by tools/seedrun.py: every patch is applied to a scratch copy of /repo HEAD (never to /repo) '
                'and the check of its property is run on the copy.\n\n## Breaks (seeded/): must be reported\n\n')
        f.write('| seed | verdict | rules reporting a violation | what was changed |\n|---|---|---|---|\n')
        for rel, status, rules in breaks:
            f.write('| %s | %s | %s | %s |\n' % (rel, status, rules, summary('/verif/seeded', rel)))
        f.write('\nVIOLATION %d / %d; CANNOT-DECIDE (exit 2, function named as restructured) %d; silent %d\n' % (
            nb, len(breaks), sum(1 for r in breaks if r[1] == 'CANNOT-DECIDE'), sum(1 for r in breaks if r[1] == 'silent')))
        f.write('\n## Behaviour-preserving deep refactorings (refactorings/): a VIOLATION here is a false alarm\n\n')
        f.write('| refactoring | verdict | rules / reason | what was changed |\n|---|---|---|---|\n')
        for rel, status, rules in refs:
            f.write('| %s | %s | %s | %s |\n' % (rel, status, rules, summary('/verif/refactorings', rel)))
        f.write('\nsilent %d / %d; CANNOT-DECIDE (exit 2) %d; false VIOLATION %d\n' % (
            sum(1 for r in refs if r[1] == 'silent'), len(refs), sum(1 for r in refs if r[1] == 'CANNOT-DECIDE'), sum(1 for r in refs if r[1] == 'VIOLATION')))
